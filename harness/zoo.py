"""Operator zoo: directed script templates covering the VTL operators beyond the modelled subset (joins, exists_in, aggregations,
analytics, time operators, validation, conditionals, casts, string/numeric functions), run over random data with nulls, repeated
partial keys and nested identifier sets.  Used by the model-free predicates (C10 conformance, C33 permutation, C15 configuration)."""
from __future__ import annotations

from fractions import Fraction
from typing import Dict, List, Tuple

import pandas as pd

import engine

I, M = "Identifier", "Measure"
STRUCTS = {
    "DS_1": [("Id_1", "Integer", I, False), ("Id_2", "String", I, False), ("Me_1", "Number", M, True), ("Me_2", "Number", M, True)],
    "DS_2": [("Id_2", "String", I, False), ("Id_1", "Integer", I, False), ("Me_1", "Number", M, True), ("Me_2", "Number", M, True)],
    "DS_3": [("Id_1", "Integer", I, False), ("Me_1", "Number", M, True)],
    "DS_4": [("Id_1", "Integer", I, False), ("Id_2", "String", I, False), ("Id_3", "Integer", I, False), ("Me_1", "Number", M, True)],
    "DS_S": [("Id_1", "Integer", I, False), ("Me_s", "String", M, True), ("Me_b", "Boolean", M, True), ("Me_i", "Integer", M, True)],
    "DS_T": [("Id_1", "Integer", I, False), ("Id_t", "Time_Period", I, False), ("Me_1", "Number", M, True)],
    "DS_D": [("Id_1", "Integer", I, False), ("Id_d", "Date", I, False), ("Me_1", "Number", M, True)],
}

PRE = """define datapoint ruleset dpr1 (variable Me_1, Me_2) is
  r1: when Me_1 > 0 then Me_2 >= 0 errorcode "E1" errorlevel 1;
  r2: Me_1 < 100 errorcode "E2"
end datapoint ruleset;
"""

TEMPLATES: List[Tuple[str, str]] = [
    ("exists_in", "DS_r <- exists_in(DS_1, DS_4);"),
    ("exists_in_true", "DS_r <- exists_in(DS_1, DS_4, true);"),
    ("exists_in_sub", "DS_r <- exists_in(DS_3, DS_1, all);"),
    ("inner_join", "DS_r <- inner_join(DS_1 as a, DS_2 as b rename a#Me_1 to A1, a#Me_2 to A2, b#Me_1 to B1, b#Me_2 to B2);"),
    ("left_join", "DS_r <- left_join(DS_1 as a, DS_2 as b keep a#Me_1, b#Me_2);"),
    ("full_join", "DS_r <- full_join(DS_1 as a, DS_2 as b keep a#Me_1, b#Me_2);"),
    ("inner_join_nested", "DS_r <- inner_join(DS_4 as a, DS_1 as b keep a#Me_1, b#Me_2);"),
    ("left_join_using", "DS_r <- left_join(DS_4 as a, DS_3 as b using Id_1 rename a#Me_1 to A1, b#Me_1 to B1);"),
    ("cross_join", "DS_r <- cross_join(DS_3 as a, DS_3 as b rename a#Id_1 to Ia, b#Id_1 to Ib, a#Me_1 to A1, b#Me_1 to B1);"),
    ("join_calc", "DS_r <- inner_join(DS_1 as a, DS_3 as b calc Me_9 := a#Me_1 + b#Me_1 keep Me_9);"),
    ("sum_by", "DS_r <- sum(DS_1 group by Id_2);"),
    ("avg_except", "DS_r <- avg(DS_4 group except Id_3);"),
    ("count_all", "DS_r <- count(DS_1);"),
    ("minmax", "DS_r <- max(DS_1 group by Id_1);"),
    ("median_by", "DS_r <- median(DS_4 group by Id_1);"),
    ("stddev", "DS_r <- stddev_samp(DS_4 group by Id_1, Id_2);"),
    ("having", "DS_r <- sum(DS_4 group by Id_1 having count() > 1);"),
    ("aggr_clause", "DS_r <- DS_4[aggr Me_9 := sum(Me_1), Me_8 := count() group by Id_1, Id_2];"),
    ("an_sum", "DS_r <- sum(DS_4 over (partition by Id_1, Id_2 order by Id_3));"),
    ("an_rank", "DS_r <- DS_4[calc Me_9 := rank(over (partition by Id_1 order by Id_2, Id_3))];"),
    ("an_lag", "DS_r <- DS_4[calc Me_9 := lag(Me_1, 1 over (partition by Id_1, Id_2 order by Id_3))];"),
    ("an_first", "DS_r <- first_value(DS_4 over (partition by Id_1 order by Id_2, Id_3 data points between 1 preceding and 1 following));"),
    ("an_ratio", "DS_r <- DS_4[calc Me_9 := ratio_to_report(Me_1 over (partition by Id_1))];"),
    ("union3", "DS_r <- union(DS_1, DS_2, DS_1);"),
    ("symdiff", "DS_r <- symdiff(DS_1, DS_2);"),
    ("if_ds", "T_c := DS_3 > 0; T_b := DS_3 * 2; DS_r <- if T_c then DS_3 else T_b;"),
    ("case_comp", "DS_r <- DS_1[calc Me_9 := case when Me_1 > 0 then Me_1 when Me_2 > 0 then Me_2 else 0.0];"),
    ("nvl_between", "DS_r <- DS_1[calc Me_9 := nvl(Me_1, 0.0), Me_8 := between(Me_2, 0.0, 5.0), Me_7 := Me_1 in {1.0, 2.5}];"),
    ("membership", "DS_r <- DS_1#Me_2;"),
    ("sub_rename", "DS_r <- DS_1[sub Id_2 = \"A\"][rename Me_1 to Me_9];"),
    ("numeric", "DS_r <- DS_1[calc Me_9 := round(Me_1 / 3, 2), Me_8 := trunc(Me_2, 1), Me_7 := mod(abs(Me_1), 3), Me_6 := power(Me_2, 2), Me_5 := sqrt(abs(Me_1)), Me_4 := exp(Me_2 / 10), Me_3 := ln(abs(Me_1) + 1)];"),
    ("strings", "DS_r <- DS_S[calc Me_9 := substr(Me_s, 2, 3), Me_8 := instr(Me_s, \"a\"), Me_7 := replace(Me_s, \"a\", \"XY\"), Me_6 := upper(Me_s) || \"_\" || lower(Me_s), Me_5 := length(trim(Me_s))];"),
    ("booleans", "DS_r <- DS_S[calc Me_9 := Me_b and (Me_i > 2), Me_8 := not Me_b or isnull(Me_s), Me_7 := Me_b xor (Me_i = 0)];"),
    ("cast", "DS_r <- DS_S[calc Me_9 := cast(Me_i, string), Me_8 := cast(Me_i, number), Me_7 := cast(Me_b, integer), Me_6 := cast(Me_i, boolean)];"),
    ("match", "DS_r <- DS_S[calc Me_9 := match_characters(Me_s, \"[a-z]+\")];"),
    ("ds_ops", "T_1 := DS_1 * 2 - DS_2; DS_r <- T_1[filter Me_1 > 0 or isnull(Me_2)];"),
    ("unary_ds", "T_1 := ceil(DS_3); DS_r <- abs(DS_3) + T_1[rename int_var to Me_1];"),
    ("check", "DS_r <- check(DS_1#Me_1 >= DS_2#Me_1 errorcode \"X\" errorlevel 2 imbalance DS_1#Me_1 - DS_2#Me_1 all);"),
    ("check_invalid", "DS_r <- check(DS_3 > 0 invalid);"),
    ("check_dp", PRE + "DS_r <- check_datapoint(DS_1, dpr1 all);"),
    ("check_dp_invalid", PRE + "DS_r <- check_datapoint(DS_1, dpr1);"),
    ("timeshift", "DS_r <- timeshift(DS_T, 2);"),
    ("time_agg", "DS_r <- sum(DS_T group all time_agg(\"A\"));"),
    ("period_ind", "DS_r <- DS_T[calc Me_9 := period_indicator(Id_t)];"),
    ("flow_stock", "DS_r <- stock_to_flow(flow_to_stock(DS_T));"),
    ("fill_ts", "DS_r <- fill_time_series(DS_T, single);"),
    ("date_ops", "DS_r <- DS_D[calc Me_9 := getyear(Id_d), Me_8 := getmonth(Id_d), Me_7 := dayofyear(Id_d), Me_6 := dayofmonth(Id_d)];"),
    ("dateadd", "DS_r <- DS_D[calc Me_9 := dateadd(Id_d, 3, \"M\"), Me_8 := datediff(Id_d, cast(\"2020-01-01\", date))];"),
    ("scalars", "s_1 <- 3 + 4 * 2; s_2 <- \"a\" || \"b\"; s_3 <- if s_1 > 5 then true else false; DS_r <- DS_3 * s_1;"),
]


def gen_data(rng, scale=1) -> Dict[str, pd.DataFrame]:
    """scale multiplies the universe of Id_1 (and with it the number of datapoints of every dataset)"""
    def num():
        return None if rng.random() < 0.2 else float(Fraction(rng.randrange(-40, 41), 4))
    ids1 = list(range(1, 4 * scale + 1))
    ids2 = ["A", "B", "C"]
    out = {}

    def pick(universe, p=0.6):
        u = [k for k in universe if rng.random() < p]
        rng.shuffle(u)
        return u
    import itertools
    k12 = list(itertools.product(ids1, ids2))
    d1 = pick(k12)
    out["DS_1"] = pd.DataFrame({"Id_1": [k[0] for k in d1], "Id_2": [k[1] for k in d1], "Me_1": [num() for _ in d1], "Me_2": [num() for _ in d1]})
    d2 = pick(k12)
    out["DS_2"] = pd.DataFrame({"Id_2": [k[1] for k in d2], "Id_1": [k[0] for k in d2], "Me_1": [num() for _ in d2], "Me_2": [num() for _ in d2]})
    d3 = pick([(i,) for i in ids1], 0.8)
    out["DS_3"] = pd.DataFrame({"Id_1": [k[0] for k in d3], "Me_1": [num() for _ in d3]})
    d4 = pick(list(itertools.product(ids1, ids2, [1, 2, 3])), 0.5)
    out["DS_4"] = pd.DataFrame({"Id_1": [k[0] for k in d4], "Id_2": [k[1] for k in d4], "Id_3": [k[2] for k in d4], "Me_1": [num() for _ in d4]})
    ds = pick([(i,) for i in range(1, 8 * scale + 1)], 0.8)
    strs = ["abc", "banana", " pad ", "", "Hello", "a", "xyz", "AbA"]
    out["DS_S"] = pd.DataFrame({"Id_1": [k[0] for k in ds], "Me_s": [None if rng.random() < 0.15 else rng.choice(strs) for _ in ds],
                                "Me_b": [None if rng.random() < 0.2 else rng.random() < 0.5 for _ in ds],
                                "Me_i": [None if rng.random() < 0.15 else rng.choice([0, 1, 2, 3, 7, -4]) for _ in ds]}).astype(object)
    freq = rng.choice(["M", "Q", "A", "W", "D"])
    periods = {"M": [f"2020-M{m:02d}" for m in range(9, 13)] + [f"2021-M{m:02d}" for m in range(1, 4)],
               "Q": ["2020-Q3", "2020-Q4", "2021-Q1", "2021-Q2"], "A": ["2019", "2020", "2021", "2022"],
               "W": ["2020-W51", "2020-W52", "2020-W53", "2021-W01", "2021-W02"], "D": ["2020-D364", "2020-D365", "2020-D366", "2021-D001", "2021-D002"]}[freq]
    dt = pick(list(itertools.product(range(1, 2 * scale + 1), periods)), 0.7)
    out["DS_T"] = pd.DataFrame({"Id_1": [k[0] for k in dt], "Id_t": [k[1] for k in dt], "Me_1": [num() for _ in dt]})
    dates = ["2020-02-28", "2020-02-29", "2020-12-31", "2021-01-01", "2021-03-15"]
    dd = pick(list(itertools.product(range(1, 2 * scale + 1), dates)), 0.7)
    out["DS_D"] = pd.DataFrame({"Id_1": [k[0] for k in dd], "Id_d": [k[1] for k in dd], "Me_1": [num() for _ in dd]})
    return out


def structures_for(script: str):
    names = [n for n in STRUCTS if n in script]
    return engine.structures(*[engine.ds_struct(n, STRUCTS[n]) for n in names]), names


def cases(rng, n_draws=1, only=None, scale=1, skip=()):
    """yields (template name, script, structures, datapoints)"""
    for name, script in TEMPLATES:
        if (only and name not in only) or name in skip:
            continue
        st, names = structures_for(script)
        for _ in range(n_draws):
            data = gen_data(rng, scale)
            yield name, script, st, {n: data[n] for n in names}


if __name__ == "__main__":
    import random
    engine.install(need_parser=True)
    rng = random.Random(1)
    for name, script, st, dps in cases(rng):
        r = engine.run_case(script, st, dps)
        print(f"{name:18s}", "OK" if r["ok"] else (r["err"], r["msg"][:110]), {k: len(v["rows"]) for k, v in r.get("datasets", {}).items()} if r["ok"] else "")
