"""C03 — generator and correspondence runner for aggregations (Model/Aggr.v).

A case is a script of 1-2 statements over ONE generated input dataset DS_1 (2-3 identifiers, 1-3 measures, 0-200 datapoints,
nulls, all-null groups); the last statement is an aggregation in the standalone form `op(DS group by … having …)` or in the
clause form `DS[aggr n := op(comp), … group … having …]`.  Statements are kept as JSON specs and rendered both to VTL text and
to Gallina terms (aexpr), so that shrinking and replay re-render them.  The model side is `run_ascript` evaluated by vm_compute
inside Coq; the comparison is keyed by identifiers and typed by the ENGINE's result structure:
  exact  (identifiers, sum, min, max, count, median)   equality of exact rationals (Fraction(x).limit_denominator(10**6))
  avg                                                  the same (1/4-grid inputs, <= 200 datapoints: denominators <= 800)
  var    (var_pop, var_samp)                           exact first, else |e - m| <= 1e-9 * max(1, |m|)  (DuckDB computes them in DOUBLE)
  std    (stddev_pop, stddev_samp)                     the engine value is SQUARED and compared with the model's variance, same tolerance
A small independent Python reference (`ref_eval`, exact Fractions) classifies every disagreement: engine != reference is an
engine violation of the property; engine = reference != model is a broken model (an obligation failure)."""
from __future__ import annotations

import hashlib
import itertools
import json
import math
from fractions import Fraction
from typing import Any, Dict, List, Optional, Tuple

import coqval as V
import engine
import exprgen as G
import exprk
from common import CORPUS, NCPU, coq_eval, coq_list, coq_string, coq_z

HEADER = ("From Coq Require Import ZArith QArith String List.\nImport ListNotations.\n"
          "From VTL Require Import Base.Val Model.Table Model.Scalar Model.Expr Model.Aggr.\nOpen Scope string_scope.\n")

OPS = {"sum": "ASum", "avg": "AAvg", "count": "ACount", "min": "AMin", "max": "AMax", "median": "AMedian",
       "stddev_pop": "AStddevPop", "stddev_samp": "AStddevSamp", "var_pop": "AVarPop", "var_samp": "AVarSamp"}
MODE = {"sum": "exact", "min": "exact", "max": "exact", "count": "exact", "median": "exact", "avg": "avg",
        "var_pop": "var", "var_samp": "var", "stddev_pop": "std", "stddev_samp": "std"}
ANY_TYPE_OPS = ("count", "min", "max")
NUM_OPS = tuple(o for o in OPS if o not in ANY_TYPE_OPS)
EXACT_OPS = ("sum", "min", "max", "count")          # operators whose result may feed a second statement
HAVING_OPS = ("sum", "avg", "min", "max", "median", "count")
CMP = {"=": "Eq", "<>": "Neq", ">": "Gt", ">=": "Ge", "<": "Lt", "<=": "Le"}
BIN = dict(G.BIN)
TOL = 1e-9

ID_UNIVERSE = {"Id_1": ("Integer", [1, 2, 3, 4]), "Id_2": ("String", ["A", "B", "C"])}


# ------------------------------------------------------------------ rendering of specs
def lit_vtl(typ, v):
    if v is None:
        return "null"
    if typ == "Integer":
        return str(v)
    if typ == "Number":
        f = Fraction(v)
        txt = format(float(abs(f)), "g")
        if "." not in txt:
            txt += ".0"
        return txt if f >= 0 else f"-{txt}"
    if typ == "Boolean":
        return "true" if v else "false"
    return f'"{v}"'


def cexpr_vtl(e):
    k = e[0]
    if k == "col":
        return e[1]
    if k == "lit":
        return lit_vtl(e[1], e[2])
    if k == "bin":
        return f"({cexpr_vtl(e[2])} {e[1]} {cexpr_vtl(e[3])})"
    if k == "un":
        return f"{e[1]}({cexpr_vtl(e[2])})"
    if k == "nvl":
        return f"nvl({cexpr_vtl(e[1])}, {cexpr_vtl(e[2])})"
    raise ValueError(e)


def cexpr_coq(e):
    k = e[0]
    if k == "col":
        return f"(CCol {coq_string(e[1])})"
    if k == "lit":
        return f"(CLit {V.to_val(e[2], e[1])})"
    if k == "bin":
        return f"(CBin {BIN[e[1]]} {cexpr_coq(e[2])} {cexpr_coq(e[3])})"
    if k == "un":
        return f"(CUn {G.UNF[e[1]]} {cexpr_coq(e[2])})"
    if k == "nvl":
        return f"(CNvl {cexpr_coq(e[1])} {cexpr_coq(e[2])})"
    raise ValueError(e)


def hexpr_vtl(h, top=True):
    k = h[0]
    if k == "agg":
        return f"{h[1]}({cexpr_vtl(h[2])})"
    if k == "count":
        return "count()"
    if k == "lit":
        return lit_vtl(h[1], h[2])
    if k == "bin":
        s = f"{hexpr_vtl(h[2], False)} {h[1]} {hexpr_vtl(h[3], False)}"
        return s if top else f"({s})"
    if k == "un":       # not (x) | isnull(x)
        if h[1] == "isnull":
            return f"isnull({hexpr_vtl(h[2])})"
        s = f"not ({hexpr_vtl(h[2])})"
        return s if top else f"({s})"
    if k == "paren":    # redundant parentheses around the whole condition (text only)
        return f"({hexpr_vtl(h[1])})"
    raise ValueError(h)


def hexpr_coq(h):
    k = h[0]
    if k == "agg":
        return f"(HAgg {OPS[h[1]]} {cexpr_coq(h[2])})"
    if k == "count":
        return "HCount"
    if k == "lit":
        return f"(HLit {V.to_val(h[2], h[1])})"
    if k == "bin":
        return f"(HBin {BIN[h[1]]} {hexpr_coq(h[2])} {hexpr_coq(h[3])})"
    if k == "un":
        return f"(HUn {'Not' if h[1] == 'not' else 'IsNull'} {hexpr_coq(h[2])})"
    if k == "paren":
        return hexpr_coq(h[1])
    raise ValueError(h)


def grouping_vtl(g):
    if g[0] == "none":
        return ""
    return f" group {'by' if g[0] == 'by' else 'except'} {', '.join(g[1])}"


def grouping_coq(g):
    if g[0] == "none":
        return "GNone"
    return f"({'GBy' if g[0] == 'by' else 'GExcept'} {coq_list([coq_string(n) for n in g[1]])})"


def stmt_vtl(s):
    hv = f" having {hexpr_vtl(s['having'])}" if s.get("having") else ""
    if s["kind"] == "agg":
        return f"{s['op']}({s['src']}{grouping_vtl(s['grouping'])}{hv})"
    if s["kind"] == "clause":
        items = ", ".join(f"{n} := {'count()' if op == 'count' and c is None else f'{op}({cexpr_vtl(c)})'}" for n, op, c in s["items"])
        return f"{s['src']}[aggr {items}{grouping_vtl(s['grouping'])}{hv}]"
    if s["kind"] == "filter":
        return f"{s['src']}[filter {cexpr_vtl(s['cond'])}]"
    raise ValueError(s)


def stmt_coq(s):
    src = f"(DVar {coq_string(s['src'])})"
    hv = f"(Some {hexpr_coq(s['having'])})" if s.get("having") else "None"
    if s["kind"] == "agg":
        return f"(AAgg {OPS[s['op']]} {src} {grouping_coq(s['grouping'])} {hv})"
    if s["kind"] == "clause":
        items = coq_list([f"({coq_string(n)}, {'ICount' if op == 'count' and c is None else f'(IAgg {OPS[op]} {cexpr_coq(c)})'})"
                          for n, op, c in s["items"]])
        return f"(AClause {src} {items} {grouping_coq(s['grouping'])} {hv})"
    if s["kind"] == "filter":
        return f"(AD (DFilter {src} {cexpr_coq(s['cond'])}))"
    raise ValueError(s)


def script_of(stmts):
    return "".join(f"{n} {'<-' if i == len(stmts) - 1 else ':='} {stmt_vtl(s)};\n" for i, (n, s) in enumerate(stmts))


def coq_of(stmts):
    return coq_list([f"({coq_string(n)}, {stmt_coq(s)})" for n, s in stmts])


def modes_of(s) -> Dict[str, str]:
    """comparison mode of each non-identifier component of the result ('*' = every measure)"""
    if s["kind"] == "agg":
        return {"*": MODE[s["op"]]}
    if s["kind"] == "clause":
        return {n: MODE[op] for n, op, _ in s["items"]}
    return {"*": "exact"}


# ------------------------------------------------------------------ input datasets
def gen_rows_count(rng, tier):
    x = rng.random()
    if x < 0.08:
        return 0
    if x < 0.20:
        return rng.randrange(1, 4)
    if x < 0.78:
        return rng.randrange(4, 31)
    if x < 0.94:
        return rng.randrange(31, 101)
    return rng.randrange(101, 201)


def gen_dataset(rng, tier, mtypes: List[str], nm: Optional[int] = None):
    """one dataset: identifiers Id_1 (Integer), optionally Id_2 (String), and Id_3 (Integer) so that non-grouped identifiers
    repeat inside groups; returns {'shape', 'rows', 'null_groups'}"""
    n = gen_rows_count(rng, tier)
    idsets = [["Id_1", "Id_2"], ["Id_1", "Id_3"], ["Id_1", "Id_2", "Id_3"], ["Id_1", "Id_2", "Id_3"]]
    names = rng.choice(idsets)
    if n > 12 and "Id_3" not in names:
        names = ["Id_1", "Id_2", "Id_3"]
    k1 = rng.choice([1, 2, 3, 4, 4])
    uni: Dict[str, List[Any]] = {}
    for nme in names:
        if nme == "Id_1":
            uni[nme] = ID_UNIVERSE["Id_1"][1][:k1]
        elif nme == "Id_2":
            uni[nme] = ID_UNIVERSE["Id_2"][1][:rng.choice([1, 2, 3, 3])]
        else:
            other = 1
            for o in names:
                if o != "Id_3":
                    other *= len(uni.get(o, [1]))
            uni[nme] = list(range(1, max(2, math.ceil(n / max(other, 1)) + rng.choice([0, 1, 3])) + 1))
    ids = [(nme, "Integer" if nme != "Id_2" else "String") for nme in names]
    universe = list(itertools.product(*[uni[nme] for nme in names]))
    keys = rng.sample(universe, min(n, len(universe)))
    nm = nm or rng.choice([1, 1, 2, 2, 3])
    ms = [(f"Me_{j}", rng.choice(mtypes)) for j in range(1, nm + 1)]
    null_p = rng.choice([0.25, 0.25, 0.25, 0.0, 0.6])
    rows = [(list(k), [G.gen_value(rng, t, null_p) for _, t in ms]) for k in keys]
    null_groups = 0
    if rows and rng.random() < 0.45:      # all-null groups: one identifier value has one (or every) measure null everywhere
        pos = rng.randrange(len(names))
        val = rng.choice(uni[names[pos]])
        cols = list(range(len(ms))) if rng.random() < 0.5 else [rng.randrange(len(ms))]
        for k, m in rows:
            if k[pos] == val:
                for c in cols:
                    m[c] = None
                null_groups += 1
    return {"shape": G.Shape(ids, ms), "rows": rows, "null_groups": null_groups}


# ------------------------------------------------------------------ statements
def gen_grouping(rng, ids: List[str]):
    x = rng.random()
    if x < 0.45 and ids:
        sel = rng.sample(ids, rng.randrange(1, len(ids) + 1))
        return ["by", sel]
    if x < 0.75 and ids:
        k = rng.randrange(1, len(ids) + 1)
        return ["except", rng.sample(ids, k)]
    return ["none", []]


def grouping_label(g, ids):
    if g[0] == "none":
        return "none"
    if any(n not in ids for n in g[1]):
        return f"{g[0]}:malformed"
    left = [i for i in ids if (i in g[1]) == (g[0] == "by")]
    return f"{g[0]}:{'no-id-left' if not left else 'all-ids' if len(left) == len(ids) else 'some-ids'}"


def gen_comp(rng, ms: List[Tuple[str, str]], typ_ok, allow_expr=True):
    """component operand of an aggregate: mostly a plain measure, sometimes a small exact expression"""
    cands = [(n, t) for n, t in ms if typ_ok(t)]
    if not cands:
        return None
    n, t = rng.choice(cands)
    e: Any = ["col", n]
    if allow_expr and t in G.NUMERIC and rng.random() < 0.2:
        k = rng.choice(["+lit", "*lit", "-col", "abs", "nvl"])
        if k == "+lit":
            e = ["bin", "+", e, ["lit", "Integer", rng.choice([1, 2, 10])]]
        elif k == "*lit":
            e = ["bin", "*", e, ["lit", t, 2 if t == "Integer" else "1/2"]]
        elif k == "-col":
            o = rng.choice([x for x in ms if x[1] in G.NUMERIC])
            e = ["bin", "-", e, ["col", o[0]]]
        elif k == "abs":
            e = ["un", "abs", e]
        else:
            e = ["nvl", e, ["lit", t, 0 if t == "Integer" else "0"]]
    return e


def gen_having(rng, comp_candidates: List[Tuple[Any, str]]):
    """condition over ONE component (the engine evaluates having over a one-measure dataset); comp_candidates: [(cexpr, type)]"""
    def atom():
        if rng.random() < 0.25 or not comp_candidates:
            return ["bin", rng.choice(list(CMP)), ["count"], ["lit", "Integer", rng.choice([0, 1, 2, 3, 5])]]
        c, t = rng.choice(comp_candidates)
        if t in G.NUMERIC:
            op = rng.choice(HAVING_OPS)
            lt = "Integer" if op == "count" else rng.choice(["Integer", "Number"])
            _, _, v = G.lit(rng, lt, allow_null=(rng.random() < 0.05))
            lhs: Any = ["agg", op, c]
            if rng.random() < 0.1 and op != "count":
                lhs = ["bin", "+", lhs, ["lit", "Integer", 1]]
            x = rng.random()
            if x < 0.12:      # two aggregates of the group compared with each other: sum(x) > count(x), max(x) <= avg(x) + count()
                rhs: Any = rng.choice([["agg", rng.choice(HAVING_OPS), c], ["count"]])
                if rng.random() < 0.3:
                    rhs = ["bin", rng.choice(["+", "-"]), rhs, rng.choice([["agg", "count", c], ["lit", "Integer", 1]])]
                return ["bin", rng.choice(list(CMP)), lhs, rhs]
            return ["bin", rng.choice(list(CMP)), lhs, ["lit", lt, str(v) if isinstance(v, Fraction) else v]]
        op = rng.choice(["min", "max", "count"])
        if op == "count":
            return ["bin", rng.choice(list(CMP)), ["agg", "count", c], ["lit", "Integer", rng.choice([0, 1, 2])]]
        _, _, v = G.lit(rng, t, allow_null=False)
        return ["bin", rng.choice(["=", "<>", ">", "<"] if t == "String" else ["=", "<>"]), ["agg", op, c], ["lit", t, v]]
    def boolean_atom():
        a = atom()
        x = rng.random()
        if x < 0.10:
            return ["un", "not", a]
        if x < 0.18 and comp_candidates:      # isnull(agg(comp)) / not (isnull(…))
            c, t = rng.choice(comp_candidates)
            op = rng.choice(["sum", "avg", "max"] if t in G.NUMERIC else ["min", "max"])
            e: Any = ["un", "isnull", ["agg", op, c]]
            return ["un", "not", e] if rng.random() < 0.5 else e
        return a
    a = boolean_atom()
    if rng.random() < 0.3:
        a = ["bin", rng.choice(["and", "or"]), a, boolean_atom()]
    x = rng.random()
    if x < 0.06:
        return ["paren", a]
    if x < 0.12:
        return ["un", "not", a]
    return a


def gen_main(rng, src: str, sh: G.Shape, form: str, want_having: bool, defect: Optional[str] = None):
    """aggregation over the named dataset `src` of shape sh -> spec or None"""
    ids = [n for n, _ in sh.ids]
    g = gen_grouping(rng, ids)
    if not defect and sh.ms and rng.random() < 0.03:
        # malformed grouping (a measure / an unknown component): the same semantic error code is expected from both sides
        bad = rng.choice(["Id_9"] + ([sh.ms[0][0]] if form == "agg" else []))
        good = rng.sample(ids, rng.randrange(0, len(ids) + 1))
        names = good + [bad] if rng.random() < 0.5 else [bad] + good
        g = [rng.choice(["by", "except"]), names]
        want_having = False
    if want_having and g[0] == "none":
        g = ["by", rng.sample(ids, rng.randrange(1, len(ids) + 1))] if ids else g
        if g[0] == "none":
            want_having = False
    all_num = all(t in G.NUMERIC for _, t in sh.ms)
    if form == "agg":
        ops = list(OPS) if (all_num and sh.ms) else list(ANY_TYPE_OPS)
        if not sh.ms:
            ops = list(ANY_TYPE_OPS)
        op = rng.choice(ops)
        hv = None
        if want_having:
            cands = [(["col", n], t) for n, t in sh.ms] if defect else [(["col", n], t) for n, t in sh.ms[:1]]
            hv = gen_having(rng, cands)
        return {"kind": "agg", "op": op, "src": src, "grouping": g, "having": hv}
    # clause
    if not sh.ms:
        return {"kind": "clause", "src": src, "items": [["Me_9", "count", None]], "grouping": g, "having": None}
    names = ["Me_9", "Me_8", "Me_7"] + [n for n, _ in sh.ms if n not in ("Me_9", "Me_8", "Me_7")]
    names = [n for n in names if n not in ids]
    rng.shuffle(names)
    k = rng.choice([1, 2, 2, 3])
    items = []
    hv = None
    if want_having and not defect:
        # the engine evaluates the having of a clause over (identifiers + the aggregated component): every item aggregates the
        # SAME plain measure, the condition refers to it; count() items only when the operand has a single measure
        cn, ct = rng.choice(sh.ms)
        for nme in names[:k]:
            if len(sh.ms) == 1 and rng.random() < 0.2:
                items.append([nme, "count", None])
            else:
                op = rng.choice(list(OPS) if ct in G.NUMERIC else list(ANY_TYPE_OPS))
                items.append([nme, op, ["col", cn]])
        hv = gen_having(rng, [(["col", cn], ct)])
    else:
        for nme in names[:k]:
            if rng.random() < 0.15:
                items.append([nme, "count", None])
                continue
            if not want_having and sh.ids and rng.random() < 0.12:      # an aggregated identifier
                idn, idt = rng.choice(sh.ids)
                items.append([nme, rng.choice(list(OPS) if idt in G.NUMERIC else list(ANY_TYPE_OPS)), ["col", idn]])
                continue
            op = rng.choice(list(OPS))
            c = gen_comp(rng, sh.ms, (lambda t: t in G.NUMERIC) if op in NUM_OPS else (lambda t: True))
            if c is None:
                op = rng.choice(list(ANY_TYPE_OPS))
                c = gen_comp(rng, sh.ms, lambda t: True)
            items.append([nme, op, c])
        if want_having:      # defect stream: condition over another component than (some) aggregated one
            hv = gen_having(rng, [(["col", n], t) for n, t in sh.ms])
    return {"kind": "clause", "src": src, "items": items, "grouping": g, "having": hv}


def having_comps(h, acc=None):
    acc = set() if acc is None else acc
    if h is None:
        return acc
    if h[0] == "agg":
        acc.add(json.dumps(h[2]))
    elif h[0] == "bin":
        having_comps(h[2], acc)
        having_comps(h[3], acc)
    elif h[0] == "un":
        having_comps(h[2], acc)
    elif h[0] == "paren":
        having_comps(h[1], acc)
    return acc


def is_group_valued(h) -> bool:
    """the sub-condition depends on the group (contains an aggregate), i.e. the engine analyses it as a dataset"""
    if h is None or h[0] == "lit":
        return False
    if h[0] in ("agg", "count"):
        return True
    if h[0] == "bin":
        return is_group_valued(h[2]) or is_group_valued(h[3])
    return is_group_valued(h[2] if h[0] == "un" else h[1])


def combines_two_aggregates(h) -> bool:
    if h is None or h[0] in ("agg", "count", "lit"):
        return False
    if h[0] == "bin":
        return (is_group_valued(h[2]) and is_group_valued(h[3])) or combines_two_aggregates(h[2]) or combines_two_aggregates(h[3])
    return combines_two_aggregates(h[2] if h[0] == "un" else h[1])


def has_andor(h) -> bool:
    """the condition combines two group aggregates with and/or somewhere"""
    if h is None or h[0] in ("agg", "count", "lit"):
        return False
    if h[0] == "bin":
        return h[1] in ("and", "or") or has_andor(h[2]) or has_andor(h[3])
    return has_andor(h[2] if h[0] == "un" else h[1])


def unsupported_having(s, sh: G.Shape) -> Optional[str]:
    """names the engine limitation a statement runs into (None when the shape is supported)"""
    if not s.get("having"):
        return None
    g, ids = s["grouping"], [n for n, _ in sh.ids]
    left = [i for i in ids if (g[0] == "by" and i in g[1]) or (g[0] == "except" and i not in g[1])]
    h = s["having"]
    andor = "and-or-of-two-aggregates-with-no-identifier-left" if (not left and has_andor(h)) else None
    if s["kind"] == "agg":
        return "standalone:operand-with-several-measures" if len(sh.ms) != 1 else andor
    comps = having_comps(s["having"])
    for n, op, c in s["items"]:      # the engine checks the items in order; the first unsupported one decides
        if c is None:
            if len(sh.ms) != 1:
                return "clause:count()-item-and-operand-with-several-measures"
        elif any(json.loads(x) != c and json.loads(x)[0] == "col" for x in comps):
            return "clause:condition-on-another-component-than-the-aggregated-one"
    return andor


def engine_limitation(s, sh: G.Shape) -> Optional[str]:
    """names the known engine limitation a statement runs into (None when the shape is supported); the label starts the key of
    the finding"""
    if s["kind"] in ("agg", "clause"):
        u = unsupported_having(s, sh)
        return ("having:" + u) if u else None
    return None


def make_case(rng, tier, stream="main"):
    """stream: 'main' | 'defect' (expected-error stream: min/max over an operand without measures and without grouping identifier,
    which the engine failed on inside DuckDB before its fix and now rejects with 1-1-1-8, like the model).  Half of the having clauses of the main stream are 'free' (operands with several measures, conditions
    over other components than the aggregated ones, and/or with no identifier left): shapes the engine rejected before its
    having fix; `limitation` keeps their label so that a regression gets a specific key."""
    for _ in range(30):
        form = rng.choice(["agg", "agg", "clause", "clause", "clause"])
        want_having = stream == "main" and rng.random() < 0.4
        free = want_having and rng.random() < 0.5
        andor_noid = free and rng.random() < 0.2
        minmax_nomeasure = stream == "defect"
        first_op = rng.choice(list(OPS))
        if first_op in NUM_OPS or rng.random() < 0.4:
            mtypes = ["Integer", "Number"]
        else:
            mtypes = list(G.BASIC)
        nm = None
        if andor_noid:
            nm = 1
        elif free:
            nm = rng.choice([2, 3])
        elif want_having and form == "agg":
            nm = 1
        d = gen_dataset(rng, tier, mtypes, nm)
        if (stream == "main" and not want_having and rng.random() < 0.04) or minmax_nomeasure:
            d["shape"] = G.Shape(d["shape"].ids, [])       # no measures: count / min / max only
            d["rows"] = [(k, []) for k, _ in d["rows"]]
        dss = {"DS_1": d}
        structs, dps = G.inputs_engine(dss)
        stmts: List[Tuple[str, Dict[str, Any]]] = []
        src, sh = "DS_1", d["shape"]
        chain = stream == "main" and not free and rng.random() < 0.18
        if chain:
            kind = rng.choice(["filter", "agg", "clause"])
            if kind == "filter" and sh.ms:
                n, t = rng.choice(sh.ms)
                if t in G.NUMERIC:
                    cond = ["bin", rng.choice([">", "<=", "<>"]), ["col", n], ["lit", "Integer", rng.choice([0, 1, 2])]]
                else:
                    cond = ["un", "isnull", ["col", n]]
                s1 = {"kind": "filter", "src": "DS_1", "cond": cond}
            elif kind == "agg":
                ids = [n for n, _ in sh.ids]
                g = rng.choice([["by", rng.sample(ids, rng.randrange(1, len(ids) + 1))], ["none", []], ["except", rng.sample(ids, 1)]])
                ok_ops = [o for o in EXACT_OPS if o in ANY_TYPE_OPS or (sh.ms and all(t in G.NUMERIC for _, t in sh.ms))]
                s1 = {"kind": "agg", "op": rng.choice(ok_ops), "src": "DS_1", "grouping": g, "having": None}
            else:
                s1 = gen_main(rng, "DS_1", sh, "clause", False)
                if s1 is None or any(op not in EXACT_OPS for _, op, _ in s1["items"]):
                    continue
            if engine_limitation(s1, sh) is not None:
                continue
            sh1 = G.shape_of(stmt_vtl(s1), structs)
            if sh1 is None:
                continue
            stmts.append(("T_1", s1))
            src, sh = "T_1", sh1
            if want_having and form == "agg" and len(sh.ms) != 1:
                want_having = False
        if minmax_nomeasure:
            ids_all = [n for n, _ in sh.ids]
            s = {"kind": "agg", "op": rng.choice(["min", "max"]), "src": src,
                 "grouping": rng.choice([["none", []], ["except", ids_all]]), "having": None}
        else:
            s = gen_main(rng, src, sh, form, want_having, defect=(free and not andor_noid) or None)
        if s is None:
            continue
        if andor_noid and not s.get("having"):
            continue
        if andor_noid:       # no identifier left + a condition combining two aggregates
            s["grouping"] = ["except", [n for n, _ in sh.ids]]
            if not has_andor(s["having"]):
                s["having"] = ["bin", rng.choice(["and", "or"]), s["having"], gen_having(rng, [(["col", sh.ms[0][0]], sh.ms[0][1])])]
                if s["having"][3][0] == "bin" and s["having"][3][1] in ("and", "or"):
                    s["having"][3] = s["having"][3][2]
        lim = engine_limitation(s, sh)
        stmts.append(("DS_r", s))
        return {"dss": dss, "structs": structs, "dps": dps, "stmts": stmts, "stream": stream, "limitation": lim,
                "src_shape": sh, "null_groups": d["null_groups"]}
    return None


# ------------------------------------------------------------------ JSON
def _jv(x):
    return str(x) if isinstance(x, Fraction) else x


def case_json(c):
    return {"stmts": [[n, s] for n, s in c["stmts"]], "stream": c.get("stream", "main"),
            "inputs": {n: {"ids": d["shape"].ids, "ms": d["shape"].ms, "rows": [[k, [_jv(x) for x in m]] for k, m in d["rows"]]}
                       for n, d in c["dss"].items()}}


def case_from_json(j):
    dss = {}
    for n, d in j["inputs"].items():
        ms = [tuple(x) for x in d["ms"]]
        rows = [(list(k), [Fraction(x) if (t == "Number" and x is not None) else x for x, (_, t) in zip(m, ms)]) for k, m in d["rows"]]
        dss[n] = {"shape": G.Shape([tuple(x) for x in d["ids"]], ms), "rows": rows, "null_groups": 0}
    structs, dps = G.inputs_engine(dss)
    stmts = [(n, s) for n, s in j["stmts"]]
    sh = dss["DS_1"]["shape"]
    if len(stmts) > 1:
        sh = G.shape_of(stmt_vtl(stmts[0][1]), structs) or sh
    lim = engine_limitation(stmts[-1][1], sh)
    if len(stmts) > 1:
        lim = engine_limitation(stmts[0][1], dss["DS_1"]["shape"]) or lim
    return {"dss": dss, "structs": structs, "dps": dps, "stmts": stmts, "stream": j.get("stream", "main"),
            "limitation": lim, "src_shape": sh, "null_groups": 0}


# ------------------------------------------------------------------ running both sides
def _raw(v):
    import decimal
    import numpy as np
    import pandas as pd
    if v is None:
        return None
    try:
        if v is pd.NA or v is pd.NaT:
            return None
    except Exception:
        pass
    if isinstance(v, (bool, np.bool_)):
        return bool(v)
    if isinstance(v, (int, np.integer)):
        return int(v)
    if isinstance(v, (float, np.floating)):
        return None if math.isnan(v) else float(v)
    if isinstance(v, decimal.Decimal):
        return Fraction(v)
    return v if isinstance(v, str) else str(v)


def _run_raw(payload):
    script, structs, dps = payload
    engine.install(need_parser=True)
    import copy
    import vtlengine
    try:
        res = vtlengine.run(script, copy.deepcopy(structs), {k: v.copy() for k, v in dps.items()})
    except Exception as e:  # noqa
        return {"ok": False, "err": engine.classify_error(e), "msg": str(e)[:300]}
    ds = res.get("DS_r")
    if ds is None:
        return {"ok": False, "err": ("Harness", "no-DS_r"), "msg": f"result names {list(res)}"}
    comps = [(x.name, x.role.value if hasattr(x.role, "value") else str(x.role), x.data_type.__name__) for x in ds.components.values()]
    rows = []
    if ds.data is not None:
        cols = [x[0] for x in comps]
        for rec in ds.data[cols].itertuples(index=False, name=None):
            rows.append(tuple(_raw(v) for v in rec))
    return {"ok": True, "comps": comps, "rows": rows}


def run_engine(c):
    """{'ok': True, 'comps': [(name, role, type)], 'rows': [tuple raw values]} | {'ok': False, 'err': (kind, code), 'msg'}"""
    return _run_raw((script_of(c["stmts"]), c["structs"], c["dps"]))


def _worker_init():
    engine.install(need_parser=True)


class EngineRuns:
    """the real engine on every case, in worker processes (each with its own parser child and DuckDB connections) started in the
    background so that the Coq evaluation of the model overlaps with them; falls back to this process when a pool cannot be used"""

    def __init__(self, cases, log=None):
        self.payloads = [(script_of(c["stmts"]), c["structs"], c["dps"]) for c in cases]
        self.log, self.pool, self.pending = log, None, None
        if len(cases) >= 24:
            try:
                import multiprocessing as mp
                self.pool = mp.get_context("spawn").Pool(min(10, NCPU), initializer=_worker_init)
                self.pending = self.pool.map_async(_run_raw, self.payloads, chunksize=4)
            except Exception as e:  # noqa
                self._fallback(e)

    def _fallback(self, e):
        if self.log:
            self.log("worker pool unavailable, running the engine in this process:", repr(e)[:200])
        if self.pool is not None:
            try:
                self.pool.terminate()
            except Exception:
                pass
        self.pool = self.pending = None

    def get(self):
        if self.pending is not None:
            try:
                out = self.pending.get(timeout=8 * 3600)
                self.pool.close()
                self.pool.join()
                return out
            except Exception as e:  # noqa
                self._fallback(e)
        return [_run_raw(p) for p in self.payloads]


def eval_model(cases, tag):
    return coq_eval(HEADER, [f"run_ascript {G.inputs_coq({n: d for n, d in c['dss'].items()})} {coq_of(c['stmts'])} \"DS_r\"" for c in cases], tag,
                    shard=max(60, min(200, -(-len(cases) // 5))), timeout=3600)


def _num(v) -> Optional[Fraction]:
    if isinstance(v, bool) or v is None:
        return None
    if isinstance(v, (int, float, Fraction)):
        return Fraction(v)
    if isinstance(v, str):
        try:
            return Fraction(v)
        except Exception:
            return None
    return None


def same_value(ev, mv, typ, mode, stats=None, strict=False) -> bool:
    """ev: raw engine value; mv: model/reference value (None | int | 'p/q' | Fraction | str | bool); strict: the model value must
    also be of the kind the engine's result type announces (VInt for Integer, VNum for Number)"""
    if ev is None or mv is None:
        return ev is None and mv is None
    if strict and ((typ == "Integer" and not (isinstance(mv, int) and not isinstance(mv, bool))) or
                   (typ == "Number" and not (isinstance(mv, str) and "/" in mv))):
        return False
    if typ in ("Integer", "Number"):
        e, m = _num(ev), _num(mv)
        if e is None or m is None:
            return False
        if typ == "Integer":
            return e == m
        if mode == "std":
            e = e * e
        if mode in ("exact", "avg"):
            return e.limit_denominator(10 ** 6) == m
        if e.limit_denominator(10 ** 6) == m:
            if stats is not None:
                stats["double_exact"] = stats.get("double_exact", 0) + 1
            return True
        if stats is not None:
            stats["double_tolerance"] = stats.get("double_tolerance", 0) + 1
        return abs(float(e) - float(m)) <= TOL * max(1.0, abs(float(m)))
    if typ == "Boolean":
        return isinstance(ev, bool) and isinstance(mv, bool) and ev == mv
    return isinstance(mv, str) and str(ev) == mv


def compare_rows(er, ids, ms, rows, modes, stats=None, who="model") -> Optional[str]:
    """engine result vs (ids, ms, rows-as-dicts of canonical python values)"""
    names = [x[0] for x in er["comps"]]
    types = {x[0]: x[2] for x in er["comps"]}
    eids = [x[0] for x in er["comps"] if x[1] == "Identifier"]
    if sorted(eids) != sorted(ids):
        return f"identifiers differ: engine {eids}, {who} {ids}"
    if sorted(names) != sorted(ids + ms):
        return f"components differ: engine {names}, {who} {ids + ms}"
    ek: Dict[Tuple, Tuple] = {}
    for r in er["rows"]:
        d = dict(zip(names, r))
        k = tuple(d[i] for i in eids)
        if k in ek:
            return f"engine result has two datapoints for the group {dict(zip(eids, k))}"
        ek[k] = d
    mk: Dict[Tuple, Dict] = {}
    for r in rows:
        k = tuple(r[i] for i in eids)
        if k in mk:
            return f"{who} result has two datapoints for the group {dict(zip(eids, k))}"
        mk[k] = r
    if set(ek) != set(mk):
        return (f"groups differ: only in engine {sorted(set(ek) - set(mk), key=str)[:4]}; "
                f"only in {who} {sorted(set(mk) - set(ek), key=str)[:4]}")
    for k, d in ek.items():
        for n in names:
            if n in eids:
                continue
            mode = modes.get(n, modes.get("*", "exact"))
            if not same_value(d[n], mk[k][n], types[n], mode, stats, strict=(who == "model")):
                return (f"group {dict(zip(eids, k))} component {n} ({types[n]}, {mode}): engine {d[n]!r}"
                        f"{' (squared %r)' % (d[n] * d[n]) if mode == 'std' and isinstance(d[n], float) else ''}, {who} {mk[k][n]!r}")
    return None


def model_rows(parsed):
    m = exprk.model_result(parsed, None)
    if m[0] == "err":
        return m
    _, ids, ms, rows = m
    return ("ok", ids, ms, [{n: V.from_val(v) for n, v in r.items()} for r in rows])


def compare(er, parsed, modes, stats=None) -> Optional[str]:
    m = model_rows(parsed)
    if not er["ok"]:
        kind, code = er["err"]
        if m[0] == "err" and m[1] == code:
            return None
        return f"engine raises {kind} {code} ({er['msg'][:140]}); model gives {('Err ' + str(m[1])) if m[0] == 'err' else 'a dataset with %d datapoints' % len(m[3])}"
    if m[0] == "err":
        return f"engine returns a dataset ({len(er['rows'])} datapoints); model gives Err {m[1]}"
    return compare_rows(er, m[1], m[2], m[3], modes, stats)


# ------------------------------------------------------------------ independent reference (the property predicate, exact Fractions)
def _cev(e, env):
    k = e[0]
    if k == "col":
        return env[e[1]]
    if k == "lit":
        v = e[2]
        return Fraction(v) if (e[1] == "Number" and v is not None) else v
    if k == "nvl":
        a = _cev(e[1], env)
        return _cev(e[2], env) if a is None else a
    if k == "un":
        a = _cev(e[2], env)
        if e[1] == "isnull":
            return a is None
        return None if a is None else abs(a)
    a, b = _cev(e[2], env), _cev(e[3], env)
    if e[1] in ("and", "or"):
        if e[1] == "and":
            return False if (a is False or b is False) else (None if (a is None or b is None) else True)
        return True if (a is True or b is True) else (None if (a is None or b is None) else False)
    if a is None or b is None:
        return None
    return {"+": lambda: a + b, "-": lambda: a - b, "*": lambda: a * b, "=": lambda: a == b, "<>": lambda: a != b,
            ">": lambda: a > b, ">=": lambda: a >= b, "<": lambda: a < b, "<=": lambda: a <= b}[e[1]]()


def ref_agg(op, vals):
    """VTL aggregate of a list of python values, nulls ignored; variance for the stddev operators"""
    nn = [v for v in vals if v is not None]
    if op == "count":
        return len(nn) or None
    if not nn:
        return None
    if op == "min":
        return min(nn)
    if op == "max":
        return max(nn)
    if op == "sum":
        return sum(nn)
    xs = [Fraction(v) for v in nn]
    n = len(xs)
    if op == "avg":
        return sum(xs) / n
    if op == "median":
        s = sorted(xs)
        return s[n // 2] if n % 2 else (s[n // 2 - 1] + s[n // 2]) / 2
    mean = sum(xs) / n
    dev = sum((x - mean) ** 2 for x in xs)
    if op in ("var_pop", "stddev_pop"):
        return dev / n
    return dev / (n - 1) if n > 1 else None


def _hev(h, grp, names_ms):
    k = h[0]
    if k == "agg":
        return ref_agg(h[1], [_cev(h[2], r) for r in grp])
    if k == "count":
        return (len(grp) if not names_ms else sum(1 for r in grp if any(r[n] is not None for n in names_ms))) or None
    if k == "lit":
        return Fraction(h[2]) if (h[1] == "Number" and h[2] is not None) else h[2]
    if k == "paren":
        return _hev(h[1], grp, names_ms)
    if k == "un":
        v = _hev(h[2], grp, names_ms)
        if h[1] == "isnull":
            return v is None
        return None if v is None else (not v)
    return _cev(["bin", h[1], ["lit", "x", _hev(h[2], grp, names_ms)], ["lit", "x", _hev(h[3], grp, names_ms)]], {})


def ref_eval(s, ids: List[str], ms: List[str], rows: List[Dict[str, Any]]):
    """the property read directly: one datapoint per distinct group, measures = aggregates of the group's values, having keeps the
    groups whose condition is TRUE -> (ids, ms, rows)"""
    g = s["grouping"]
    gids = [i for i in ids if (g[0] == "by" and i in g[1]) or (g[0] == "except" and i not in g[1])]
    groups: Dict[Tuple, List[Dict]] = {}
    for r in rows:
        groups.setdefault(tuple(r[i] for i in gids), []).append(r)
    if not gids and not rows and (s["kind"] == "clause" or not ids):
        groups[()] = []
    out_ms = ["int_var"] if (s["kind"] == "agg" and s["op"] == "count") else ms if s["kind"] == "agg" else [n for n, _, _ in s["items"]]
    out = []
    for k, grp in groups.items():
        if s.get("having") and _hev(s["having"], grp, ms) is not True:
            continue
        d = dict(zip(gids, k))
        if s["kind"] == "agg":
            if s["op"] == "count":
                n = sum(1 for r in grp if all(r[m] is not None for m in ms))
                d["int_var"] = n if not gids else (n or None)
            else:
                for m in ms:
                    d[m] = ref_agg(s["op"], [r[m] for r in grp])
        else:
            for n, op, c in s["items"]:
                d[n] = _hev(["count"], grp, ms) if c is None else ref_agg(op, [_cev(c, r) for r in grp])
        out.append(d)
    return gids, out_ms, out


def reference_verdict(c, er) -> Optional[str]:
    """None = the engine output satisfies the property predicate (reference); else what it violates. Single-statement cases only."""
    if len(c["stmts"]) != 1:
        return "unclassified (two statements)"
    s = c["stmts"][0][1]
    d = c["dss"]["DS_1"]
    ids, ms = [n for n, _ in d["shape"].ids], [n for n, _ in d["shape"].ms]
    rows = [dict(zip(ids + ms, list(k) + list(m))) for k, m in d["rows"]]
    gids, out_ms, out = ref_eval(s, ids, ms, rows)
    if s["kind"] == "agg" and s["op"] in ("min", "max") and not ms and not gids:      # no component left: must be rejected
        return None if (not er["ok"] and er["err"] == ("Semantic", "1-1-1-8")) else "min/max without measures and identifiers must raise 1-1-1-8"
    if not er["ok"]:
        return f"the engine raises {er['err'][0]} {er['err'][1]} where the property demands a dataset with {len(out)} datapoints"
    return compare_rows(er, gids, out_ms, out, modes_of(s), None, who="reference")


# ------------------------------------------------------------------ shrinking
def _with_rows(c, rows):
    cand = dict(c)
    cand["dss"] = {"DS_1": dict(c["dss"]["DS_1"])}
    cand["dss"]["DS_1"]["rows"] = rows
    cand["structs"], cand["dps"] = G.inputs_engine(cand["dss"])
    return cand


def shrink(c, still_bad, budget=40):
    cur = c
    s = cur["stmts"][-1][1]
    # simplify the statement: drop items, drop one side of a compound having
    if s["kind"] == "clause":
        for i in range(len(s["items"]) - 1, -1, -1):
            if len(cur["stmts"][-1][1]["items"]) > 1 and budget > 0:
                s2 = dict(cur["stmts"][-1][1])
                s2["items"] = [x for j, x in enumerate(s2["items"]) if j != i]
                cand = dict(cur)
                cand["stmts"] = cur["stmts"][:-1] + [("DS_r", s2)]
                budget -= 1
                if still_bad(cand):
                    cur = cand
    h = cur["stmts"][-1][1].get("having")
    while h and h[0] in ("paren", "un") and budget > 0:      # strip an outer (…) / not / isnull while the disagreement persists
        s2 = dict(cur["stmts"][-1][1])
        s2["having"] = h[1] if h[0] == "paren" else h[2]
        if s2["having"][0] in ("agg", "count", "lit"):
            break
        cand = dict(cur)
        cand["stmts"] = cur["stmts"][:-1] + [("DS_r", s2)]
        budget -= 1
        if not still_bad(cand):
            break
        cur, h = cand, s2["having"]
    if h and h[0] == "bin" and h[1] in ("and", "or"):
        for side in (2, 3):
            s2 = dict(cur["stmts"][-1][1])
            s2["having"] = h[side]
            cand = dict(cur)
            cand["stmts"] = cur["stmts"][:-1] + [("DS_r", s2)]
            budget -= 1
            if budget > 0 and still_bad(cand):
                cur = cand
                break
    # halve, then drop single datapoints
    rows = cur["dss"]["DS_1"]["rows"]
    while len(rows) > 4 and budget > 0:
        half = len(rows) // 2
        done = False
        for part in (rows[:half], rows[half:]):
            budget -= 1
            cand = _with_rows(cur, part)
            if still_bad(cand):
                cur, rows, done = cand, part, True
                break
        if not done:
            break
    i = 0
    while i < len(rows) and budget > 0:
        budget -= 1
        cand = _with_rows(cur, rows[:i] + rows[i + 1:])
        if still_bad(cand):
            cur, rows = cand, cand["dss"]["DS_1"]["rows"]
        else:
            i += 1
    return cur


# ------------------------------------------------------------------ the K run
def _ops_of(s):
    out = []
    if s["kind"] == "agg":
        out.append(s["op"])
    elif s["kind"] == "clause":
        out += [("count()" if c is None else op) for _, op, c in s["items"]]

    def walk(h):
        if h is None:
            return
        if h[0] == "agg":
            out.append("having:" + h[1])
        elif h[0] == "count":
            out.append("having:count()")
        elif h[0] == "bin":
            walk(h[2])
            walk(h[3])
        elif h[0] == "un":
            out.append("having:" + h[1])
            walk(h[2])
        elif h[0] == "paren":
            out.append("having:(…)")
            walk(h[1])
    walk(s.get("having"))
    return out


def group_sizes(c):
    """sizes of the groups of the main statement's operand (single-statement cases: computed on the input)"""
    s = c["stmts"][-1][1]
    if len(c["stmts"]) != 1:
        return []
    d = c["dss"]["DS_1"]
    ids = [n for n, _ in d["shape"].ids]
    g = s["grouping"]
    pos = [i for i, n in enumerate(ids) if (g[0] == "by" and n in g[1]) or (g[0] == "except" and n not in g[1])]
    cnt: Dict[Tuple, int] = {}
    for k, _ in d["rows"]:
        kk = tuple(k[i] for i in pos)
        cnt[kk] = cnt.get(kk, 0) + 1
    return list(cnt.values())


def bucket(n, edges=((0, 0, "0"), (1, 1, "1"), (2, 3, "2-3"), (4, 10, "4-10"), (11, 30, "11-30"), (31, 100, "31-100"), (101, 10 ** 9, "101-200"))):
    for lo, hi, name in edges:
        if lo <= n <= hi:
            return name
    return "?"


def disagreement_key(c, er, verdict_engine_bad: bool) -> str:
    s = c["stmts"][-1][1]
    form = "standalone" if s["kind"] == "agg" else "clause"
    if (not er["ok"] and er["err"][1] == "1-1-14-1" and combines_two_aggregates(s.get("having"))):
        # the having analysis names the per-group values like dataset measures (Me_1 / int_var / bool_var) and refuses to combine
        # two of them when the names differ
        return "having:combines-two-aggregates:measure-names-dont-match"
    if c.get("limitation"):
        # the error class/code is NOT part of the key (it changes when the engine wraps raw errors); it is reported in `what`
        return f"{c['limitation']}:{'engine-error' if not er['ok'] else 'wrong-result'}"
    ops = "+".join(sorted(set(_ops_of(s))))[:60]
    if not er["ok"]:
        return f"engine-error:{er['err'][0]}-{er['err'][1]}:{form}:{ops}"
    return f"{'wrong-result' if verdict_engine_bad else 'model-differs'}:{form}:{ops}:{s['grouping'][0]}{':having' if s.get('having') else ''}"


def run_k(ctx, n_main, n_defect, tag="c03"):
    engine.install(need_parser=True)
    cdir = CORPUS / "C03"
    cases = []
    if cdir.exists():
        for p in sorted(cdir.glob("*.json")):
            cases.append(case_from_json(json.loads(p.read_text())))
    n_corpus = len(cases)
    tries = 0
    while len(cases) < n_corpus + n_main and tries < 20 * n_main + 100:
        tries += 1
        c = make_case(ctx.rng, ctx.tier, "main")
        if c:
            cases.append(c)
    while len(cases) < n_corpus + n_main + n_defect and tries < 20 * (n_main + n_defect) + 200:
        tries += 1
        c = make_case(ctx.rng, ctx.tier, "defect")
        if c:
            cases.append(c)
    ctx.log(f"K: {n_corpus} corpus + {len(cases) - n_corpus} generated cases; engine runs started, evaluating the model in Coq")
    runs = EngineRuns(cases, ctx.log)
    model = eval_model(cases, tag)
    ctx.log("K: model evaluated; waiting for the engine runs")
    engine_results = runs.get()
    ctx.log("K: comparing")
    hist: Dict[str, Dict[str, int]] = {k: {} for k in ("operators", "forms", "grouping", "having", "having_shape", "group_sizes", "input_rows",
                                                       "measure_types", "engine_errors", "result_datapoints")}

    def note(h, k, n=1):
        hist[h][k] = hist[h].get(k, 0) + n
    stats: Dict[str, int] = {}
    dis = 0
    shrunk = 0
    for c, m, er in zip(cases, model, engine_results):
        s = c["stmts"][-1][1]
        modes = modes_of(s)
        c0_ids = c["src_shape"].ids
        for o in _ops_of(s):
            note("operators", o)
        note("forms", ("standalone" if s["kind"] == "agg" else "clause") + ("+chain" if len(c["stmts"]) > 1 else "") +
             (":expected-error-stream" if c["stream"] == "defect" else ""))
        if s.get("having"):
            note("having_shape", (c.get("limitation") or "one-measure operand, condition on the aggregated component").replace("having:", ""))
        note("grouping", grouping_label(s["grouping"], [n for n, _ in c["src_shape"].ids]))
        h = s.get("having")
        note("having", "none" if not h else (h[1] if h[0] == "bin" and h[1] in ("and", "or") else
                                             "not" if h[0] == "un" and h[1] == "not" else "(…)" if h[0] == "paren" else "atom"))
        if s["kind"] == "clause" and any(c is not None and c[0] == "col" and c[1] in [n for n, _ in c0_ids] for _, _, c in s["items"]):
            note("forms", "clause item aggregating an identifier")
        for z in group_sizes(c):
            note("group_sizes", bucket(z))
        note("input_rows", bucket(len(c["dss"]["DS_1"]["rows"])))
        for _, t in c["dss"]["DS_1"]["shape"].ms:
            note("measure_types", t)
        if c["null_groups"]:
            note("input_rows", "with-all-null-group")
        if er["ok"]:
            note("result_datapoints", bucket(len(er["rows"])))
        else:
            note("engine_errors", f"{er['err'][0]}:{er['err'][1]}")
        cj = case_json(c)
        ctx.count(hashlib.sha1(json.dumps(cj, sort_keys=True, default=str).encode()).hexdigest())
        if len(ctx.cov["samples"]) < 6 and len(c["dss"]["DS_1"]["rows"]) <= 8:
            ctx.sample({"script": script_of(c["stmts"]), "inputs": cj["inputs"],
                        "engine": [list(map(str, r)) for r in er["rows"][:5]] if er["ok"] else str(er["err"])})
        d = compare(er, m, modes, stats)
        if d is None:
            continue
        dis += 1
        verdict = reference_verdict(c, er)
        engine_bad = verdict is not None
        key = disagreement_key(c, er, engine_bad)
        if ctx._known_key(key) is None and shrunk < 3:
            shrunk += 1

            def still_bad(cc, engine_bad=engine_bad):
                if engine_bad:      # the engine violates the reference predicate: no Coq needed while shrinking
                    return reference_verdict(cc, run_engine(cc)) is not None
                return compare(run_engine(cc), eval_model([cc], tag + "_shr")[0], modes_of(cc["stmts"][-1][1])) is not None
            try:
                c = shrink(c, still_bad)
                er = run_engine(c)
                d = compare(er, eval_model([c], tag + "_shr")[0], modes_of(c["stmts"][-1][1])) or d
                verdict = reference_verdict(c, er)
                engine_bad = verdict is not None
            except Exception as e:  # noqa
                ctx.log("shrinking failed:", repr(e)[:200])
            cdir.mkdir(parents=True, exist_ok=True)
            cjs = json.dumps(case_json(c), sort_keys=True, default=str)
            (cdir / (hashlib.sha1(cjs.encode()).hexdigest()[:10] + ".json")).write_text(cjs)
        what = f"{script_of(c['stmts']).strip()} :: {d}" + (f" :: property predicate on the engine output: {verdict}" if verdict else
                                                            " :: the engine output satisfies the reference predicate (the MODEL differs)")
        if not engine_bad:
            ctx.oblige("K: Model/Aggr.v agrees with the engine wherever the engine satisfies the reference predicate", False, what)
        ctx.violation(key, what, {"case": case_json(c), "disagreement": d, "reference_verdict": verdict}, found_input=engine_bad)
    ctx.cov["distribution"] = {k: dict(sorted(v.items(), key=lambda x: -x[1])) for k, v in hist.items()}
    ctx.cov["distribution"].update({"corpus": n_corpus, "generated_main": n_main, "generated_expected_error_stream": n_defect,
                                    "double_valued_comparisons": stats})
    ctx.cov["disagreements"] = dis
    return dis


def replay_case(obj):
    c = case_from_json(obj["case"])
    er = run_engine(c)
    m = eval_model([c], "c03_replay")[0]
    d = compare(er, m, modes_of(c["stmts"][-1][1]))
    print("script:", script_of(c["stmts"]))
    print("input :", case_json(c)["inputs"])
    print("engine:", (er["comps"], er["rows"]) if er["ok"] else (er["err"], er["msg"]))
    print("model :", model_rows(m))
    print("reference predicate on the engine output:", reference_verdict(c, er) or "satisfied")
    print("verdict:", "agree" if d is None else d)
    return 0 if d is None else 1
