"""Shared machinery of C12 / C13 (tie T-dag): script generators realising dependency shapes, a pool of worker processes
driving the REAL engine (create_ast / DAGAnalyzer / run with the guarded event hooks), and the rendering of the same cases as
Gallina terms for Model/Dag.v and Model/Sched.v.

Names (datasets, scalars, components) are numbered per case; statements are (out, inputs, persistent[, unknown])."""
from __future__ import annotations

import itertools
import json
import os
import random
import sys
from concurrent.futures import ProcessPoolExecutor
from fractions import Fraction
from pathlib import Path
from typing import Any, Dict, List, Optional, Sequence, Tuple

import multiprocessing as mp

COQ_HEADER = """From Coq Require Import List Bool Arith.
Import ListNotations.
From VTL Require Import Model.Dag Model.Sched.
Definition mk (l : list (nat * list nat * bool)) : list stmt := map (fun t => Stmt (fst (fst t)) (snd (fst t)) (snd t)) l.
Definition mkr (l : list (nat * list nat * bool * list nat)) : list rstmt :=
  map (fun t => RStmt (fst (fst (fst t))) (snd (fst (fst t))) (snd (fst t)) (snd t)) l.
Definition dag_case (raw : list (nat * list nat * bool * list nat)) (eng : list (nat * list nat * bool)) (sorting : list nat) :=
  let rs := mkr raw in let ss := mk eng in
  (map s_deps (promote_impl rs), unk_left_impl rs, edges_of ss,
   (is_topo_order sorting ss, outcome_impl ss, outcome_spec ss, outcome_impl (promote_impl rs)),
   schedule_of (select ss sorting)).
Definition ev_code (e : event) : nat * nat * nat :=
  match e with Load n => (0, n, 0) | Exec k n => (1, n, k) | Release n => (2, n, 0) | Fetch n => (3, n, 0) end.
Definition mkev (t : nat * nat * nat) : event :=
  match t with (0, n, _) => Load n | (1, n, k) => Exec k n | (2, n, _) => Release n | (_, n, _) => Fetch n end.
Definition trace_case (s1 : list (nat * list nat * bool)) (sorting2 : list nat) (tab : list nat) (rop : bool)
                      (real : list (nat * nat * nat)) :=
  let all := select (mk s1) sorting2 in
  (is_topo_order sorting2 (mk s1) && topo_sortedb all && negb (redefinition_detected all),
   map ev_code (replay all (fun x => memb x tab) rop),
   returned all (fun x => memb x tab) rop,
   safe_historyb all (fun x => memb x tab) [] (map mkev real),
   store_of (map mkev real) []).
"""


# ------------------------------------------------------------------------------------------------ Coq rendering
def q_nat(n: int) -> str:
    return str(int(n))


def q_list(xs: Sequence[str]) -> str:
    return "[" + "; ".join(xs) + "]"


def q_nats(xs: Sequence[int]) -> str:
    return q_list([q_nat(x) for x in xs])


def q_bool(b: bool) -> str:
    return "true" if b else "false"


def q_stmts(ss: Sequence[Tuple[int, Sequence[int], bool]]) -> str:
    return q_list([f"({q_nat(o)}, {q_nats(d)}, {q_bool(p)})" for o, d, p in ss])


def q_rstmts(rs: Sequence[Tuple[int, Sequence[int], bool, Sequence[int]]]) -> str:
    return q_list([f"({q_nat(o)}, {q_nats(d)}, {q_bool(p)}, {q_nats(u)})" for o, d, p, u in rs])


def q_triples(ts: Sequence[Tuple[int, int, int]]) -> str:
    return q_list([f"({a}, {b}, {c})" for a, b, c in ts])


class Names:
    """name <-> small natural number, per case"""

    def __init__(self):
        self.ids: Dict[str, int] = {}
        self.rev: List[str] = []

    def __call__(self, s: str) -> int:
        if s not in self.ids:
            self.ids[s] = len(self.rev)
            self.rev.append(s)
        return self.ids[s]

    def many(self, xs) -> List[int]:
        return [self(x) for x in xs]


# ------------------------------------------------------------------------------------------------ generated scripts
# A generated statement: dict(out, pers, kind 'ds'|'sc', ops [dataset/scalar names added at top level, in order],
#                             clause (scalar name used inside a calc clause on the first operand) | None, const int)
COMP_ID, COMP_ME = "Id_1", "Me_1"
IDS = [1, 2, 3]


def stmt_text(st: Dict[str, Any]) -> str:
    arrow = "<-" if st["pers"] else ":="
    if st.get("text") is not None:   # literal right-hand side (statement forms outside the arithmetic mini language)
        return f"{st['out']} {arrow} {st['text']};"
    if st["kind"] == "sc":
        rhs = " + ".join(list(st["ops"]) + [str(st["const"])])
        return f"{st['out']} {arrow} {rhs};"
    ops = list(st["ops"])
    first = ops[0]
    if st.get("clause"):
        first = f"{first}[calc {COMP_ME} := {COMP_ME} + {st['clause']}]"
    elif st.get("clause_plain"):
        first = f"{first}[calc {COMP_ME} := {COMP_ME} + {st['const']}]"
    rhs = " + ".join([first] + ops[1:])
    if st["const"] and not st.get("clause_plain"):
        rhs += f" + {st['const']}"
    return f"{st['out']} {arrow} {rhs};"


def script_text(stmts: Sequence[Dict[str, Any]]) -> str:
    """definitions (operators, rulesets) needed by the statements first, in a fixed order, then the statements as given"""
    heads = sorted({s["head"] for s in stmts if s.get("head")})
    return "\n".join(heads + [stmt_text(s) for s in stmts])


def expected_raw(st: Dict[str, Any]) -> Tuple[str, List[str], bool, List[str]]:
    """What DAGAnalyzer's visitor collects for the statement (before the cross-statement promotion)."""
    if st.get("raw") is not None:
        return st["out"], list(st["raw"][0]), bool(st["pers"]), list(st["raw"][1])
    inputs: List[str] = []
    unk: List[str] = []
    ops = list(st["ops"])
    if st["kind"] == "ds":
        inputs.append(ops[0])
        if st.get("clause"):
            unk += [COMP_ME, st["clause"]]
        elif st.get("clause_plain"):
            unk += [COMP_ME]
        rest = ops[1:]
    else:
        rest = ops
    for o in rest:
        if o not in inputs:
            inputs.append(o)
    if not st["pers"]:  # statement_structure drops inputs equal to the := output
        inputs = [i for i in inputs if i != st["out"]]
    seen = []
    for u in unk:
        if u not in seen:
            seen.append(u)
    return st["out"], inputs, bool(st["pers"]), seen


def eval_script(stmts: Sequence[Dict[str, Any]], order: Sequence[int], inputs: Dict[str, Dict[int, Fraction]]):
    """Reference semantics of the generated language, computed from the full script by name (sum of operands per identifier;
    scalars are plain numbers).  `order` is ignored: every value is the one its defining statement denotes."""
    env: Dict[str, Any] = dict(inputs)
    by_out = {st["out"]: st for st in stmts}

    def val_of(name: str, depth: int = 0):
        if name in env:
            return env[name]
        if depth > 50:
            raise ValueError("cyclic script has no reference value")
        st = by_out[name]
        if st["kind"] == "sc":
            v = Fraction(st["const"])
            for o in st["ops"]:
                v += val_of(o, depth + 1)
            env[name] = v
            return v
        acc: Optional[Dict[int, Fraction]] = None
        add = Fraction(0)
        for j, o in enumerate(st["ops"]):
            val = val_of(o, depth + 1)
            if isinstance(val, dict):
                cur = dict(val)
                if j == 0 and st.get("clause"):
                    sc = val_of(st["clause"], depth + 1)
                    cur = {k: v + sc for k, v in cur.items()}
                if j == 0 and st.get("clause_plain"):
                    cur = {k: v + st["const"] for k, v in cur.items()}
                acc = cur if acc is None else {k: acc[k] + cur[k] for k in acc if k in cur}
            else:
                add += val
        if st["const"] and not st.get("clause_plain"):
            add += st["const"]
        env[name] = {k: v + add for k, v in acc.items()}
        return env[name]

    for st in stmts:
        val_of(st["out"])
    return env


def input_values(names: Sequence[str]) -> Dict[str, Dict[int, Fraction]]:
    return {n: {i: Fraction(10 ** (k + 1) * 1 + i) for i in IDS} for k, n in enumerate(names)}


def measure_of(name: str) -> str:
    """inputs IN_k all have the measure Me_1 (so that they can be added); inputs JN_k have the measure Me_k (so that they can be joined)"""
    return f"Me_{name[3:]}" if name.startswith("JN_") else COMP_ME


def structures_for(names: Sequence[str]):
    import engine
    return engine.structures(*[engine.ds_struct(n, [(COMP_ID, "Integer", "Identifier", False), (measure_of(n), "Number", "Measure", True)])
                               for n in names])


def data_spec(names: Sequence[str]) -> Dict[str, Dict[str, list]]:
    vals = input_values(names)
    return {n: {COMP_ID: list(IDS), measure_of(n): [float(vals[n][i]) for i in IDS]} for n in names}


def shape_statements(n: int, dep_mask: Sequence[int], in_sets: Sequence[Sequence[int]], pers_mask: int,
                     consts: Optional[Sequence[int]] = None) -> List[Dict[str, Any]]:
    """n dataset statements S1..Sn in a canonical topological order: statement i reads the earlier statements of
    dep_mask[i] (bit j = reads S(j+1), j < i) and the global inputs in_sets[i]."""
    out = []
    for i in range(n):
        ops = [f"DS_{j + 1}" for j in range(i) if dep_mask[i] >> j & 1] + [f"IN_{k + 1}" for k in in_sets[i]]
        out.append({"out": f"DS_{i + 1}", "pers": bool(pers_mask >> i & 1), "kind": "ds", "ops": ops,
                    "clause": None, "const": (consts[i] if consts else i + 1)})
    return out


def all_dep_masks(n: int):
    """every upper-triangular dependency pattern of n statements"""
    ranges = [range(1 << i) for i in range(n)]
    return itertools.product(*ranges)


def random_in_sets(rng: random.Random, n: int, dep_mask: Sequence[int], m: int) -> List[List[int]]:
    sets = []
    for i in range(n):
        ks = [k for k in range(m) if rng.random() < 0.45]
        if not ks and not dep_mask[i]:
            ks = [rng.randrange(m)] if m else []
        rng.shuffle(ks)
        sets.append(ks)
    return sets


def decorate(rng: random.Random, stmts: List[Dict[str, Any]], p_scalar: float = 0.5) -> List[Dict[str, Any]]:
    """Adds scalar statements and clause / top-level uses of them (unknown-variable promotion), keeps the script valid."""
    stmts = [dict(s) for s in stmts]
    n_sc = rng.choice([0, 1, 1, 2]) if rng.random() < p_scalar else 0
    scalars = []
    for j in range(n_sc):
        ops = [rng.choice(scalars)] if scalars and rng.random() < 0.4 else []
        scalars.append(f"sc_{j + 1}")
        stmts.append({"out": f"sc_{j + 1}", "pers": rng.random() < 0.3, "kind": "sc", "ops": ops, "clause": None, "const": 2 + j})
    for s in stmts:
        if s["kind"] != "ds":
            continue
        if scalars and rng.random() < 0.5:
            s["clause"] = rng.choice(scalars)
        elif rng.random() < 0.2:
            s["clause_plain"] = True
        if scalars and rng.random() < 0.3:
            s["ops"] = list(s["ops"]) + [rng.choice(scalars)]
    return stmts


def valid_ds(stmts: Sequence[Dict[str, Any]]) -> bool:
    return all(s["ops"] and not s["ops"][0].startswith("sc_") for s in stmts if s["kind"] == "ds")


# ------------------------------------------------------------------------------------------------ worker side (real engine)
_CAP: List[Any] = []
_EVENTS: List[Tuple[str, Any, Any]] = []
_ready = False


def _init_worker():
    global _ready
    if _ready:
        return
    os.environ.setdefault("MEANINGFUL_DATA_VTLENGINE_VERIF", "1")
    import warnings
    warnings.filterwarnings("ignore")
    import engine
    engine.install(need_parser=True)
    import vtlengine  # noqa
    from vtlengine import _verif
    from vtlengine.AST.DAG import DAGAnalyzer
    orig = DAGAnalyzer.visit_Start

    def wrapped(self, node):   # every DAGAnalyzer instance that visits a script (create_dag, ds_structure), in call order
        if type(self) is DAGAnalyzer:
            _CAP.append(self)
        return orig(self, node)

    DAGAnalyzer.visit_Start = wrapped
    _verif.sink = lambda kind, name, k, idx: _EVENTS.append((kind, name, k)) if kind in ("load", "exec", "release", "fetch") else None
    _ready = True


def _dag_fields(dag) -> Dict[str, Any]:
    deps = []
    for k in sorted(dag.dependencies):
        d = dag.dependencies[k]
        ref = list(d.outputs) + list(d.persistent)
        deps.append({"key": k, "inputs": list(d.inputs), "name": ref[0] if ref else None, "n_ref": len(ref),
                     "pers": len(d.persistent) > 0, "unknown": list(d.unknown_variables)})
    return {"deps": deps, "vertex": {int(k): v for k, v in dag.vertex.items()},
            "edges": [list(e) for e in dag.edges.values()], "sorting": list(dag.sorting) if dag.sorting is not None else None}


def _sched_fields(s) -> Dict[str, Any]:
    return {"insertion": {int(k): list(v) for k, v in s.insertion.items()}, "deletion": {int(k): list(v) for k, v in s.deletion.items()},
            "global_inputs": list(s.global_inputs), "persistent": list(s.persistent), "all_outputs": list(s.all_outputs)}


def _err(e) -> List[Any]:
    import engine
    k, c = engine.classify_error(e)
    return [k, c, str(e)[:300]]


def obs_dag(script: str) -> Dict[str, Any]:
    """create_ast (which runs create_dag on the textual order) + ds_structure on the sorted AST"""
    from vtlengine import AST
    from vtlengine.API import create_ast
    from vtlengine.AST.DAG import DAGAnalyzer
    del _CAP[:]
    out: Dict[str, Any] = {}
    try:
        ast = create_ast(script)
        out["outcome"] = "ok"
    except Exception as e:  # noqa
        out["outcome"] = _err(e)
        ast = None
    if _CAP:
        out["dag"] = _dag_fields(_CAP[0])
    if ast is not None:
        out["sorted_names"] = [c.left.value for c in ast.children if isinstance(c, (AST.Assignment, AST.PersistentAssignment))]
        out["sched"] = _sched_fields(DAGAnalyzer.ds_structure(ast))
    return out


def obs_run(job: Dict[str, Any]) -> Dict[str, Any]:
    """real vtlengine.run with the event sink; returns the event trace, the DAG objects of the two create_dag calls, the results"""
    import engine
    import pandas as pd
    del _CAP[:]
    del _EVENTS[:]
    if "data" in job:
        dps: Any = {k: pd.DataFrame(v) for k, v in job["data"].items()}
        structs = job["structs"]
    else:
        dps = {k: Path(v) for k, v in job["dp_paths"].items()}
        structs = [Path(p) for p in job["struct_paths"]]
    kw = dict(job.get("kw", {}))
    for key in ("value_domains",):
        if key in kw:
            kw[key] = [Path(p) for p in kw[key]]
    r = engine.run_case(job["script"], structs, dps, **kw)
    out: Dict[str, Any] = {"events": [list(e) for e in _EVENTS], "dags": [_dag_fields(d) for d in _CAP]}
    if r["ok"]:
        out["ok"] = True
        out["datasets"] = {k: {"comps": v["comps"], "rows": [list(x) for x in v["rows"]]} for k, v in r["datasets"].items()}
        out["scalars"] = {k: list(v) for k, v in r["scalars"].items()}
    else:
        out["ok"] = False
        out["err"] = [r["err"][0], r["err"][1], r["msg"][:300]]
    return out


def obs_sem(job: Dict[str, Any]) -> Dict[str, Any]:
    import engine
    structs = job["structs"] if "structs" in job else [Path(p) for p in job["struct_paths"]]
    kw = dict(job.get("kw", {}))
    for key in ("value_domains",):
        if key in kw:
            kw[key] = [Path(p) for p in kw[key]]
    kw.pop("return_only_persistent", None)
    r = engine.semantic_case(job["script"], structs, **kw)
    if r["ok"]:
        return {"ok": True, "datasets": {k: [list(c) for c in v] for k, v in r["datasets"].items()}, "scalars": dict(r["scalars"])}
    return {"ok": False, "err": [r["err"][0], r["err"][1], r["msg"][:300]]}


def obs_split(path: str) -> Dict[str, Any]:
    """Top-level layout of a corpus script: text segments per top-level node, which of them are assignments."""
    from vtlengine import AST
    from vtlengine.API import create_ast
    text = Path(path).read_text()
    try:
        ast = create_ast(text)
    except Exception as e:  # noqa
        return {"path": path, "outcome": _err(e)}
    kids = sorted(ast.children, key=lambda c: (c.line_start, c.column_start))
    lines = text.split("\n")
    offs = [0]
    for ln in lines:
        offs.append(offs[-1] + len(ln) + 1)

    def off(line, col):
        return offs[line - 1] + col

    starts = [off(c.line_start, c.column_start) for c in kids]
    segs = []
    for i, c in enumerate(kids):
        end = starts[i + 1] if i + 1 < len(kids) else len(text)
        segs.append({"text": text[starts[i]:end], "assign": isinstance(c, (AST.Assignment, AST.PersistentAssignment)),
                     "name": getattr(getattr(c, "left", None), "value", None)})
    return {"path": path, "outcome": "ok", "head": text[:starts[0]] if starts else text, "segs": segs}


def _job(job: Dict[str, Any]) -> Dict[str, Any]:
    _init_worker()
    try:
        k = job["kind"]
        if k == "dag":
            return obs_dag(job["script"])
        if k == "run":
            return obs_run(job)
        if k == "sem":
            return obs_sem(job)
        if k == "split":
            return obs_split(job["path"])
        return {"harness_error": f"unknown job kind {k}"}
    except Exception as e:  # noqa - a crashing worker job must surface as a broken tie, not vanish
        import traceback
        return {"harness_error": f"{type(e).__name__}: {e}", "tb": traceback.format_exc()[-1500:]}


def _jobs(chunk: List[Dict[str, Any]]) -> List[Dict[str, Any]]:
    return [_job(j) for j in chunk]


class Pool:
    def __init__(self, workers: Optional[int] = None):
        self.n = workers or min(16, os.cpu_count() or 4)
        self.ex = ProcessPoolExecutor(max_workers=self.n, mp_context=mp.get_context("spawn"))

    def map(self, jobs: List[Dict[str, Any]], chunk: int = 0) -> List[Dict[str, Any]]:
        if not jobs:
            return []
        chunk = chunk or max(1, min(50, len(jobs) // (self.n * 4) or 1))
        chunks = [jobs[i:i + chunk] for i in range(0, len(jobs), chunk)]
        out: List[Dict[str, Any]] = []
        for res in self.ex.map(_jobs, chunks):
            out.extend(res)
        return out

    def close(self):
        self.ex.shutdown(wait=True, cancel_futures=True)


# ------------------------------------------------------------------------------------------------ traces
def normalise_trace(events: Sequence[Sequence[Any]]) -> List[Tuple[str, str, Any]]:
    """(kind, name, k) of load/exec/release/fetch; the hook reports `release x` when cleanup starts handling x and `fetch x`
    from inside it (the DROP is last): each adjacent (release x, fetch x) is rewritten to the effect order (fetch x, release x)."""
    ev = [(e[0], e[1], e[2]) for e in events if e[0] in ("load", "exec", "release", "fetch")]
    out: List[Tuple[str, str, Any]] = []
    i = 0
    while i < len(ev):
        if ev[i][0] == "release" and i + 1 < len(ev) and ev[i + 1][0] == "fetch" and ev[i + 1][1] == ev[i][1]:
            out.append(ev[i + 1])
            out.append(ev[i])
            i += 2
        else:
            out.append(ev[i])
            i += 1
    return out


EV_CODE = {"load": 0, "exec": 1, "release": 2, "fetch": 3}


def trace_predicates(trace: Sequence[Tuple[str, str, Any]], stmts: Sequence[Tuple[str, Sequence[str], bool]],
                     tabled: set, rop: bool, result_keys: Optional[Sequence[str]]) -> List[str]:
    """The property predicates of C13 evaluated directly on a real (normalised) trace; returns the list of failures.
    stmts: (out, inputs, persistent) in execution order."""
    bad: List[str] = []
    outs = [s[0] for s in stmts]
    deps = {s[0]: list(s[1]) for s in stmts}
    store: set = set()
    loads: Dict[str, int] = {}
    rels: Dict[str, int] = {}
    fetched: List[str] = []
    executed: List[str] = []
    for i, (kind, name, k) in enumerate(trace):
        if kind == "load":
            loads[name] = loads.get(name, 0) + 1
            if name in store:
                bad.append(f"load of {name} while already in the store")
            store.add(name)
        elif kind == "exec":
            if k != len(executed) + 1 or k > len(outs) or outs[k - 1] != name:
                bad.append(f"exec event ({name},{k}) is not statement {len(executed) + 1} of the sorted script")
            for d in deps.get(name, []):
                if (d in outs or d in tabled) and d not in store:
                    bad.append(f"statement {k} ({name}) executes while its input {d} is not in the store")
            executed.append(name)
            store.add(name)
        elif kind == "release":
            rels[name] = rels.get(name, 0) + 1
            later = [n for (kd, n, _) in trace[i + 1:] if kd == "exec"]
            for n in later:
                if name in deps.get(n, []):
                    bad.append(f"{name} released before its reader {n} executed")
            store.discard(name)
        elif kind == "fetch":
            if name not in store:
                bad.append(f"fetch of {name} which is not in the store")
            fetched.append(name)
    if executed != outs:
        bad.append(f"executed {executed} but the sorted script is {outs}")
    for n, c in loads.items():
        if c > 1:
            bad.append(f"{n} loaded {c} times")
    readers = {d for s in stmts for d in s[1]}
    globs = {d for d in readers if d not in outs}
    for n in set(outs) | {g for g in globs if g in tabled}:
        if rels.get(n, 0) != 1:
            bad.append(f"{n} released {rels.get(n, 0)} times")
    for n in rels:
        if n not in outs and n not in globs:
            bad.append(f"release of {n} which is neither a result nor an input")
    if store:
        bad.append(f"tables left in the store at the end: {sorted(store)}")
    want = sorted(s[0] for s in stmts if (not rop) or s[2])
    if sorted(fetched) != want:
        bad.append(f"fetched {sorted(fetched)} but the selected results are {want}")
    if len(set(fetched)) != len(fetched):
        bad.append(f"a result fetched twice: {fetched}")
    if result_keys is not None and sorted(result_keys) != want:
        bad.append(f"run() returned {sorted(result_keys)} but the selected results are {want}")
    return bad


# ------------------------------------------------------------------------------------------------ case generation
def permuted(rng: random.Random, stmts: List[Dict[str, Any]]) -> List[Dict[str, Any]]:
    s = list(stmts)
    rng.shuffle(s)
    return s


def gen_shape_cases(rng: random.Random, tier: str, max_exh_quick: int = 4, max_exh_thorough: int = 6,
                    sampled_quick: int = 300) -> List[Dict[str, Any]]:
    """Exhaustive dependency shapes (upper-triangular patterns) x persistent masks x sampled input usage x one sampled
    textual permutation; beyond the exhaustive bound of the tier, sampled shapes."""
    cases: List[Dict[str, Any]] = []
    top = max_exh_thorough if tier == "thorough" else max_exh_quick

    def add(n, dm, pm, m, tag):
        ins = random_in_sets(rng, n, dm, m)
        st = shape_statements(n, dm, ins, pm)
        cases.append({"cat": tag, "canon": st, "stmts": permuted(rng, st), "inputs": [f"IN_{k + 1}" for k in range(m)],
                      "shape": (n, tuple(dm), pm)})

    for n in range(1, top + 1):
        for dm in all_dep_masks(n):
            if n <= 3 or (tier == "thorough" and n <= 4):
                pms = list(range(1 << n))
                reps = 2 if tier == "thorough" else 1
            elif tier == "thorough":
                pms = [rng.randrange(1 << n) for _ in range(4 if n == 5 else 2)]
                reps = 1
            else:
                pms = [rng.randrange(1 << n) for _ in range(3)]
                reps = 1
            for pm in pms:
                for _ in range(reps):
                    add(n, dm, pm, rng.randint(1, 4), f"shape{n}")
    if tier != "thorough":
        for _ in range(sampled_quick):
            n = rng.choice([5, 6])
            dm = tuple(rng.randrange(1 << i) for i in range(n))
            add(n, dm, rng.randrange(1 << n), rng.randint(1, 4), f"shape{n}s")
    return cases


def gen_decorated_cases(rng: random.Random, count: int) -> List[Dict[str, Any]]:
    """scripts with scalar statements used at top level and inside calc clauses (unknown-variable promotion), duplicated
    operands, a dataset named like a component"""
    cases = []
    while len(cases) < count:
        n = rng.randint(1, 5)
        dm = tuple(rng.randrange(1 << i) for i in range(n))
        m = rng.randint(1, 4)
        st = shape_statements(n, dm, random_in_sets(rng, n, dm, m), rng.randrange(1 << n))
        st = decorate(rng, st, p_scalar=0.8)
        if rng.random() < 0.15:  # duplicated operand
            s = rng.choice([x for x in st if x["kind"] == "ds"])
            s["ops"] = list(s["ops"]) + [rng.choice(s["ops"])]
        if not valid_ds(st):
            continue
        cases.append({"cat": "decorated", "canon": st, "stmts": permuted(rng, st), "inputs": [f"IN_{k + 1}" for k in range(m)],
                      "shape": ("dec", len(st), tuple(dm))})
    return cases


def gen_graph_cases(rng: random.Random, tier: str) -> List[Dict[str, Any]]:
    """arbitrary dependency digraphs (cycles, self references) and duplicated output names, n <= 4"""
    cases = []

    def mk(n, reads, names, pers, tag):
        st = []
        for i in range(n):
            ops = [names[j] for j in reads[i]] or ["IN_1"]
            st.append({"out": names[i], "pers": pers[i], "kind": "ds", "ops": ops, "clause": None, "const": i + 1})
        cases.append({"cat": tag, "canon": st, "stmts": st, "inputs": ["IN_1"], "shape": (tag, n, tuple(tuple(r) for r in reads), tuple(names))})

    # exhaustive digraphs (with self loops) for n <= 2 (thorough: 3), sampled beyond
    for n in ([1, 2, 3] if tier == "thorough" else [1, 2]):
        for bits in range(1 << (n * n)):
            reads = [[j for j in range(n) if bits >> (i * n + j) & 1] for i in range(n)]
            mk(n, reads, [f"DS_{i + 1}" for i in range(n)], [bool((bits + i) % 3 == 0) for i in range(n)], "digraph")
    for _ in range(4000 if tier == "thorough" else 150):
        n = rng.randint(3, 4)
        reads = [[j for j in range(n) if rng.random() < 0.3] for i in range(n)]
        mk(n, reads, [f"DS_{i + 1}" for i in range(n)], [rng.random() < 0.3 for _ in range(n)], "digraph")
    for _ in range(4000 if tier == "thorough" else 150):  # duplicated names
        n = rng.randint(2, 4)
        k = rng.randint(1, n - 1) if n > 1 else 1
        names = [f"DS_{rng.randint(1, k)}" for _ in range(n)]
        pool = sorted(set(names)) + ["DS_9"]
        reads = [[j for j in range(n) if rng.random() < 0.3] for i in range(n)]
        mk(n, reads, names, [rng.random() < 0.3 for _ in range(n)], "dupnames")
    return cases


LOCAL_KINDS = ["join", "joincalc", "udo", "dpr", "calclocal", "rename", "aggr"]


def local_stmt(kind: str, out: str, L: str, pers: bool = True) -> Dict[str, Any]:
    """a statement that introduces the LOCAL name L (join alias, operator parameter, ruleset variable, clause-local component);
    `raw` = what the DAG visitor must collect for it: L itself is never a dataset read by this statement"""
    st: Dict[str, Any] = {"out": out, "pers": pers, "kind": "ds", "ops": [], "clause": None, "const": 0, "local": (kind, L)}
    if kind == "join":
        st.update(text=f"inner_join(JN_1 as {L}, JN_2 as b)", raw=(["JN_1", "JN_2"], []))
    elif kind == "joincalc":
        st.update(text=f"inner_join(JN_1 as {L}, JN_2 as b calc Me_9 := {L}#Me_1 + b#Me_2)", raw=(["JN_1", "JN_2"], []))
    elif kind == "udo":
        st.update(head=f"define operator f_{L} ({L} dataset, k integer) returns dataset is {L} * k end operator;",
                  text=f"f_{L}(JN_1, 2)", raw=(["JN_1"], []))
    elif kind == "dpr":
        st.update(head=f'define datapoint ruleset dpr_{L} (variable Me_1 as {L}) is r1: {L} > 0 errorcode "e" end datapoint ruleset;',
                  text=f"check_datapoint(JN_1, dpr_{L})", raw=(["JN_1"], []))
    elif kind == "calclocal":
        st.update(text=f"JN_1[calc {L} := Me_1 + 1][filter {L} > 0]", raw=(["JN_1"], ["Me_1", L]))
    elif kind == "rename":
        st.update(text=f"JN_1[rename Me_1 to {L}]", raw=(["JN_1"], []))
    elif kind == "aggr":
        st.update(text=f"JN_1[aggr {L} := sum(Me_1) group by Id_1]", raw=(["JN_1"], ["Me_1"]))
    else:
        raise ValueError(kind)
    return st


def plain_stmt(out: str, text: str, reads: List[str], pers: bool) -> Dict[str, Any]:
    return {"out": out, "pers": pers, "kind": "ds", "ops": [], "clause": None, "const": 0, "text": text, "raw": (reads, [])}


def gen_localname_cases(rng: random.Random, tier: str) -> List[Dict[str, Any]]:
    """Scripts in which a name that is LOCAL to one statement (join alias, user-defined-operator parameter, datapoint-ruleset variable,
    component created/renamed inside a clause) coincides with the name of another statement's result or of an input dataset that
    other statements read.  Every kind x both coincidences on every run, plus sampled combinations of two kinds."""
    cases = []
    ins = ["JN_1", "JN_2", "JN_3"]

    def add(stmts, tag, shape):
        cases.append({"cat": tag, "canon": stmts, "stmts": permuted(rng, stmts), "inputs": ins, "shape": shape, "check_ref": False,
                      "no_ref": True})

    for kind in LOCAL_KINDS:
        L = rng.choice(["a", "res", "x_1"])
        add([local_stmt(kind, "R_loc", L), plain_stmt(L, "JN_3 * 2", ["JN_3"], False), plain_stmt("R_c", f"{L} + 1", [L], True)],
            f"local:{kind}:result", ("local", kind, "result"))
        add([local_stmt(kind, "R_loc", "JN_3"), plain_stmt("R_z", "JN_2 + 1", ["JN_2"], False), plain_stmt("R_c", "JN_3 + 1", ["JN_3"], True)],
            f"local:{kind}:input", ("local", kind, "input"))
    for i in range(60 if tier == "thorough" else 2):
        k1, k2 = rng.sample(LOCAL_KINDS, 2)
        L = rng.choice(["a", "res", "JN_3"])
        st = [local_stmt(k1, "R_loc", L), local_stmt(k2, "R_lo2", L, pers=rng.random() < 0.5)]
        if not L.startswith("JN_"):
            st.append(plain_stmt(L, "JN_3 * 2", ["JN_3"], False))
        else:
            st.append(plain_stmt("R_z", "R_lo2 + 1", ["R_lo2"], False))
        st.append(plain_stmt("R_c", f"{L} + 1", [L], True))
        add(st, f"local:{k1}+{k2}:{'input' if L.startswith('JN_') else 'result'}", ("local2", k1, k2, L, i))
    return cases


# ------------------------------------------------------------------------------------------------ the DAG tie (X)
OUTCOME = {"Accepted": "ok", "CycleRejected": "1-3-2-3", "RedefinitionRejected": "1-2-2"}


def engine_outcome(o) -> str:
    if o == "ok":
        return "ok"
    return o[1] if o[0] == "Semantic" and o[1] in ("1-3-2-3", "1-2-2") else f"{o[0]}:{o[1]}"


def dag_tie(ctx, pool: "Pool", cases: List[Dict[str, Any]], tag: str) -> Dict[str, Any]:
    """Runs the real DAGAnalyzer on every case and the Gallina functions on the same case; compares field by field.
    Returns counters and the list of cases where outcome_spec differs from the engine (property-level candidates)."""
    import common
    jobs = [{"kind": "dag", "script": script_text(c["stmts"])} for c in cases]
    obs = pool.map(jobs)
    exprs, metas = [], []
    broken: List[str] = []
    for c, o in zip(cases, obs):
        if "harness_error" in o or "dag" not in o:
            broken.append(f"{script_text(c['stmts'])!r}: {o.get('harness_error') or o.get('outcome')}")
            continue
        nm = Names()
        raw = [expected_raw(s) for s in c["stmts"]]
        raw_q = [(nm(o_), nm.many(i_), p_, nm.many(u_)) for o_, i_, p_, u_ in raw]
        eng = [(nm(d["name"]), nm.many(d["inputs"]), d["pers"]) for d in o["dag"]["deps"]]
        sorting = o["dag"]["sorting"] or []
        exprs.append(f"dag_case {q_rstmts(raw_q)} {q_stmts(eng)} {q_nats(sorting)}")
        metas.append((c, o, nm, raw))
    res = common.coq_eval(COQ_HEADER, exprs, tag) if exprs else []
    stats = {"cases": len(cases), "ok": 0, "cycle": 0, "redef": 0, "mismatch": 0, "orders_validated": 0}
    mism: List[str] = []
    spec_vs_impl: List[Dict[str, Any]] = []
    for (c, o, nm, raw), r in zip(metas, res):
        deps_m, unk_m, edges_m, (valid, out_impl, out_spec, out_impl_raw), (rows, globs, pers) = r
        dag = o["dag"]
        txt = script_text(c["stmts"])
        errs = []
        n = len(c["stmts"])
        if len(dag["deps"]) != n:
            errs.append(f"{len(dag['deps'])} dependency entries for {n} statements")
        for k, (d, rw) in enumerate(zip(dag["deps"], raw)):
            if d["name"] != rw[0] or d["pers"] != rw[2] or d["n_ref"] != 1:
                errs.append(f"statement {k + 1}: engine ({d['name']},{d['pers']}) vs script ({rw[0]},{rw[2]})")
            want = [nm.rev[x] for x in deps_m[k]]
            base = len(rw[1])
            if d["inputs"][:base] != want[:base] or sorted(d["inputs"][base:]) != sorted(want[base:]):
                errs.append(f"statement {k + 1}: inputs {d['inputs']} vs model promote_impl {want}")
            if d["unknown"] != [nm.rev[x] for x in unk_m[k]]:
                errs.append(f"statement {k + 1}: unknown_variables {d['unknown']} vs model {[nm.rev[x] for x in unk_m[k]]}")
        eo = engine_outcome(o["outcome"])
        if eo != "1-2-2":   # a duplicated assignment is rejected before vertex/edges are loaded
            if dag["vertex"] != {k + 1: rw[0] for k, rw in enumerate(raw)}:
                errs.append(f"vertex {dag['vertex']}")
            if [list(e) for e in edges_m] != dag["edges"]:
                errs.append(f"edges {dag['edges']} vs model {edges_m}")
        if OUTCOME[out_impl] != eo:
            errs.append(f"engine outcome {eo} vs outcome_impl {out_impl}")
        if out_impl != out_impl_raw:
            errs.append(f"outcome_impl on engine deps {out_impl} vs on promoted script {out_impl_raw}")
        if eo == "ok":
            stats["ok"] += 1
            if valid is not True:
                errs.append(f"the order produced by the engine {dag['sorting']} is NOT a topological order (is_topo_order = false)")
            else:
                stats["orders_validated"] += 1
            sel = [dag["deps"][k - 1]["name"] for k in dag["sorting"]]
            if o.get("sorted_names") != sel:
                errs.append(f"sorted AST {o.get('sorted_names')} vs sort_elements {sel}")
            s = o["sched"]
            keys = set(s["insertion"]) | set(s["deletion"])
            if not keys <= set(range(1, n + 1)):
                errs.append(f"schedule keys outside 1..{n}: {sorted(keys)}")
            for k in range(1, n + 1):
                ins_m = [nm.rev[x] for x in rows[k - 1][0]]
                del_m = [nm.rev[x] for x in rows[k - 1][1]]
                if s["insertion"].get(k, []) != ins_m:
                    errs.append(f"insertion[{k}] {s['insertion'].get(k, [])} vs model {ins_m}")
                if s["deletion"].get(k, []) != del_m:
                    errs.append(f"deletion[{k}] {s['deletion'].get(k, [])} vs model {del_m}")
            if s["global_inputs"] != [nm.rev[x] for x in globs]:
                errs.append(f"global_inputs {s['global_inputs']} vs model {[nm.rev[x] for x in globs]}")
            if s["persistent"] != [nm.rev[x] for x in pers]:
                errs.append(f"persistent {s['persistent']} vs model {[nm.rev[x] for x in pers]}")
            if s["all_outputs"] != sorted(rw[0] for rw in raw):
                errs.append(f"all_outputs {s['all_outputs']}")
        elif eo == "1-3-2-3":
            stats["cycle"] += 1
        elif eo == "1-2-2":
            stats["redef"] += 1
        if out_spec != out_impl:
            spec_vs_impl.append({"case": c, "script": txt, "engine": eo, "spec": OUTCOME[out_spec]})
        ctx.count((tag, c["cat"], str(c["shape"]), txt if c["cat"] not in ("digraph", "dupnames") else ""))
        if errs:
            stats["mismatch"] += 1
            mism.append(f"{txt!r}: " + "; ".join(errs[:4]))
    stats["broken"] = broken
    stats["mismatches"] = mism
    stats["spec_vs_impl"] = spec_vs_impl
    return stats


# ------------------------------------------------------------------------------------------------ upstream corpus
def corpus_scripts(repo_tests: Path, multi_only: bool = True) -> List[Dict[str, Any]]:
    """every tests/**/data/vtl/*.vtl with the input structures / datapoints / value domains lying next to it
    (tests/Helper.py layout: data/DataStructure/input/<code>-*.json, data/DataSet/input/<code>-*.csv)"""
    out = []
    for f in sorted(repo_tests.rglob("*.vtl")):
        if multi_only:
            try:
                txt = f.read_text()
            except Exception:
                continue
            if txt.count(":=") + txt.count("<-") < 2:   # cheap superset test; the exact count comes from the parsed AST
                continue
        d = f.parent.parent
        stem = f.stem
        sj = sorted((d / "DataStructure" / "input").glob(f"{stem}-*.json")) if (d / "DataStructure" / "input").is_dir() else []
        dp: Dict[str, str] = {}
        structs = []
        for j in sj:
            try:
                js = json.loads(j.read_text())
            except Exception:
                continue
            structs.append(str(j))
            csv = d / "DataSet" / "input" / (j.stem + ".csv")
            for ds in js.get("datasets", []) or []:
                if csv.exists():
                    dp[ds["name"]] = str(csv)
        kw: Dict[str, Any] = {}
        vd = sorted((d / "ValueDomain").glob("*.json")) if (d / "ValueDomain").is_dir() else []
        if vd:
            kw["value_domains"] = [str(p) for p in vd]
        sql = sorted((d / "sql").glob("*.sql")) if (d / "sql").is_dir() else []
        if sql:
            kw["external_routines"] = [{"name": p.stem, "query": p.read_text()} for p in sql]
        out.append({"path": str(f), "struct_paths": structs, "dp_paths": dp, "kw": kw,
                    "tabled": sorted(dp.keys())})
    return out


def struct_dataset_names(struct_paths: Sequence[str]) -> List[str]:
    names = []
    for p in struct_paths:
        try:
            names += [d["name"] for d in json.loads(Path(p).read_text()).get("datasets", []) or []]
        except Exception:
            pass
    return names


# ------------------------------------------------------------------------------------------------ the trace tie
def true_reads(st: Dict[str, Any]) -> List[str]:
    if st.get("raw") is not None:
        return list(st["raw"][0])
    r = list(dict.fromkeys(st["ops"]))
    if st.get("clause"):
        r.append(st["clause"])
    return [x for x in r if x != st["out"] or st["pers"]]


def canon_expected(case: Dict[str, Any], rop: bool):
    """reference results of a generated (valid, acyclic) case: {'datasets': {name: rows}, 'scalars': {name: value}}"""
    env = eval_script(case["canon"], range(len(case["canon"])), input_values(case["inputs"]))
    ds, sc = {}, {}
    for s in case["canon"]:
        if rop and not s["pers"]:
            continue
        v = env[s["out"]]
        if isinstance(v, dict):
            ds[s["out"]] = sorted([i, f"{val.numerator}/{val.denominator}"] for i, val in v.items())
        else:
            sc[s["out"]] = v
    return {"datasets": ds, "scalars": sc}


def run_job_for(case: Dict[str, Any], rop: bool) -> Dict[str, Any]:
    return {"kind": "run", "script": script_text(case["stmts"]), "structs": structures_for(case["inputs"]),
            "data": data_spec(case["inputs"]), "kw": {"return_only_persistent": rop}}


def compare_results(obs: Dict[str, Any], want) -> List[str]:
    bad = []
    got_ds = {k: sorted([r[0], r[1]] for r in v["rows"]) for k, v in obs["datasets"].items()}
    if got_ds != want["datasets"]:
        bad.append(f"datasets {got_ds} vs reference semantics {want['datasets']}")
    got_sc = {k: Fraction(v[1].split("/")[0]) / Fraction(v[1].split("/")[1]) if isinstance(v[1], str) and "/" in v[1] else Fraction(v[1])
              for k, v in obs["scalars"].items()}
    if got_sc != want["scalars"]:
        bad.append(f"scalars {got_sc} vs reference semantics {want['scalars']}")
    return bad


def trace_tie(ctx, pool: "Pool", items: List[Dict[str, Any]], tag: str) -> Dict[str, Any]:
    """items: {job, rop, tabled, reads (name -> true reads) | None, want | None, label, cat}.  Runs the real run(), compares the real
    event trace with the model's replay (Coq), evaluates the property predicates on the real trace (Python and the proved
    checker safe_historyb in Coq), compares the results with the reference semantics."""
    import common
    obs = pool.map([it["job"] for it in items], chunk=4)
    stats: Dict[str, Any] = {"runs": len(items), "ok": 0, "errors": {}, "model_mismatch": [], "predicate_failures": [], "broken": [],
                             "result_mismatch": [], "failed_runs": []}
    exprs, metas = [], []
    for it, o in zip(items, obs):
        if "harness_error" in o:
            stats["broken"].append(f"{it['label']}: {o['harness_error']}")
            continue
        if not o["ok"]:
            k = f"{o['err'][0]}:{o['err'][1]}"
            stats["errors"][k] = stats["errors"].get(k, 0) + 1
            stats["failed_runs"].append((it, o))
            continue
        if len(o["dags"]) < 2 or o["dags"][0]["sorting"] is None or o["dags"][1]["sorting"] is None:
            stats["broken"].append(f"{it['label']}: {len(o['dags'])} DAG analyses observed in run(), expected create_ast's and run()'s create_dag first")
            continue
        d0, d1 = o["dags"][0], o["dags"][1]
        sel = [d0["deps"][k - 1]["name"] for k in d0["sorting"]]
        if [d["name"] for d in d1["deps"]] != sel:
            stats["broken"].append(f"{it['label']}: second create_dag saw {[d['name'] for d in d1['deps']]}, first sorted to {sel}")
            continue
        nm = Names()
        s1 = [(nm(d["name"]), nm.many(d["inputs"]), d["pers"]) for d in d1["deps"]]
        s2 = [d1["deps"][k - 1] for k in d1["sorting"]]
        trace = normalise_trace(o["events"])
        real = [(EV_CODE[k], nm(n), (kk or 0) if k == "exec" else 0) for k, n, kk in trace]
        tab = nm.many(it["tabled"])
        exprs.append(f"trace_case {q_stmts(s1)} {q_nats(d1['sorting'])} {q_nats(tab)} {q_bool(it['rop'])} {q_triples(real)}")
        metas.append((it, o, nm, s2, trace, real))
    res = common.coq_eval(COQ_HEADER, exprs, tag, shard=200) if exprs else []
    for (it, o, nm, s2, trace, real), r in zip(metas, res):
        stats["ok"] += 1
        flag, model_ev, returned, safeb, final_store = r
        keys = sorted(list(o["datasets"]) + list(o["scalars"]))
        reads = it.get("reads")
        stmts = [(d["name"], (reads[d["name"]] if reads else d["inputs"]), d["pers"]) for d in s2]
        fails = trace_predicates(trace, stmts, set(it["tabled"]), it["rop"], keys)
        if safeb is not True:
            fails.append("safe_historyb (Coq, proved sound) is false on the real trace")
        if final_store:
            fails.append(f"store_of real trace not empty: {[nm.rev[x] for x in final_store]}")
        if fails:
            stats["predicate_failures"].append((it, fails, trace))
        mm = []
        if flag is not True:
            mm.append("engine order not validated (is_topo_order / unique outputs)")
        if [tuple(e) for e in model_ev] != [tuple(e) for e in real]:
            mm.append(f"model replay {[tuple(e) for e in model_ev]} vs real {real}")
        if sorted(nm.rev[x] for x in returned) != keys:
            mm.append(f"model returned {sorted(nm.rev[x] for x in returned)} vs run() keys {keys}")
        if mm:
            stats["model_mismatch"].append((it, mm))
        if it.get("want") is not None:
            rb = compare_results(o, it["want"])
            if rb:
                stats["result_mismatch"].append((it, rb))
        ctx.count((tag, it["cat"], it["label"] if len(it["label"]) < 200 else hash(it["label"]), it["rop"]))
    return stats
