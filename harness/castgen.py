"""C09 — cast: value pools per VTL type, case builders for the three levels (scalar / component / dataset) and the engine
runner (spawned worker processes, each with its own engine + parser front end).

A *case* is a dict {"src", "dst", "level", "vals": [pool keys]}; a run puts every value of the case into ONE script (one
statement per value at scalar level, one row per value at component/dataset level).  When the run fails with more than one
value the case is split until each failing value has been run alone, so every value ends with its own outcome."""
from __future__ import annotations

import os
from fractions import Fraction
from typing import Any, Dict, List, Optional, Tuple

# documented type names (docs/data_types.rst) -> (cast keyword, JSON structure type, engine class name, Gen/Types.v constructor)
TYPES = ["String", "Number", "Integer", "Boolean", "Time", "Date", "Time_Period", "Duration"]
KW = {"String": "string", "Number": "number", "Integer": "integer", "Boolean": "boolean", "Time": "time", "Date": "date",
      "Time_Period": "time_period", "Duration": "duration"}
CLS = {"String": "String", "Number": "Number", "Integer": "Integer", "Boolean": "Boolean", "Time": "TimeInterval", "Date": "Date",
       "Time_Period": "TimePeriod", "Duration": "Duration"}
COQ = {"String": "TString", "Number": "TNumber", "Integer": "TInteger", "Boolean": "TBoolean", "Time": "TTime", "Date": "TDate",
       "Time_Period": "TPeriod", "Duration": "TDuration"}
LEVELS = ["scalar", "component", "dataset"]
ALL_LEVELS = ["scalar", "scalarvar", "component", "dataset"]
BASIC = ("String", "Number", "Integer", "Boolean")

# ------------------------------------------------------------------------------------------------ value pools
# every entry: (key, python value handed to the engine, class).  Numbers are exact decimal strings (turned into floats for the
# engine, into Q for the model).  The class names the edge the value stands for (used in the coverage histogram and in keys).
POOL: Dict[str, List[Tuple[str, Any, str]]] = {
    "Integer": [("0", 0, "zero"), ("1", 1, "one"), ("-1", -1, "neg"), ("7", 7, "pos"), ("-7", -7, "neg"), ("2", 2, "pos"),
                ("12345678901", 12345678901, "big"), ("-98765432109", -98765432109, "big"),
                ("9007199254740993", 9007199254740993, "big>2^53"), ("null", None, "null")],
    "Number": [("0.0", "0.0", "zero"), ("1.0", "1.0", "whole"), ("-1.0", "-1.0", "whole"), ("3.5", "3.5", "half"), ("-3.5", "-3.5", "half"),
               ("2.5", "2.5", "half"), ("-2.5", "-2.5", "half"), ("0.5", "0.5", "half"), ("-0.5", "-0.5", "half"), ("3.25", "3.25", "frac"),
               ("-3.75", "-3.75", "frac"), ("0.125", "0.125", "frac"), ("12345678.0", "12345678.0", "big"), ("1234567.5", "1234567.5", "big"),
               ("10000000000.0", "10000000000.0", "big"), ("null", None, "null")],
    "Boolean": [("true", True, "true"), ("false", False, "false"), ("null", None, "null")],
    "String": [
        # integers / decimals
        ("0", "0", "int"), ("3", "3", "int"), ("-7", "-7", "int"), ("+5", "+5", "int+"), ("007", "007", "int0"),
        ("12345678901", "12345678901", "intbig"), ("3.5", "3.5", "dec"), ("-2.5", "-2.5", "dec"), ("3.0", "3.0", "dec0"),
        ("0.25", "0.25", "dec"), (".5", ".5", "decdot"), ("5.", "5.", "decdot"), ("1e3", "1e3", "exp"), (" 3 ", " 3 ", "intsp"),
        ("3 4", "3 4", "bad"), ("abc", "abc", "bad"), ("", "", "empty"), ("1,5", "1,5", "bad"), ("0x10", "0x10", "bad"),
        ("nan", "nan", "nan"), ("inf", "inf", "nan"), ("1_000", "1_000", "bad"),
        # booleans
        ("true", "true", "bool"), ("True", "True", "bool"), ("TRUE", "TRUE", "bool"), ("false", "false", "bool"),
        ("False", "False", "bool"), ("FALSE", "FALSE", "bool"), (" true ", " true ", "boolsp"), ("1", "1", "bool01"),
        ("yes", "yes", "bad"), ("t", "t", "bad"),
        # dates
        ("2020-01-15", "2020-01-15", "date"), ("2020-02-29", "2020-02-29", "date"), ("2021-02-29", "2021-02-29", "baddate"),
        ("2020-13-01", "2020-13-01", "baddate"), ("2020-01-15 10:30:00", "2020-01-15 10:30:00", "datetime"),
        ("2020-01-15T10:30:00", "2020-01-15T10:30:00", "datetime"), ("15/01/2020", "15/01/2020", "baddate"), ("20200115", "20200115", "baddate"),
        # periods
        ("2020", "2020", "periodA"), ("2020A", "2020A", "periodA"), ("2020-A1", "2020-A1", "periodA"), ("2020S1", "2020S1", "periodS"),
        ("2020-S2", "2020-S2", "periodS"), ("2020Q3", "2020Q3", "periodQ"), ("2020-Q4", "2020-Q4", "periodQ"), ("2020M2", "2020M2", "periodM"),
        ("2020-M12", "2020-M12", "periodM"), ("2020-02", "2020-02", "periodM"), ("2020W53", "2020W53", "periodW"),
        ("2020-W01", "2020-W01", "periodW"), ("2020D366", "2020D366", "periodD"), ("2020-D001", "2020-D001", "periodD"),
        ("2020Q5", "2020Q5", "badperiod"), ("2020M13", "2020M13", "badperiod"), ("2021W53", "2021W53", "badperiod"),
        ("2021D366", "2021D366", "badperiod"), ("2020S3", "2020S3", "badperiod"), ("2020X1", "2020X1", "badperiod"),
        # intervals
        ("2020-01-01/2020-12-31", "2020-01-01/2020-12-31", "intervalA"), ("2020-01-15/2020-01-15", "2020-01-15/2020-01-15", "intervalD"),
        ("2020-04-01/2020-06-30", "2020-04-01/2020-06-30", "intervalQ"), ("2020-01-02/2020-03-05", "2020-01-02/2020-03-05", "intervalX"),
        ("2020-12-31/2020-01-01", "2020-12-31/2020-01-01", "badinterval"), ("2020-01-01/", "2020-01-01/", "badinterval"),
        ("2019-12-30/2020-01-05", "2019-12-30/2020-01-05", "intervalW1prev"), ("2020-12-28/2021-01-03", "2020-12-28/2021-01-03", "intervalW53"),
        # durations
        ("P1Y", "P1Y", "durISO"), ("P6M", "P6M", "durISO"), ("P3M", "P3M", "durISO"), ("P1M", "P1M", "durISO"), ("P1W", "P1W", "durISO"),
        ("P7D", "P7D", "durISO"), ("P1D", "P1D", "durISO"), ("p1y", "p1y", "durISOlow"), ("P2Y", "P2Y", "baddur"), ("PT1H", "PT1H", "baddur"),
        ("A", "A", "durshort"), ("S", "S", "durshort"), ("Q", "Q", "durshort"), ("M", "M", "durshort"), ("W", "W", "durshort"),
        ("D", "D", "durshort"), ("a", "a", "durshortlow"), ("X", "X", "baddur"), ("AA", "AA", "baddur"),
        ("null", None, "null")],
    "Date": [("2020-01-15", "2020-01-15", "date"), ("2020-02-29", "2020-02-29", "leap"), ("2020-12-31", "2020-12-31", "d366"),
             ("2021-01-01", "2021-01-01", "d001"), ("1999-12-31", "1999-12-31", "d365"), ("2020-01-15 10:30:00", "2020-01-15 10:30:00", "datetime"),
             ("null", None, "null")],
    "Time_Period": [("2020A", "2020A", "A"), ("2020", "2020", "A"), ("2020-S1", "2020-S1", "S"), ("2020S2", "2020S2", "S"), ("2020-Q3", "2020-Q3", "Q"),
                    ("2020Q4", "2020Q4", "Q"), ("2020-M02", "2020-M02", "M"), ("2020M12", "2020M12", "M"), ("2020-W53", "2020-W53", "W53"),
                    ("2021-W01", "2021-W01", "W"), ("2020-D366", "2020-D366", "D366"), ("2020-D001", "2020-D001", "D"), ("2021D365", "2021D365", "D"),
                    ("2020D15", "2020D15", "D"), ("2020-D060", "2020-D060", "Dleap"), ("2020-W01", "2020-W01", "W01prev"),
                    ("2015-W53", "2015-W53", "W53"), ("2019-D365", "2019-D365", "D365"), ("2020-Q4", "2020-Q4", "Q"), ("2020-S2", "2020-S2", "S"),
                    ("null", None, "null")],
    "Time": [("2020-01-15/2020-01-15", "2020-01-15/2020-01-15", "same"), ("2020-02-29/2020-02-29", "2020-02-29/2020-02-29", "same"),
             ("2020-01-01/2020-12-31", "2020-01-01/2020-12-31", "year"), ("2020-01-01/2020-06-30", "2020-01-01/2020-06-30", "semester"),
             ("2020-07-01/2020-12-31", "2020-07-01/2020-12-31", "semester"), ("2020-04-01/2020-06-30", "2020-04-01/2020-06-30", "quarter"),
             ("2020-02-01/2020-02-29", "2020-02-01/2020-02-29", "month"), ("2020-12-28/2021-01-03", "2020-12-28/2021-01-03", "week53"),
             ("2021-01-04/2021-01-10", "2021-01-04/2021-01-10", "week"), ("2020-01-02/2020-03-05", "2020-01-02/2020-03-05", "irregular"),
             ("2020-01-01/2021-12-31", "2020-01-01/2021-12-31", "twoyears"),
             # year boundaries: ISO week-year differs from the calendar year at either end; leap day / day 366; quarter, semester, month ends
             ("2019-12-30/2020-01-05", "2019-12-30/2020-01-05", "week1prev"), ("2018-12-31/2019-01-06", "2018-12-31/2019-01-06", "week1prev"),
             ("2024-12-30/2025-01-05", "2024-12-30/2025-01-05", "week1prev"), ("2015-12-28/2016-01-03", "2015-12-28/2016-01-03", "week53"),
             ("2016-01-04/2016-01-10", "2016-01-04/2016-01-10", "week"), ("2020-12-31/2020-12-31", "2020-12-31/2020-12-31", "same366"),
             ("2019-12-31/2019-12-31", "2019-12-31/2019-12-31", "same365"), ("2020-10-01/2020-12-31", "2020-10-01/2020-12-31", "quarter"),
             ("2020-01-01/2020-03-31", "2020-01-01/2020-03-31", "quarter"), ("2021-02-01/2021-02-28", "2021-02-01/2021-02-28", "month"),
             ("2020-12-01/2020-12-31", "2020-12-01/2020-12-31", "month"), ("2020-01-07/2020-01-13", "2020-01-07/2020-01-13", "sevendays"),
             ("null", None, "null")],
    "Duration": [("A", "A", "A"), ("S", "S", "S"), ("Q", "Q", "Q"), ("M", "M", "M"), ("W", "W", "W"), ("D", "D", "D"), ("null", None, "null")],
}
POOL["Null"] = [("null", None, "null")]       # the literal null (type Null), scalar level only
POOLD: Dict[str, Dict[str, Tuple[Any, str]]] = {t: {k: (v, c) for k, v, c in POOL[t]} for t in POOL}


def klass(src: str, key: str) -> str:
    return POOLD[src][key][1]


def pool_keys(src: str) -> List[str]:
    return [k for k, _, _ in POOL[src]]


def py_value(src: str, key: str) -> Any:
    v = POOLD[src][key][0]
    if v is None:
        return None
    if src == "Number":
        return float(v)
    return v


def literal(src: str, key: str) -> Optional[str]:
    """the VTL literal of the value, None when the type has no literal (time types)"""
    v = POOLD[src][key][0]
    if v is None:
        return "null"
    if src == "Integer":
        return str(v)
    if src == "Number":
        return v
    if src == "Boolean":
        return "true" if v else "false"
    if src == "String":
        return '"' + v + '"'
    return None


def scalar_operand(src: str, key: str) -> str:
    """the scalar-level operand: a literal where the type has one; time types (no literal in VTL) and typed nulls are written
    as the inner cast of the corresponding String / null literal: cast("2020-Q3", time_period), cast(null, integer)"""
    if src == "Null":
        return "null"
    v = POOLD[src][key][0]
    if v is None:
        return f"cast(null, {KW[src]})"
    lit = literal(src, key)
    if lit is not None:
        return lit
    return f'cast("{v}", {KW[src]})'


def build(case: dict) -> dict:
    """script + structures + data of a case.  Levels: scalar (literal operand), scalarvar (input scalar with scalar_values),
    component (calc over a measure), dataset (cast of a mono-measure dataset)."""
    import engine
    src, dst, lvl, vals = case["src"], case["dst"], case["level"], case["vals"]
    kw = KW[dst]
    if lvl == "scalar":
        stmts = [f"r_{i} <- cast({scalar_operand(src, k)}, {kw});" for i, k in enumerate(vals)]
        return {"script": "\n".join(stmts), "structs": {"datasets": []}, "data": {}, "scalar_values": None}
    if lvl == "scalarvar":
        scalars = [{"name": f"sc_{i}", "type": src} for i in range(len(vals))]
        svals = {f"sc_{i}": py_value(src, k) for i, k in enumerate(vals)}
        stmts = [f"r_{i} <- cast(sc_{i}, {kw});" for i in range(len(vals))]
        return {"script": "\n".join(stmts), "structs": {"datasets": [], "scalars": scalars}, "data": {}, "scalar_values": svals}
    S = engine.structures(engine.ds_struct("DS_1", [("Id_1", "Integer", "Identifier", False), ("Me_1", src, "Measure", True)]))
    rows = {"Id_1": list(range(1, len(vals) + 1)), "Me_1": [py_value(src, k) for k in vals]}
    script = f"DS_r <- DS_1[calc Me_2 := cast(Me_1, {kw})];" if lvl == "component" else f"DS_r <- cast(DS_1, {kw});"
    return {"script": script, "structs": S, "data": {"DS_1": rows}, "scalar_values": None}


def _df(rows, src):
    import pandas as pd
    me = rows["Me_1"]
    if src == "Integer":
        col = pd.array(me, dtype="Int64")
    elif src == "Number":
        col = pd.array(me, dtype="Float64")
    elif src == "Boolean":
        col = pd.array(me, dtype="boolean")
    else:
        col = pd.array(me, dtype="string")
    return pd.DataFrame({"Id_1": rows["Id_1"], "Me_1": col})


def run_built(case: dict, b: dict) -> dict:
    """one engine run of the case -> {'ok': True, 'vals': {key: canonical}, 'measure': name, 'type': cls} | {'ok': False, 'err': (kind, code), 'msg'}"""
    import engine
    data = {k: _df(v, case["src"]) for k, v in b["data"].items()}
    kw = {}
    if b["scalar_values"]:
        kw["scalar_values"] = b["scalar_values"]
    r = engine.run_case(b["script"], b["structs"], data, **kw)
    if not r["ok"]:
        return {"ok": False, "err": list(r["err"]), "msg": r["msg"][:300], "stage": _stage(r.get("exc"))}
    vals = case["vals"]
    if case["level"] in ("scalar", "scalarvar"):
        out = {}
        typ = None
        for i, k in enumerate(vals):
            t, v = r["scalars"][f"r_{i}"]
            typ = t
            out[k] = v
        return {"ok": True, "vals": out, "type": typ, "measure": None, "comps": None}
    d = r["datasets"]["DS_r"]
    names = [c[0] for c in d["comps"]]
    if case["level"] == "component":
        mname = "Me_2"
    else:
        ms = [c[0] for c in d["comps"] if c[1] == "Measure"]
        mname = ms[0] if len(ms) == 1 else None
    if mname is None or mname not in names:
        return {"ok": True, "vals": {}, "type": None, "measure": None, "comps": d["comps"], "bad_structure": True}
    ix, iid = names.index(mname), names.index("Id_1")
    byid = {row[iid]: row[ix] for row in d["rows"]}
    out = {k: byid.get(i + 1, "MISSING-ROW") for i, k in enumerate(vals)}
    return {"ok": True, "vals": out, "type": d["comps"][ix][2], "measure": mname, "comps": [list(c) for c in d["comps"]],
            "nrows": len(d["rows"])}


def _stage(e) -> str:
    """where the exception was raised: 'semantic' (interpreter, before any SQL), 'exec' (DuckDB execution), 'other'"""
    import traceback
    if e is None:
        return "?"
    fr = traceback.extract_tb(e.__traceback__)
    files = [f.filename for f in fr]
    if any("duckdb_transpiler/io" in f or "_execution" in f for f in files):
        return "exec"
    if any("duckdb_transpiler/Transpiler" in f for f in files):
        return "transpile"
    if any("/Interpreter/" in f for f in files):
        return "semantic"
    if any("_InternalApi" in f or "/files/" in f for f in files):
        return "load"
    return "other"


def semantic_only(case: dict) -> dict:
    """semantic_analysis() of the case (no data): outcome + result structure"""
    import engine
    b = build(case)
    r = engine.semantic_case(b["script"], b["structs"])
    if not r["ok"]:
        return {"ok": False, "err": list(r["err"]), "msg": r["msg"][:300]}
    return {"ok": True, "datasets": {k: [list(c) for c in v] for k, v in r["datasets"].items()}, "scalars": r["scalars"]}


def run_split(case: dict) -> Dict[str, dict]:
    """per value outcome {key: {'ok', 'val' | 'err', 'msg', 'measure', 'type', 'runs'}}; splits failing multi-value runs"""
    out: Dict[str, dict] = {}
    nruns = [0]

    def go(vals: List[str]):
        c = dict(case, vals=vals)
        r = run_built(c, build(c))
        nruns[0] += 1
        if r["ok"]:
            for k in vals:
                out[k] = {"ok": True, "val": r["vals"].get(k, "MISSING"), "measure": r.get("measure"), "type": r.get("type"),
                          "bad_structure": r.get("bad_structure", False)}
            return
        if len(vals) == 1 or (case.get("expect_sem") and r["err"] == ["Semantic", "1-1-5-4"] and r.get("stage") == "semantic"):
            for k in vals:
                out[k] = {"ok": False, "err": r["err"], "msg": r["msg"], "stage": r.get("stage"), "batch": len(vals)}
            return
        if case.get("expect_all_fail"):
            for k in vals:
                go([k])
            return
        h = len(vals) // 2
        go(vals[:h])
        go(vals[h:])
    go(list(case["vals"]))
    return {"case": {k: case[k] for k in ("src", "dst", "level")}, "per_value": out, "runs": nruns[0]}


# ------------------------------------------------------------------------------------------------ worker pool
def _worker_init():
    os.environ["MEANINGFUL_DATA_VTLENGINE_VERIF"] = "1"
    import engine
    engine.install(need_parser=True)


def _worker(case: dict) -> dict:
    try:
        if case.get("mode") == "semantic":
            return {"case": {k: case[k] for k in ("src", "dst", "level")}, "semantic": semantic_only(case)}
        if case.get("mode") == "script":
            import engine
            r = engine.run_case(case["script"], {"datasets": []}, {})
            r.pop("exc", None)
            return {"case": {k: case[k] for k in ("src", "dst", "level")}, "script_result": r}
        return run_split(case)
    except Exception as e:  # the harness must not hide a case
        import traceback
        return {"case": {k: case[k] for k in ("src", "dst", "level")}, "harness_error": f"{type(e).__name__}: {e}", "tb": traceback.format_exc()[-1500:]}


def run_parallel(cases: List[dict], workers: int = 16, timeout: int = 600) -> List[dict]:
    import multiprocessing as mp
    from concurrent.futures import ProcessPoolExecutor
    out = []
    with ProcessPoolExecutor(max_workers=workers, mp_context=mp.get_context("spawn"), initializer=_worker_init) as ex:
        futs = [ex.submit(_worker, c) for c in cases]
        for c, f in zip(cases, futs):
            try:
                out.append(f.result(timeout=timeout))
            except Exception as e:
                out.append({"case": {k: c[k] for k in ("src", "dst", "level")}, "harness_error": f"{type(e).__name__}: {e}"})
    return out


# ------------------------------------------------------------------------------------------------ pool selection per tier
STRING_CORE = ["3", "-7", "3.5", "abc", "", "true", "2020-01-15", "2020Q3", "2020-01-01/2020-12-31", "P1Y", "A", "null"]
STRING_CLASSES_FOR = {
    "String": set(),
    "Integer": {"int", "int+", "int0", "intbig", "dec", "dec0", "decdot", "exp", "intsp", "bad", "empty", "nan", "bool01"},
    "Number": {"int", "int+", "int0", "intbig", "dec", "dec0", "decdot", "exp", "intsp", "bad", "empty", "nan", "bool01"},
    "Boolean": {"bool", "boolsp", "bool01", "bad", "empty"},
    "Date": {"date", "baddate", "datetime"},
    "Time_Period": {"periodA", "periodS", "periodQ", "periodM", "periodW", "periodD", "badperiod", "date", "baddate", "datetime",
                    "intervalA", "intervalD", "intervalQ", "intervalX", "badinterval", "intervalW1prev", "intervalW53"},
    "Time": {"intervalA", "intervalD", "intervalQ", "intervalX", "badinterval", "intervalW1prev", "intervalW53", "periodA", "periodM", "date"},
    "Duration": {"durISO", "durISOlow", "baddur", "durshort", "durshortlow"},
}


def pool_for(src: str, dst: str, tier: str) -> List[str]:
    """quick: for String sources the values relevant to the target (its own syntax classes + one representative of every
    other family); every other source type always runs its whole pool.  thorough: the full cross product."""
    if src != "String" or tier == "thorough":
        return pool_keys(src)
    want = STRING_CLASSES_FOR[dst]
    return [k for k, _, c in POOL["String"] if c in want or k in STRING_CORE]
