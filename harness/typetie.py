"""Tie of the typing judgement (Model/Typing.v `ctype_code`, defined through the promotion tables regenerated from the code) to the
engine's semantic analysis, and of the type-soundness theorem to the engine's values.

X-style (exhaustive at depth 1): every constructor of the component-expression language over every combination of operand atoms
(columns of type Integer / Number / String / Boolean and literals of each type incl. null) is typed by `ctype_code` inside Coq and by
`semantic_analysis()` (`DS_1[calc Me_9 := <expr>]`); accepted expressions are batched into one calc clause, rejected ones are asked one
by one (sampled in the quick tier).  Accepted expressions are also RUN on data with nulls: every value must inhabit the type the
specification predicts (`ctype_spec`, Theorem C10_values_inhabit_predicted_types) and equal `ceval`."""
from __future__ import annotations

import itertools
import re
from fractions import Fraction

import pandas as pd

import engine
import exprgen as G
from common import coq_eval, coq_list

HEADER = ("From Coq Require Import ZArith QArith String List.\nImport ListNotations.\n"
          "From VTL Require Import Base.Val Model.Types Model.Scalar Model.Expr Model.Typing.\nOpen Scope string_scope.\n")
TENV = '[("Id_1", TInteger); ("Me_i", TInteger); ("Me_n", TNumber); ("Me_s", TString); ("Me_b", TBoolean)]'
TYNAME = {"TInteger": "Integer", "TNumber": "Number", "TString": "String", "TBoolean": "Boolean", "TNull": "Null", "TDate": "Date",
          "TTime": "TimeInterval", "TPeriod": "TimePeriod", "TDuration": "Duration"}

ATOMS = [  # (label, vtl, coq, is_column)
    ("col:Integer", "Me_i", '(CCol "Me_i")'), ("col:Number", "Me_n", '(CCol "Me_n")'), ("col:String", "Me_s", '(CCol "Me_s")'),
    ("col:Boolean", "Me_b", '(CCol "Me_b")'),
    ("lit:Integer", "3", "(CLit (VInt 3))"), ("lit:Number", "2.5", "(CLit (VNum (5 # 2)))"), ("lit:String", '"ab"', '(CLit (VStr "ab"))'),
    ("lit:Boolean", "true", "(CLit (VBool true))"), ("lit:Null", "null", "(CLit VNull)"),
]
BINOPS = [("+", "Add", "{a} + {b}"), ("-", "Sub", "{a} - {b}"), ("*", "Mul", "{a} * {b}"), ("/", "Div", "{a} / {b}"),
          ("mod", "Mod", "mod({a}, {b})"), ("power", "Power", "power({a}, {b})"),
          ("=", "Eq", "{a} = {b}"), ("<>", "Neq", "{a} <> {b}"), (">", "Gt", "{a} > {b}"), (">=", "Ge", "{a} >= {b}"), ("<", "Lt", "{a} < {b}"),
          ("<=", "Le", "{a} <= {b}"), ("and", "And", "{a} and {b}"), ("or", "Or", "{a} or {b}"), ("xor", "Xor", "{a} xor {b}"),
          ("||", "Concat", "{a} || {b}")]
UNOPS = [("neg", "Neg", "-{a}"), ("pos", "Pos", "+{a}"), ("not", "Not", "not {a}"), ("abs", "Abs", "abs({a})"), ("ceil", "Ceil", "ceil({a})"),
         ("floor", "Floor", "floor({a})"), ("isnull", "IsNull", "isnull({a})"), ("length", "Len", "length({a})"), ("trim", "Trim", "trim({a})"),
         ("ltrim", "Ltrim", "ltrim({a})"), ("rtrim", "Rtrim", "rtrim({a})"), ("upper", "Upper", "upper({a})"), ("lower", "Lower", "lower({a})")]
SETS = [("Integer", "{1, 3}", "[VInt 1; VInt 3]"), ("Number", "{1.5, 2.5}", "[VNum (3 # 2); VNum (5 # 2)]"),
        ("String", '{"ab", "c"}', '[VStr "ab"; VStr "c"]'), ("Boolean", "{true}", "[VBool true]")]


def expressions():
    """[(constructor label, operand labels, vtl, coq)] — the whole depth-1 language"""
    out = []
    for (_, cn, fmt), a, b in itertools.product(BINOPS, ATOMS, ATOMS):
        out.append((f"CBin {cn}", (a[0], b[0]), fmt.format(a=a[1], b=b[1]), f"(CBin {cn} {a[2]} {b[2]})"))
    for (_, cn, fmt), a in itertools.product(UNOPS, ATOMS):
        out.append((f"CUn {cn}", (a[0],), fmt.format(a=a[1]), f"(CUn {cn} {a[2]})"))
    for c, t, e in itertools.product(ATOMS, ATOMS, ATOMS):
        if c[0].startswith("col:"):   # a literal condition is evaluated at scalar level (another code path, outside the judgement)
            out.append(("CIf", (c[0], t[0], e[0]), f"if {c[1]} then {t[1]} else {e[1]}", f"(CIf {c[2]} {t[2]} {e[2]})"))
        out.append(("CBetween", (c[0], t[0], e[0]), f"between({c[1]}, {t[1]}, {e[1]})", f"(CBetween {c[2]} {t[2]} {e[2]})"))
    for a, b in itertools.product(ATOMS, ATOMS):
        out.append(("CNvl", (a[0], b[0]), f"nvl({a[1]}, {b[1]})", f"(CNvl {a[2]} {b[2]})"))
    for a, (sn, sv, sc) in itertools.product(ATOMS, SETS):
        out.append(("CIn", (a[0], "set:" + sn), f"{a[1]} in {sv}", f"(CIn {a[2]} {sc})"))
        out.append(("CNotIn", (a[0], "set:" + sn), f"{a[1]} not_in {sv}", f"(CNotIn {a[2]} {sc})"))
    for a in ATOMS:
        out.append(("CRound None", (a[0],), f"round({a[1]})", f"(CRound {a[2]} None)"))
        out.append(("CRound Some", (a[0],), f"round({a[1]}, 1)", f"(CRound {a[2]} (Some 1%Z))"))
        out.append(("CTrunc None", (a[0],), f"trunc({a[1]})", f"(CTrunc {a[2]} None)"))
        out.append(("CTrunc Some", (a[0],), f"trunc({a[1]}, 1)", f"(CTrunc {a[2]} (Some 1%Z))"))
        out.append(("CSubstr", (a[0],), f"substr({a[1]}, 1, 2)", f"(CSubstr {a[2]} (Some 1%Z) (Some 2%Z))"))
    return out


COMPS = [("Id_1", "Integer", "Identifier", False), ("Me_i", "Integer", "Measure", True), ("Me_n", "Number", "Measure", True),
         ("Me_s", "String", "Measure", True), ("Me_b", "Boolean", "Measure", True)]
ROWS = [(1, 3, Fraction(5, 2), "ab", True), (2, None, Fraction(-7, 4), "", False), (3, -2, None, " Xy ", None), (4, 0, Fraction(0), None, True),
        (5, None, None, None, None)]


def structs():
    return engine.structures(engine.ds_struct("DS_1", COMPS))


def frame():
    return pd.DataFrame({c[0]: pd.Series([float(r[i]) if isinstance(r[i], Fraction) else r[i] for r in ROWS], dtype="object") for i, c in enumerate(COMPS)})


def model_types(exprs, tag="typetie"):
    """[(code type or None, spec type or None)] via one coq_eval"""
    res = coq_eval(HEADER, [f"(ctype_code {TENV} {c}, ctype_spec {TENV} {c}, ctype_strict {TENV} {c})" for _, _, _, c in exprs], tag)
    out = []
    for r in res:
        def ty(x):
            if x == "None" or x == ("None",) or x is None:
                return None
            s = str(x)
            m = re.search(r"T[A-Za-z]+", s)
            return TYNAME.get(m.group(0)) if m else None
        out.append((ty(r[0][0]), ty(r[0][1]), ty(r[1])) if isinstance(r[0], tuple) and len(r) == 2 else (ty(r[0]), ty(r[1]), ty(r[2])))
    return out


def engine_type_one(vtl, st):
    r = engine.semantic_case(f"DS_r <- DS_1[calc Me_9 := {vtl}];", st)
    if not r["ok"]:
        return ("ERR", r["err"][1])
    c = [x for x in r["datasets"]["DS_r"] if x[0] == "Me_9"]
    return ("OK", c[0][2]) if c else ("ERR", "no-Me_9")


def engine_types_batch(vtls, st):
    """types of many expressions expected to be accepted: one calc clause; on failure falls back to halves"""
    if not vtls:
        return []
    s = "DS_r <- DS_1[calc " + ", ".join(f"X_{i} := {v}" for i, v in enumerate(vtls)) + "];"
    r = engine.semantic_case(s, st)
    if r["ok"]:
        d = {x[0]: x[2] for x in r["datasets"]["DS_r"]}
        return [("OK", d.get(f"X_{i}")) for i in range(len(vtls))]
    if len(vtls) == 1:
        return [("ERR", r["err"][1])]
    h = len(vtls) // 2
    return engine_types_batch(vtls[:h], st) + engine_types_batch(vtls[h:], st)


def deeper(rng, base, n):
    """n expressions whose operands are accepted depth-1 expressions (parenthesised) or atoms: the judgement is compositional, this
    samples the compositions (scalar sub-expressions, nested conditionals, promoted operands of promoted operands)"""
    pool = [(l, v, c) for l, o, v, c in base] + [(a[0], a[1], a[2]) for a in ATOMS] * 20
    out = []
    for _ in range(n):
        k = rng.choice(["bin", "bin", "bin", "un", "if", "nvl", "between", "in", "round"])
        a, b, d = (rng.choice(pool) for _ in range(3))
        pa, pb, pd_ = (f"({x[1]})" for x in (a, b, d))
        if k == "bin":
            _, cn, fmt = rng.choice(BINOPS)
            out.append((f"deep:CBin {cn}", (a[0], b[0]), fmt.format(a=pa, b=pb), f"(CBin {cn} {a[2]} {b[2]})"))
        elif k == "un":
            _, cn, fmt = rng.choice(UNOPS)
            out.append((f"deep:CUn {cn}", (a[0],), fmt.format(a=pa), f"(CUn {cn} {a[2]})"))
        elif k == "if":
            c0 = rng.choice([x for x in pool if "col:" in x[0] or "Col" in x[2]])
            out.append(("deep:CIf", (c0[0], a[0], b[0]), f"if ({c0[1]}) then {pa} else {pb}", f"(CIf {c0[2]} {a[2]} {b[2]})"))
        elif k == "nvl":
            out.append(("deep:CNvl", (a[0], b[0]), f"nvl({pa}, {pb})", f"(CNvl {a[2]} {b[2]})"))
        elif k == "between":
            out.append(("deep:CBetween", (a[0], b[0], d[0]), f"between({pa}, {pb}, {pd_})", f"(CBetween {a[2]} {b[2]} {d[2]})"))
        elif k == "in":
            sn, sv, sc = rng.choice(SETS)
            out.append(("deep:CIn", (a[0], "set:" + sn), f"{pa} in {sv}", f"(CIn {a[2]} {sc})"))
        else:
            out.append(("deep:CRound Some", (a[0],), f"round({pa}, 1)", f"(CRound {a[2]} (Some 1%Z))"))
    return out


def run(ctx, quick):
    st = structs()
    ex = expressions()
    mt0 = model_types(ex)
    base_ok = [e for e, m in zip(ex, mt0) if m[0]]
    ex = ex + deeper(ctx.rng, base_ok, 150 if quick else 3000)
    mt = mt0 + model_types(ex[len(mt0):], "typetie_d")
    hist = {"expressions": len(ex), "accepted_by_model": sum(1 for m in mt if m[0]), "rejected_by_model": sum(1 for m in mt if not m[0])}
    acc = [i for i, m in enumerate(mt) if m[0]]
    rej = [i for i, m in enumerate(mt) if not m[0]]
    if quick:
        rej = ctx.rng.sample(rej, min(120, len(rej)))
    eng = {}
    B = 40
    for k in range(0, len(acc), B):
        ids = acc[k:k + B]
        for i, t in zip(ids, engine_types_batch([ex[i][2] for i in ids], st)):
            eng[i] = t
    for i in rej:
        eng[i] = engine_type_one(ex[i][2], st)
    mism = 0
    for i, t in eng.items():
        label, ops, vtl, coq = ex[i]
        ctx.count(("type", vtl))
        want = mt[i][0]
        ok = (t[0] == "OK" and want == t[1]) or (t[0] == "ERR" and want is None)
        if not ok:
            mism += 1
            if t == ("ERR", "ValueError") and label.startswith("deep:") and "nvl(" in vtl:
                ctx.violation("type-rule:raw-ValueError:CNvl:deep",
                              f"calc Me_9 := {vtl}: semantic_analysis() raises a raw ValueError (nvl with a scalar first operand and a component second operand inside)", {"expr": vtl, "coq": coq})
                continue
            if t == ("ERR", "ValueError") and label == "CNvl" and ops[0].startswith("lit:") and ops[1].startswith("col:"):
                ctx.violation("type-rule:raw-ValueError:CNvl:scalar-left-component-right",
                              f"calc Me_9 := {vtl}: semantic_analysis() raises a raw ValueError instead of a SemanticError", {"expr": vtl, "coq": coq})
                continue
            ctx.violation(f"type-rule:{label}:{'/'.join(ops)}",
                          f"calc Me_9 := {vtl}: semantic_analysis() gives {t}, the typing judgement ctype_code gives {want}",
                          {"expr": vtl, "coq": coq, "engine": list(t), "ctype_code": want, "ctype_spec": mt[i][1]})
    hist["type_mismatches"] = mism
    hist["rejected_checked"] = len(rej)
    # ---- values: every accepted expression evaluated on data; values must inhabit the SPEC type and equal ceval
    ok_ids = [i for i in acc if eng.get(i, ("ERR",))[0] == "OK" and not any(k in ex[i][3] for k in ("Mod", "Power"))]   # mod / power: outside the value model
    if quick:
        ok_ids = ctx.rng.sample(ok_ids, min(250, len(ok_ids)))
    df = frame()
    rows_coq = coq_list([f"([{G.V.to_val(r[0], 'Integer')}], [{'; '.join(G.V.to_val(v, t[1]) for v, t in zip(r[1:], COMPS[1:]))}])" for r in ROWS])
    env = f'[("DS_1", mkD ["Id_1"] ["Me_i"; "Me_n"; "Me_s"; "Me_b"] {rows_coq})]'
    vals_model = coq_eval(HEADER, [f'match deval {env} (DKeep (DCalc (DVar "DS_1") [("Me_9", {ex[i][3]})]) ["Me_9"]) with Ok d => Ok (map (fun r => (fst r, snd r)) (d_rows d)) | Err c => Err c end'
                                   for i in ok_ids], "typetie_v")
    vh = {"runs": 0, "engine_errors": {}, "value_mismatches": 0, "ill_typed_values": 0}
    import exprk
    for i, mv in zip(ok_ids, vals_model):
        label, ops, vtl, coq = ex[i]
        r = engine.run_case(f"DS_r <- DS_1[calc Me_9 := {vtl}][keep Me_9];", st, {"DS_1": df})
        vh["runs"] += 1
        ctx.count(("value", vtl))
        spec_t = mt[i][1]
        if not r["ok"]:
            code = r["err"][1]
            vh["engine_errors"][str(code)] = vh["engine_errors"].get(str(code), 0) + 1
            if mv[0] == "Err" and (mv[1][1] if isinstance(mv[1], tuple) else str(mv[1])) == code:
                continue
            fam = ("boolean-promoted-to-string" if mt[i][2] is None else
                   "null-operand-incompatible-bounds" if ((label == "CBetween" and ops[0] == "lit:Null") or
                                                          (label.startswith("deep:") and "between(null" in vtl.replace("(null)", "null"))) else "other")
            if label.startswith("deep:") and fam != "other":
                label = "deep"
            ctx.violation(f"well-typed-fails:{fam}:{label}" + ("" if fam != "other" else ":" + "/".join(ops)),
                          f"calc Me_9 := {vtl} is accepted by semantic analysis (type {eng[i][1]}) but run() fails with {r['err']} {r['msg'][:140]}; "
                          f"the model evaluates it to {str(mv)[:120]}", {"expr": vtl, "coq": coq, "engine_error": list(r["err"]), "model": str(mv)[:400]})
            continue
        d = r["datasets"]["DS_r"]
        et = [c[2] for c in d["comps"] if c[0] == "Me_9"][0]
        got = {row[0]: row[1] for row in d["rows"]}
        if mv[0] == "Err":
            if mt[i][2] is None:   # typable only through the Boolean -> String promotion, which the value model does not perform
                ctx.violation("value:boolean-promoted-to-string:" + ("deep" if label.startswith("deep:") else label),
                              f"calc Me_9 := {vtl}: the engine returns values for an expression typable only through Boolean -> String; the value model has no such coercion",
                              {"expr": vtl, "coq": coq, "engine": str(got)[:300]})
                continue
            ctx.violation(f"value:{label}:{'/'.join(ops)}", f"calc Me_9 := {vtl}: engine returns values, model gives Err {mv[1]}",
                          {"expr": vtl, "coq": coq, "engine": str(got), "model": str(mv)})
            continue
        want = {}
        for k, m in mv[1]:
            mvv = G.V.from_val(m[0])
            if spec_t == "String" and isinstance(mvv, bool):      # a Boolean promoted to String keeps its representation in the model
                want[G.V.from_val(k[0])] = "True" if mvv else "False"
                continue
            want[G.V.from_val(k[0])] = exprk.canon_model_val(m[0], spec_t if spec_t != "Null" else et)
        gotc = {k: exprk.canon_engine_val(v, spec_t if spec_t != "Null" else et) for k, v in got.items()}
        bad_ty = [(k, v) for k, v in want.items() if isinstance(v, tuple)]
        if bad_ty:
            vh["ill_typed_values"] += 1
            ctx.violation(f"model-value-outside-spec-type:{label}:{'/'.join(ops)}", f"{vtl}: model value {bad_ty[:2]} does not inhabit {spec_t}",
                          {"expr": vtl, "coq": coq})
            continue
        if gotc != want:
            vh["value_mismatches"] += 1
            fam = "boolean-promoted-to-string" if mt[i][2] is None else "other"
            if label.startswith("deep:") and fam != "other":
                label = "deep"
            ctx.violation(f"value:{fam}:{label}" + ("" if fam != "other" else ":" + "/".join(ops)),
                          f"calc Me_9 := {vtl} (engine type {et}, specification type {spec_t}): engine {gotc}, model {want}",
                          {"expr": vtl, "coq": coq, "engine": str(gotc), "model": str(want), "engine_type": et, "spec_type": spec_t})
    hist["values"] = vh
    return hist
