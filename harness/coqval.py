"""Conversions between canonical Python values (engine.canon_value form) and Gallina `val` terms (Base/Val.v)."""
from __future__ import annotations

from fractions import Fraction
from typing import Any, List, Sequence, Tuple

from common import coq_list, coq_string, coq_z


def to_val(v: Any, typ: str) -> str:
    """v: None | int | float/Fraction/'p/q' | str | bool, typ: VTL type name of the column"""
    if v is None:
        return "VNull"
    if typ == "Integer":
        return f"(VInt {coq_z(int(v))})"
    if typ == "Number":
        f = v if isinstance(v, Fraction) else Fraction(v) if not isinstance(v, str) else Fraction(v)
        return f"(VNum ({coq_z(f.numerator)} # {f.denominator}))"
    if typ == "Boolean":
        return f"(VBool {'true' if v else 'false'})"
    return f"(VStr {coq_string(str(v))})"


def to_row(idvals: Sequence[Any], idtypes: Sequence[str], mvals: Sequence[Any], mtypes: Sequence[str]) -> str:
    return ("(" + coq_list([to_val(v, t) for v, t in zip(idvals, idtypes)]) + ", " +
            coq_list([to_val(v, t) for v, t in zip(mvals, mtypes)]) + ")")


def from_val(t: Any) -> Any:
    """parsed Coq term -> canonical python value (Numbers as reduced 'p/q' strings)"""
    if t == "VNull":
        return None
    if isinstance(t, tuple):
        tag = t[0]
        if tag == "VInt":
            return int(t[1])
        if tag == "VNum":
            q = t[1]
            f = Fraction(q[1], q[2]) if isinstance(q, tuple) and q[0] == "Q" else Fraction(q)
            return f"{f.numerator}/{f.denominator}"
        if tag == "VStr":
            return t[1][1] if isinstance(t[1], tuple) else str(t[1])
        if tag == "VBool":
            return bool(t[1])
    raise ValueError(f"not a val: {t!r}")


def from_row(r: Any) -> Tuple:
    k, m = r
    return tuple(from_val(x) for x in k) + tuple(from_val(x) for x in m)


def sort_rows(rows: List[Tuple]) -> List[Tuple]:
    return sorted(rows, key=lambda r: tuple((x is None, type(x).__name__, str(x)) for x in r))


def canon_py(v: Any, typ: str) -> Any:
    """python value as generated -> the canonical form engine.canon_dataset produces for a column of type typ"""
    if v is None:
        return None
    if typ == "Number":
        f = Fraction(v) if not isinstance(v, Fraction) else v
        f = f.limit_denominator(10 ** 6)
        return f"{f.numerator}/{f.denominator}"
    if typ == "Integer":
        return int(v)
    if typ == "Boolean":
        return bool(v)
    return str(v)
