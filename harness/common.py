"""Shared plumbing for every property check: paths, Ctx (obligations, coverage, violations,
known findings, evidence), and the Coq build/evaluate helpers.

Run under /venv/bin/python with PYTHONPATH=/verif/harness:/repo/src (bin/check sets this up).
"""
from __future__ import annotations

import fcntl
import hashlib
import json
import os
import random
import re
import subprocess
import sys
import time
from pathlib import Path
from typing import Any, Dict, List, Optional, Sequence, Tuple

VERIF = Path(__file__).resolve().parent.parent
REPO = Path(os.environ.get("VERIF_REPO", "/repo"))
SRC = REPO / "src" / "vtlengine"
COQ = VERIF / "coq"
GEN = COQ / "theories" / "Gen"
CASES = COQ / "cases"
EVID = VERIF / "evidence"
REPLAYS = VERIF / "replays"
CORPUS = VERIF / "corpus"
KNOWN = VERIF / "known_findings.json"
GUARD = "MEANINGFUL_DATA_VTLENGINE_VERIF"
NCPU = min(16, os.cpu_count() or 4)

TRUSTED_BASE_COMMON = [
    "Coq 8.16.1 kernel (coqc full .vo build, no -vos); vm_compute bytecode VM for finite sweeps and "
    "case evaluation; no native_compute; no -type-in-type; no guard/positivity/universe checks disabled",
    "no Axiom/Parameter/Admitted of ours; Print Assumptions output of every property theorem is captured "
    "on each run and compared with the per-property allow-list (stdlib axioms only)",
    "the Python harness: translators writing coq/theories/Gen/*.v, case writers, the parser of Coq's "
    "printed terms, canonicalisers and generators (harness/*.py)",
]


def sh(cmd: Sequence[str] | str, timeout: int = 600, cwd: Optional[Path] = None, env=None,
       shell: bool = False) -> Tuple[int, str]:
    try:
        p = subprocess.run(cmd, cwd=cwd, env=env, shell=shell, stdout=subprocess.PIPE,
                           stderr=subprocess.STDOUT, timeout=timeout, text=True, errors="replace")
        return p.returncode, p.stdout
    except subprocess.TimeoutExpired as e:
        out = e.stdout if isinstance(e.stdout, str) else (e.stdout or b"").decode("utf8", "replace")
        return 124, (out or "") + f"\n[timeout after {timeout}s]"


class CoqLock:
    """Serialises `make` in /verif/coq between concurrently running checks."""

    def __enter__(self):
        self.f = open(COQ / ".build.lock", "w")
        fcntl.flock(self.f, fcntl.LOCK_EX)
        return self

    def __exit__(self, *a):
        fcntl.flock(self.f, fcntl.LOCK_UN)
        self.f.close()


def write_if_changed(path: Path, text: str) -> bool:
    path.parent.mkdir(parents=True, exist_ok=True)
    if path.exists() and path.read_text() == text:
        return False
    path.write_text(text)
    return True


def coq_string(s: str) -> str:
    """Coq string literal (bytes of the UTF-8 encoding; Coq's string is a byte list)."""
    return '"' + s.replace('"', '""') + '"'


def coq_z(n: int) -> str:
    return f"({n})%Z" if n < 0 else f"{n}%Z"


def coq_list(items: Sequence[str]) -> str:
    return "[" + "; ".join(items) + "]"


def coq_bool(b: bool) -> str:
    return "true" if b else "false"


def coq_opt(x: Optional[str]) -> str:
    return "None" if x is None else f"(Some {x})"


def ensure_makefile() -> None:
    proj = COQ / "_CoqProject"
    files = sorted(str(p.relative_to(COQ)) for p in (COQ / "theories").rglob("*.v"))
    text = "-Q theories VTL\n-arg -w -arg -notation-overridden,-deprecated-hint-without-locality," \
           "-deprecated-instance-without-locality,-ambiguous-paths,-deprecated-syntactic-definition\n" + "\n".join(files) + "\n"
    changed = write_if_changed(proj, text)
    if changed or not (COQ / "Makefile").exists():
        rc, out = sh(["coq_makefile", "-f", "_CoqProject", "-o", "Makefile"], cwd=COQ)
        if rc != 0:
            raise RuntimeError("coq_makefile failed: " + out)


def coq_make(targets: Sequence[str], timeout: int = 1500, force: Sequence[str] = ()) -> Tuple[bool, str]:
    """Full .vo build of the given targets (paths relative to coq/), under flock and shell timeout.
    `force`: .vo files removed first so that their output (Print Assumptions) is produced again."""
    with CoqLock():
        ensure_makefile()
        for f in force:
            for suf in (".vo", ".vok", ".vos", ".glob"):
                p = COQ / (f[:-3] + suf if f.endswith(".vo") else f + suf)
                if p.exists():
                    p.unlink()
        rc, out = sh(["timeout", str(timeout), "make", f"-j{NCPU}", *targets], cwd=COQ, timeout=timeout + 30)
        return rc == 0, out


# ---------------------------------------------------------------- parsing Coq's printed terms
_TOK = re.compile(r'\s*(?:(\"(?:[^\"]|\"\")*\")|(\{\||\|\}|:=|[\[\]\(\);,#])|(-?0x[0-9a-fA-F]+(?:\.[0-9a-fA-F]+)?(?:p[+-]?\d+)?|-?\d+(?:\.\d+)?(?:e[+-]?\d+)?)|(%[A-Za-z_]+)|([A-Za-z_][A-Za-z0-9_\.\']*))')


def _tokens(s: str) -> List[Tuple[str, str]]:
    out, i = [], 0
    s = s.strip()
    while i < len(s):
        m = _TOK.match(s, i)
        if not m:
            raise ValueError(f"cannot tokenise Coq output at: {s[i:i+40]!r}")
        i = m.end()
        if m.group(1) is not None:
            out.append(("str", m.group(1)[1:-1].replace('""', '"')))
        elif m.group(2) is not None:
            out.append(("p", m.group(2)))
        elif m.group(3) is not None:
            out.append(("int", m.group(3)))
        elif m.group(4) is not None:
            continue  # scope suffix
        else:
            out.append(("id", m.group(5)))
    return out


def parse_coq_term(s: str) -> Any:
    """Parses constructor applications, lists, tuples, numerals, strings, `a # b` rationals and records.
    Constructors become tuples ('Name', arg, …) or the bare string 'Name' when nullary;
    true/false/None/tt map to Python; `Some x` -> ('Some', x)."""
    toks = _tokens(s)
    pos = 0

    def peek():
        return toks[pos] if pos < len(toks) else ("eof", "")

    def atom():
        nonlocal pos
        k, v = peek()
        if k == "int":
            pos += 1
            if "0x" in v:  # hexadecimal rational notation
                from fractions import Fraction
                neg = v.startswith("-")
                body = v.lstrip("-")[2:]
                exp = 0
                if "p" in body:
                    body, e = body.split("p")
                    exp = int(e)
                ip, _, fp = body.partition(".")
                f = Fraction(int(ip or "0", 16)) + (Fraction(int(fp, 16), 16 ** len(fp)) if fp else 0)
                f = f * (Fraction(2) ** exp)
                f = -f if neg else f
                return ("Q", f.numerator, f.denominator)
            if "." in v or "e" in v:  # Coq prints some rationals in decimal notation
                from fractions import Fraction
                f = Fraction(v)
                return ("Q", f.numerator, f.denominator)
            return int(v)
        if k == "str":
            pos += 1
            return ("str", v)
        if k == "id":
            pos += 1
            return {"true": True, "false": False, "None": None}.get(v, v)
        if (k, v) == ("p", "["):
            pos += 1
            items = []
            if peek() == ("p", "]"):
                pos += 1
                return items
            while True:
                items.append(expr())
                k2, v2 = peek()
                pos += 1
                if v2 == "]":
                    return items
                if v2 != ";":
                    raise ValueError("list syntax")
        if (k, v) == ("p", "("):
            pos += 1
            items = [expr()]
            while peek() == ("p", ","):
                pos += 1
                items.append(expr())
            if peek() != ("p", ")"):
                raise ValueError(f"expected ) got {peek()}")
            pos += 1
            if len(items) == 1:
                return items[0]
            # Coq prints nested pairs flat: (a, b, c) = ((a, b), c)
            return tuple(items)
        if (k, v) == ("p", "{|"):
            pos += 1
            rec = {}
            while peek() != ("p", "|}"):
                name = peek()[1]
                pos += 1
                if peek() != ("p", ":="):
                    raise ValueError("record syntax")
                pos += 1
                rec[name] = expr()
                if peek() == ("p", ";"):
                    pos += 1
            pos += 1
            return rec
        raise ValueError(f"unexpected token {peek()}")

    def app():
        nonlocal pos
        head = atom()
        args = []
        while True:
            k, v = peek()
            if k in ("int", "str", "id") or (k == "p" and v in ("[", "(", "{|")):
                args.append(atom())
            else:
                break
        if args:
            if not isinstance(head, str):
                raise ValueError("application of non-constructor")
            return (head, *args)
        return head

    def expr():
        nonlocal pos
        left = app()
        if peek() == ("p", "#"):
            pos += 1
            right = app()
            return ("Q", left, right)
        return left

    r = expr()
    if pos != len(toks):
        raise ValueError(f"trailing tokens at {toks[pos:pos+5]}")
    return r


def coq_eval(header: str, exprs: Sequence[str], tag: str, shard: int = 400, timeout: int = 900) -> List[Any]:
    """Evaluates each Gallina expression with vm_compute inside Coq (one `Eval` per shard, results as one
    list so that a shard prints one term) and returns the parsed values in order."""
    CASES.mkdir(exist_ok=True)
    tag = f"{tag}_p{os.getpid()}"          # concurrent runs of one property must not share files
    now = time.time()
    for old in CASES.glob("*"):           # leftovers of earlier / crashed runs
        try:
            if old.name.startswith(tag + "_") or now - old.stat().st_mtime > 6 * 3600:
                old.unlink()
        except OSError:
            pass
    files = []
    for si in range(0, len(exprs), shard):
        name = f"{tag}_{si // shard:04d}"
        body = header + "\nSet Printing Width 100000.\nSet Printing Depth 10000000.\n"
        body += "Definition cases := " + coq_list(exprs[si:si + shard]) + ".\n"
        # print rationals as `p # q` (never in decimal/hexadecimal number notation, never as bare integers)
        body += "Eval vm_compute in cases.\n"
        (CASES / f"{name}.v").write_text(body)
        files.append(name)
    if not files:
        return []
    cmd = ("printf '%s\\n' " + " ".join(files) +
           f" | xargs -P{NCPU} -I{{}} sh -c 'ulimit -s unlimited; timeout {timeout} coqc -Q ../theories VTL {{}}.v > {{}}.out 2>&1 || echo FAILED >> {{}}.out'")
    rc, out = sh(cmd, cwd=CASES, shell=True, timeout=timeout * (1 + len(files) // NCPU) + 60)
    results: List[Any] = []
    for name in files:
        txt = (CASES / f"{name}.out").read_text()
        if "FAILED" in txt.splitlines()[-1:] or "Error" in txt:
            raise RuntimeError(f"coqc failed on cases/{name}.v:\n{txt[-2000:]}")
        m = re.search(r"^\s*= (.*?)^\s*: list", txt, re.S | re.M)
        if not m:
            raise RuntimeError(f"no result in cases/{name}.out:\n{txt[-1000:]}")
        vals = parse_coq_term(m.group(1))
        results.extend(vals)
    if len(results) != len(exprs):
        raise RuntimeError(f"coq_eval: {len(results)} results for {len(exprs)} cases")
    for name in files:
        for f in CASES.glob(f"{name}.*"):
            try:
                f.unlink()
            except OSError:
                pass
    return results


# ---------------------------------------------------------------- Ctx
class Ctx:
    def __init__(self, pid: str, tier: str):
        self.pid = pid
        self.tier = tier
        self.seed = int(os.environ.get("VERIF_SEED", "0") or 0)
        self.rng = random.Random(self.seed * 1000003 + int(hashlib.sha1(pid.encode()).hexdigest()[:6], 16))
        self.t0 = time.time()
        self.obligations: List[Dict[str, Any]] = []
        self.cov: Dict[str, Any] = {"samples": []}
        self.assumptions: List[str] = []
        self.trusted: List[str] = list(TRUSTED_BASE_COMMON)
        self.n_viol = 0
        self.known_hits: List[str] = []
        self.log_lines: List[str] = []
        self.evaluations = 0
        self.nontrivial: set = set()
        self.known = json.loads(KNOWN.read_text()) if KNOWN.exists() else {"findings": [], "fixed": []}
        for extra in sorted((VERIF / "findings.d").glob("*.json")):  # per-property finding files (same format)
            try:
                d = json.loads(extra.read_text())
                self.known.setdefault("findings", []).extend(d.get("findings", []))
            except Exception as e:  # a malformed file must not silence anything
                print(f"[warn] {extra}: {e}", flush=True)

    def log(self, *a):
        msg = " ".join(str(x) for x in a)
        self.log_lines.append(msg)
        print(f"[{self.pid} {time.time() - self.t0:6.1f}s] {msg}", flush=True)

    # ---- obligations
    def oblige(self, name: str, ok: bool, detail: str = "") -> bool:
        self.obligations.append({"name": name, "ok": bool(ok), "detail": detail[:600]})
        if not ok:
            self.log(f"OBLIGATION FAILED: {name}: {detail[:300]}")
        return ok

    def sample(self, s: Any, limit: int = 8):
        if len(self.cov["samples"]) < limit:
            self.cov["samples"].append(s)

    def count(self, key: Any = None, n: int = 1):
        self.evaluations += n
        if key is not None:
            self.nontrivial.add(key if isinstance(key, (str, int, tuple)) else json.dumps(key, sort_keys=True, default=str))

    # ---- proofs
    def prove(self, props_file: str, allow_axioms: Sequence[str] = (), timeout: int = 1500,
              extra_targets: Sequence[str] = ()) -> bool:
        """Rebuilds coq/theories/Props/<props_file>.vo and its closure; records one obligation per
        Theorem/Lemma/Example/Corollary stated in the Props file, and checks Print Assumptions output."""
        rel = f"theories/Props/{props_file}.vo"
        src = (COQ / "theories" / "Props" / f"{props_file}.v").read_text()
        names = re.findall(r"^\s*(?:Theorem|Lemma|Example|Corollary|Fact)\s+([A-Za-z0-9_']+)", src, re.M)
        ok, out = coq_make([rel, *extra_targets], timeout=timeout, force=[rel])
        self.cov.setdefault("checker_cmd", "")
        self.cov["checker_cmd"] = (self.cov["checker_cmd"] + " ; " if self.cov["checker_cmd"] else "") + \
            f"cd /verif/coq && coq_makefile -f _CoqProject -o Makefile && make {rel}   # coqc full compile, kernel-checked Qed"
        if not ok:
            m = re.search(r'File "\./([^"]+)", line (\d+)', out)
            where = "?"
            if m:
                f, ln = m.group(1), int(m.group(2))
                try:
                    lines = (COQ / f).read_text().splitlines()[:ln]
                    ths = [re.match(r"\s*(?:Theorem|Lemma|Example|Corollary|Fact|Definition|Fixpoint)\s+([A-Za-z0-9_']+)", l) for l in lines]
                    ths = [t.group(1) for t in ths if t]
                    where = f"{f}:{ln} (in {ths[-1] if ths else '?'})"
                except Exception:
                    where = f"{f}:{ln}"
            self.broken_where = where
            tail = "\n".join(out.strip().splitlines()[-25:])
            for n in names:
                self.oblige(f"{props_file}.{n}", False, f"build broke at {where}")
            self.build_log = tail
            self.log("coq build failed at", where, "\n" + tail)
            return False
        # Print Assumptions blocks
        closed = len(re.findall(r"Closed under the global context", out))
        axioms = sorted(set(re.findall(r"^([A-Za-z_][A-Za-z0-9_\.']*) :", out, re.M)))
        bad = [a for a in axioms if a.split(".")[-1] not in allow_axioms and a not in allow_axioms]
        n_pa = len(re.findall(r"^\s*Print Assumptions", src, re.M))
        for n in names:
            self.oblige(f"{props_file}.{n}", True, "Qed accepted by coqc")
        self.oblige(f"{props_file}: Print Assumptions within allow-list ({n_pa} printed, {closed} closed)",
                    not bad and (closed + (1 if axioms else 0)) >= 1 if n_pa else True,
                    "axioms outside the allow-list: " + ", ".join(bad) if bad else "")
        self.cov["axioms_reported"] = sorted(set(self.cov.get("axioms_reported", [])) | set(axioms))
        self.cov["theorems"] = list(self.cov.get("theorems", [])) + [n for n in names if n not in self.cov.get("theorems", [])]
        if self.tier == "thorough" and os.environ.get("VERIF_NO_COQCHK") != "1":
            # independent re-check of the compiled property file and everything it depends on
            rc, chk = sh(["timeout", "1500", "coqchk", "-silent", "-o", "-Q", "theories", "VTL", f"VTL.Props.{props_file}"], cwd=COQ, timeout=1600)
            tail = chk.strip().splitlines()[-25:]
            self.cov["coqchk"] = {"rc": rc, "tail": tail}
            self.oblige(f"coqchk -o VTL.Props.{props_file} (independent checker)", rc == 0, "\n".join(tail[-5:]))
        return not bad

    # ---- violations / findings
    def _known_key(self, key: str) -> Optional[Dict[str, Any]]:
        for f in self.known.get("findings", []):
            if f.get("property") == self.pid and f.get("key") == key:
                return f
        return None

    def violation(self, key: str, what: str, replay: Dict[str, Any], found_input: bool = True) -> None:
        """key: stable identifier of the failing input shape / call site (matched against known_findings.json)."""
        kf = self._known_key(key)
        if kf is not None:
            line = f"KNOWN-FINDING: property={self.pid} {kf.get('what', what)}"
            if line not in self.known_hits:
                self.known_hits.append(line)
                print(line, flush=True)
            return
        REPLAYS.mkdir(exist_ok=True)
        h = hashlib.sha1(json.dumps([key, what], default=str).encode()).hexdigest()[:10]
        path = REPLAYS / f"{self.pid}-{h}.json"
        replay = dict(replay)
        replay.update({"property": self.pid, "key": key, "what": what, "found_failing_input": found_input})
        path.write_text(json.dumps(replay, indent=1, default=str))
        self.n_viol += 1
        tail = "" if found_input else " no-failing-input-found"
        print(f"VIOLATION property={self.pid} replay={path}{tail}", flush=True)
        self.log("violation:", what[:400])

    # ---- evidence
    def finish(self) -> int:
        n_ob = len(self.obligations)
        n_ok = sum(1 for o in self.obligations if o["ok"])
        failed = [o for o in self.obligations if not o["ok"]]
        if failed and self.n_viol == 0:
            # an obligation broke and no concrete violation was reported by the property's search
            self.violation("broken-obligation:" + failed[0]["name"],
                           "proof obligation / tie no longer checks: " + "; ".join(o["name"] + " — " + o["detail"] for o in failed[:5]),
                           {"broken": failed, "build_log": getattr(self, "build_log", "")}, found_input=False)
        cov = dict(self.cov)
        cov.update({
            "obligations": max(n_ob, 0), "discharged": n_ok,
            "obligation_list": self.obligations,
            "trusted_base": self.trusted,
            "evaluations": self.evaluations, "distinct_nontrivial": len(self.nontrivial),
            "known_findings_hit": self.known_hits,
        })
        cov.setdefault("checker_cmd", "cd /verif/coq && make")
        cov.setdefault("rule", "see explanation")
        if not cov["samples"]:
            cov["samples"] = [o["name"] for o in self.obligations[:5]] or ["(none)"]
        ev = {"property_id": self.pid, "tier": self.tier, "seed": self.seed, "level": "proof",
              "coverage": cov, "assumptions": self.assumptions, "wall_s": round(time.time() - self.t0, 2),
              "violations": self.n_viol}
        EVID.mkdir(exist_ok=True)
        (EVID / f"{self.pid}.json").write_text(json.dumps(ev, indent=1, default=str) + "\n")
        self.log(f"obligations {n_ok}/{n_ob}, evaluations {self.evaluations}, distinct {len(self.nontrivial)}, "
                 f"violations {self.n_viol}, known {len(self.known_hits)}")
        return 1 if self.n_viol else 0
