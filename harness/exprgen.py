"""Type-directed generator of VTL scripts over the modelled subset, emitting in parallel the VTL text and the Gallina term
(Model/Expr.v: cexpr / dexpr).  Shapes of intermediate datasets (component names/types after the engine's renaming rules)
are learned from the engine's own semantic_analysis, so the generator never guesses a structure rule."""
from __future__ import annotations

from fractions import Fraction
from typing import Any, Dict, List, Optional, Tuple

import pandas as pd

import coqval as V
import engine
from common import coq_list, coq_opt, coq_string, coq_z

NUMERIC = ("Integer", "Number")
BASIC = ("Integer", "Number", "String", "Boolean")


# ------------------------------------------------------------------ literals
def lit(rng, typ, allow_null=True, nonzero=False):
    """(vtl, coq val term, python value)"""
    if allow_null and rng.random() < 0.08:
        return "null", "VNull", None
    if typ == "Integer":
        v = rng.choice([0, 1, 2, 3, 5, 7, 10, -1, -4, 100])
        if nonzero and v == 0:
            v = 2
        return (str(v) if v >= 0 else f"-{abs(v)}"), f"(VInt {coq_z(v)})", v
    if typ == "Number":
        f = Fraction(rng.randrange(-30, 31), 4)
        if nonzero and f == 0:
            f = Fraction(5, 2)
        txt = format(float(abs(f)), "g")
        if "." not in txt:
            txt += ".0"
        return (txt if f >= 0 else f"-{txt}"), f"(VNum ({coq_z(f.numerator)} # {f.denominator}))", f
    if typ == "Boolean":
        b = rng.random() < 0.5
        return ("true" if b else "false"), f"(VBool {'true' if b else 'false'})", b
    s = rng.choice(["a", "b", "ab", "Hello", " x ", "", "Q1", "zz top"])
    return f'"{s}"', f"(VStr {coq_string(s)})", s


def vals_coq(typ, values):
    return coq_list([V.to_val(v, typ) for v in values])


# ------------------------------------------------------------------ component expressions
BIN = {"+": "Add", "-": "Sub", "*": "Mul", "/": "Div", "=": "Eq", "<>": "Neq", ">": "Gt", ">=": "Ge", "<": "Lt", "<=": "Le",
       "and": "And", "or": "Or", "xor": "Xor", "||": "Concat"}
SETOP = {"union": "OUnion", "intersect": "OIntersect", "setdiff": "OSetdiff", "symdiff": "OSymdiff"}
UNF = {"abs": "Abs", "ceil": "Ceil", "floor": "Floor", "length": "Len", "trim": "Trim", "ltrim": "Ltrim", "rtrim": "Rtrim",
       "upper": "Upper", "lower": "Lower", "isnull": "IsNull", "not": "Not"}


class CG:
    """component-expression generator over a column environment {name: type}"""

    def __init__(self, rng, cols: Dict[str, str], risky_div=False, prefer=()):
        self.rng, self.cols, self.risky_div = rng, cols, risky_div
        self.prefer = [n for n in prefer if n in cols]   # components created earlier in the same clause chain
        self.hist: Dict[str, int] = {}

    def note(self, k):
        self.hist[k] = self.hist.get(k, 0) + 1

    def col_of(self, typ):
        c = [n for n, t in self.cols.items() if t == typ]
        p = [n for n in c if n in self.prefer]
        if p and self.rng.random() < 0.75:
            return self.rng.choice(p)
        return self.rng.choice(c) if c else None

    def using(self, col, want_bool):
        """an expression that certainly READS component `col`: a Boolean one (filter condition) or one of col's own type"""
        r, t = self.rng, self.cols[col]
        cc = f"(CCol {coq_string(col)})"
        self.note("uses-created")
        if want_bool:
            if t in NUMERIC:
                op = r.choice([">", ">=", "<", "<=", "=", "<>"])
                lt, lq, _ = lit(r, t, allow_null=False)
                e = (f"({col} {op} {lt})", f"(CBin {BIN[op]} {cc} (CLit {lq}))")
            elif t == "String":
                if r.random() < 0.5:
                    lt, lq, _ = lit(r, t, allow_null=False)
                    e = (f"({col} <> {lt})", f"(CBin Neq {cc} (CLit {lq}))")
                else:
                    e = (f"(length({col}) >= 1)", f"(CBin Ge (CUn Len {cc}) (CLit (VInt {coq_z(1)})))")
            else:
                e = r.choice([(col, cc), (f"(not {col})", f"(CUn Not {cc})"), (f"isnull({col})", f"(CUn IsNull {cc})")])
            if r.random() < 0.3:
                o = self.gen("Boolean", 1)
                op = r.choice(["and", "or"])
                e = (f"({e[0]} {op} {o[0]})", f"(CBin {BIN[op]} {e[1]} {o[1]})")
            return e
        if t in NUMERIC:
            op = r.choice(["+", "-", "*"])
            o = self.gen(t, 1)
            return (f"({col} {op} {o[0]})", f"(CBin {BIN[op]} {cc} {o[1]})")
        if t == "String":
            o = self.gen("String", 1)
            return (f"({col} || {o[0]})", f"(CBin Concat {cc} {o[1]})")
        o = self.gen("Boolean", 1)
        op = r.choice(["and", "or", "xor"])
        return (f"({col} {op} {o[0]})", f"(CBin {BIN[op]} {cc} {o[1]})")

    def leaf(self, typ):
        c = self.col_of(typ)
        if c is not None and self.rng.random() < 0.7:
            self.note("col")
            return c, f"(CCol {coq_string(c)})"
        t, q, _ = lit(self.rng, typ)
        self.note("lit")
        return t, f"(CLit {q})"

    def gen(self, typ, depth) -> Tuple[str, str]:
        r = self.rng
        if depth <= 0 or r.random() < 0.2:
            return self.leaf(typ)
        if typ in NUMERIC:
            choice = r.choice(["arith", "arith", "fn", "if", "nvl", "neg"] + (["len", "ceil", "roundi"] if typ == "Integer" else ["div", "round", "trunc", "mixed"]))
            if choice == "arith":
                op = r.choice(["+", "-", "*"])
                a, b = self.gen(typ, depth - 1), self.gen(typ, depth - 1)
                self.note(op)
                return f"({a[0]} {op} {b[0]})", f"(CBin {BIN[op]} {a[1]} {b[1]})"
            if choice == "mixed":
                op = r.choice(["+", "-", "*"])
                a, b = self.gen("Integer", depth - 1), self.gen("Number", depth - 1)
                if r.random() < 0.5:
                    a, b = b, a
                self.note(op + "mixed")
                return f"({a[0]} {op} {b[0]})", f"(CBin {BIN[op]} {a[1]} {b[1]})"
            if choice == "div":
                a = self.gen(r.choice(NUMERIC), depth - 1)
                if self.risky_div:
                    b = self.gen(r.choice(NUMERIC), depth - 1)
                else:
                    t, q, _ = lit(r, r.choice(NUMERIC), allow_null=False, nonzero=True)
                    b = (t, f"(CLit {q})")
                self.note("/")
                return f"({a[0]} / {b[0]})", f"(CBin Div {a[1]} {b[1]})"
            if choice == "fn":
                a = self.gen(typ, depth - 1)
                self.note("abs")
                return f"abs({a[0]})", f"(CUn Abs {a[1]})"
            if choice == "neg":
                a = self.gen(typ, depth - 1)
                self.note("neg")
                return f"(-{a[0]})", f"(CUn Neg {a[1]})"
            if choice == "len":
                a = self.gen("String", depth - 1)
                self.note("length")
                return f"length({a[0]})", f"(CUn Len {a[1]})"
            if choice == "ceil":
                f = r.choice(["ceil", "floor"])
                a = self.gen("Number", depth - 1)
                self.note(f)
                return f"{f}({a[0]})", f"(CUn {UNF[f]} {a[1]})"
            if choice == "roundi":
                f = r.choice(["round", "trunc"])
                a = self.gen("Number", depth - 1)
                self.note(f + "()")
                return f"{f}({a[0]})", f"({'CRound' if f == 'round' else 'CTrunc'} {a[1]} None)"
            if choice in ("round", "trunc"):
                n = r.choice([0, 1, 2])
                a = self.gen("Number", depth - 1)
                self.note(choice)
                return f"{choice}({a[0]}, {n})", f"({'CRound' if choice == 'round' else 'CTrunc'} {a[1]} (Some {coq_z(n)}))"
        if typ == "String":
            choice = r.choice(["concat", "fn", "substr", "if", "nvl"])
            if choice == "concat":
                a, b = self.gen("String", depth - 1), self.gen("String", depth - 1)
                self.note("||")
                return f"({a[0]} || {b[0]})", f"(CBin Concat {a[1]} {b[1]})"
            if choice == "fn":
                f = r.choice(["trim", "ltrim", "rtrim", "upper", "lower"])
                a = self.gen("String", depth - 1)
                self.note(f)
                return f"{f}({a[0]})", f"(CUn {UNF[f]} {a[1]})"
            if choice == "substr":
                a = self.gen("String", depth - 1)
                st, ln = r.choice([1, 2, 3]), r.choice([None, 0, 1, 2])
                self.note("substr")
                txt = f"substr({a[0]}, {st})" if ln is None else f"substr({a[0]}, {st}, {ln})"
                return txt, f"(CSubstr {a[1]} (Some {coq_z(st)}) {coq_opt(coq_z(ln) if ln is not None else None)})"
        if typ == "Boolean":
            choice = r.choice(["cmp", "cmp", "logic", "not", "isnull", "between", "in", "if", "nvl"])
            if choice == "cmp":
                t = r.choice(["Integer", "Number", "String", "num-mixed"])
                op = r.choice(["=", "<>", ">", ">=", "<", "<="])
                if t == "num-mixed":
                    a, b = self.gen("Integer", depth - 1), self.gen("Number", depth - 1)
                else:
                    a, b = self.gen(t, depth - 1), self.gen(t, depth - 1)
                self.note(op)
                return f"({a[0]} {op} {b[0]})", f"(CBin {BIN[op]} {a[1]} {b[1]})"
            if choice == "logic":
                op = r.choice(["and", "or", "xor"])
                a, b = self.gen("Boolean", depth - 1), self.gen("Boolean", depth - 1)
                self.note(op)
                return f"({a[0]} {op} {b[0]})", f"(CBin {BIN[op]} {a[1]} {b[1]})"
            if choice == "not":
                a = self.gen("Boolean", depth - 1)
                self.note("not")
                return f"(not {a[0]})", f"(CUn Not {a[1]})"
            if choice == "isnull":
                a = self.gen(r.choice(BASIC), depth - 1)
                self.note("isnull")
                return f"isnull({a[0]})", f"(CUn IsNull {a[1]})"
            if choice == "between":
                t = r.choice(["Integer", "Number"])
                a = self.gen(t, depth - 1)
                lo, hi = lit(r, t), lit(r, t)
                self.note("between")
                return f"between({a[0]}, {lo[0]}, {hi[0]})", f"(CBetween {a[1]} (CLit {lo[1]}) (CLit {hi[1]}))"
            if choice == "in":
                t = r.choice(["Integer", "String"])
                a = self.gen(t, depth - 1)
                ls = [lit(r, t, allow_null=False) for _ in range(r.choice([1, 2, 3]))]
                neg = r.random() < 0.4
                self.note("not_in" if neg else "in")
                return (f"({a[0]} {'not_in' if neg else 'in'} {{{', '.join(x[0] for x in ls)}}})",
                        f"({'CNotIn' if neg else 'CIn'} {a[1]} {coq_list([x[1] for x in ls])})")
        # shared: if / nvl
        if self.rng.random() < 0.5:
            c, t, e = self.gen("Boolean", depth - 1), self.gen(typ, depth - 1), self.gen(typ, depth - 1)
            self.note("if")
            return f"(if {c[0]} then {t[0]} else {e[0]})", f"(CIf {c[1]} {t[1]} {e[1]})"
        a, b = self.gen(typ, depth - 1), self.gen(typ, depth - 1)
        self.note("nvl")
        return f"nvl({a[0]}, {b[0]})", f"(CNvl {a[1]} {b[1]})"


# ------------------------------------------------------------------ datasets
def gen_value(rng, typ, null_p=0.25):
    if rng.random() < null_p:
        return None
    if typ == "Integer":
        return rng.choice([0, 0, 1, 2, 3, -5, 12, 100, -1, 1000])
    if typ == "Number":
        return Fraction(rng.randrange(-40, 41), 4)
    if typ == "Boolean":
        return rng.random() < 0.5
    return rng.choice(["a", "b", "ab", "Hello", " x ", "", "Q1", "zz top"])


ID_SPECS = [("Id_1", "Integer", [1, 2, 3, 4]), ("Id_2", "String", ["A", "B", "C"])]


class Shape:
    def __init__(self, ids: List[Tuple[str, str]], ms: List[Tuple[str, str]]):
        self.ids, self.ms = ids, ms

    def cols(self):
        return dict(self.ids + self.ms)


def _rows_for(rng, ids, ms, dense=False):
    """datapoints for a structure: keys drawn from the universe of its identifiers (in the declared identifier order)"""
    import itertools
    specs = {s[0]: s for s in ID_SPECS}
    canon = [s for s in ID_SPECS if s[0] in [n for n, _ in ids]]
    universe = list(itertools.product(*[s[2] for s in canon]))
    cls = rng.choice(["some", "some", "most"] if dense else ["all", "none", "some", "some", "some"])
    pk = 0.75 if cls == "most" else 0.5
    keys = universe if cls == "all" else [] if cls == "none" else [k for k in universe if rng.random() < pk]
    pos = {s[0]: i for i, s in enumerate(canon)}
    rows = [([k[pos[n]] for n, _ in ids], [gen_value(rng, t) for _, t in ms]) for k in keys]
    rng.shuffle(rows)
    return rows


def gen_inputs(rng, n=3, measure_types=None, family=None):
    """n input datasets; identifier sets equal or nested; rows 0-12 with controlled key overlap.
    family=None: independent random structures (the original stream).
    family='mixed': as above, but a later dataset copies the structure of an earlier one half of the time (set operators need
                    operands with the same components), sometimes declaring its columns in another order.
    family='same': 2-3 datasets with ONE structure (mostly 2 identifiers), columns of the later ones possibly declared in another
                   order, plus (half of the time) a dataset with the same measures and Id_1 only.
    family='nest21': DS_1(Id_1,Id_2), DS_2(Id_1), DS_3(Id_1,Id_2) [+ DS_4(Id_1)] with the same numeric measures and several
                   datapoints per Id_1 value — for nested dataset∘dataset operators whose inner LEFT operand has more identifiers."""
    def measures(types, nm):
        return [(f"Me_{j}", rng.choice(types)) for j in range(1, nm + 1)]

    def permuted(ids, ms):
        ids, ms = list(ids), list(ms)
        if rng.random() < 0.5:
            rng.shuffle(ids)
            rng.shuffle(ms)
        return ids, ms
    dss = {}
    if family == "same":
        nid = rng.choice([1, 2, 2, 2])
        ids = [(s[0], s[1]) for s in ID_SPECS[:nid]]
        ms = measures(measure_types or BASIC, rng.choice([1, 1, 2]))
        k = rng.choice([2, 3])
        for i in range(1, k + 1):
            pi, pm = (ids, ms) if i == 1 else permuted(ids, ms)
            dss[f"DS_{i}"] = {"shape": Shape(pi, pm), "rows": _rows_for(rng, pi, pm, dense=True)}
        if nid == 2 and rng.random() < 0.5:
            dss[f"DS_{k + 1}"] = {"shape": Shape(ids[:1], ms), "rows": _rows_for(rng, ids[:1], ms, dense=True)}
        return dss
    if family == "nest21":
        ids2 = [(s[0], s[1]) for s in ID_SPECS[:2]]
        mt = rng.choice([["Integer"], ["Number"], ["Integer", "Number"]])
        ms = measures(mt, rng.choice([1, 1, 2]))
        for i, ids in enumerate([ids2, ids2[:1], ids2] + ([ids2[:1]] if rng.random() < 0.3 else []), start=1):
            pm = list(ms)
            if i > 1 and rng.random() < 0.3:
                rng.shuffle(pm)
            dss[f"DS_{i}"] = {"shape": Shape(ids, pm), "rows": _rows_for(rng, ids, pm, dense=True)}
        return dss
    for i in range(1, n + 1):
        if family == "mixed" and dss and rng.random() < 0.5:
            src = dss[rng.choice(list(dss))]["shape"]
            ids, ms = permuted(src.ids, src.ms) if rng.random() < 0.4 else (list(src.ids), list(src.ms))
        else:
            nid = rng.choice([1, 2, 2])
            ids = [(s[0], s[1]) for s in ID_SPECS[:nid]]
            ms = measures(measure_types or BASIC, rng.choice([1, 1, 2, 3]))
        dss[f"DS_{i}"] = {"shape": Shape(ids, ms), "rows": _rows_for(rng, ids, ms)}
    return dss


def inputs_engine(dss):
    structs, dps = [], {}
    for name, d in dss.items():
        sh = d["shape"]
        structs.append(engine.ds_struct(name, [(n, t, "Identifier", False) for n, t in sh.ids] + [(n, t, "Measure", True) for n, t in sh.ms]))
        cols = {n: [] for n, _ in sh.ids + sh.ms}
        for k, m in d["rows"]:
            for (n, t), v in zip(sh.ids, k):
                cols[n].append(v)
            for (n, t), v in zip(sh.ms, m):
                cols[n].append(float(v) if isinstance(v, Fraction) else v)
        dps[name] = pd.DataFrame({n: pd.Series(v, dtype="object") for n, v in cols.items()})
    return engine.structures(*structs), dps


def inputs_coq(dss) -> str:
    items = []
    for name, d in dss.items():
        sh = d["shape"]
        rows = coq_list([V.to_row(k, [t for _, t in sh.ids], m, [t for _, t in sh.ms]) for k, m in d["rows"]])
        items.append(f"({coq_string(name)}, mkD {coq_list([coq_string(n) for n, _ in sh.ids])} {coq_list([coq_string(n) for n, _ in sh.ms])} {rows})")
    return coq_list(items)


_VALIDATORS: Dict[int, Any] = {}


def _validate_cached(instance, schema, *a, **k):
    """jsonschema.validate without re-checking the (constant) schema against its meta-schema on every call: the engine validates
    the input structures with jsonschema.validate, 40 of whose 46 ms are that self-check.  Used ONLY for the generator's structure
    queries (shape_of), never while a case under test runs."""
    import jsonschema
    v = _VALIDATORS.get(id(schema))
    if v is None:
        cls = jsonschema.validators.validator_for(schema)
        cls.check_schema(schema)
        v = _VALIDATORS[id(schema)] = (cls(schema), schema)
    err = jsonschema.exceptions.best_match(v[0].iter_errors(instance))
    if err is not None:
        raise err


def shape_of(script_expr: str, structs, prefix: str = "") -> Optional[Shape]:
    """structure the ENGINE's semantic analysis gives to `expr` (None when it rejects it)"""
    import jsonschema
    saved = jsonschema.validate
    jsonschema.validate = _validate_cached
    try:
        r = engine.semantic_case(f"{prefix}DS_t <- {script_expr};", structs)
    finally:
        jsonschema.validate = saved
    if not r["ok"] or "DS_t" not in r["datasets"]:
        return None
    comps = r["datasets"]["DS_t"]
    return Shape([(c[0], c[2]) for c in comps if c[1] == "Identifier"], [(c[0], c[2]) for c in comps if c[1] != "Identifier"])


class DG:
    """dataset-expression generator: returns (vtl, coq dexpr, Shape)"""

    def __init__(self, rng, dss, structs, risky_div=False):
        self.rng, self.dss, self.structs, self.risky_div = rng, dss, structs, risky_div
        self.hist: Dict[str, int] = {}
        self.rejected = 0
        self.renaming_ops: List[str] = []      # text of every node whose single measure the engine renamed (bool_var, int_var…)
        self.unions: List[Tuple[str, Shape]] = []  # text + structure of every union node built
        self.fresh_out: Dict[str, str] = {}    # components created so far by the clause chain being built (name -> type)

    def note(self, k):
        self.hist[k] = self.hist.get(k, 0) + 1

    def leaf(self):
        n = self.rng.choice(list(self.dss))
        return n, f"(DVar {coq_string(n)})", self.dss[n]["shape"]

    def with_shape(self, vtl, coq, prev: Shape, allow_rename=True, free=False):
        """asks the engine for the shape; if the engine renamed the single measure, mirror it with DRename in the model.
        free=True (clauses that change the component list on purpose: calc of a new component, keep, drop, rename): the engine's
        structure is taken as it is — the model computes its own and `exprk.compare` checks the two against each other"""
        sh = shape_of(vtl, self.structs, getattr(self, "prefix", ""))
        if sh is None:
            self.rejected += 1
            return None
        if free:
            return vtl, coq, sh
        pm, nm = [n for n, _ in prev.ms], [n for n, _ in sh.ms]
        if pm != nm:
            if allow_rename and len(pm) == 1 and len(nm) == 1:
                coq = f"(DRename {coq} [({coq_string(pm[0])}, {coq_string(nm[0])})])"
                self.renaming_ops.append(vtl)
            elif sorted(pm) != sorted(nm):
                self.rejected += 1
                return None
        return vtl, coq, sh

    def clause(self, base, fresh: Optional[Dict[str, str]] = None, force_kind: Optional[str] = None, force_use: bool = False):
        """one clause applied to `base`.  `fresh` = components created earlier in the SAME chain (by calc / rename): later clauses
        are biased towards them (rename it, keep it, filter on it, calc from it), since a chain in one statement must carry a
        component created on the way under whatever name it then has.  Sets self.fresh_out for the next clause of the chain."""
        vtl, coq, sh = base
        r = self.rng
        fresh = {n: t for n, t in (fresh or {}).items() if n in dict(sh.ms)}
        if force_kind:
            kind = force_kind
        elif fresh and r.random() < 0.8:
            kind = r.choice(["rename", "rename", "rename", "keep", "filter", "calc", "calc", "sub", "drop"])
        else:
            kind = r.choice(["filter", "filter", "calc", "calc", "keep", "drop", "rename", "sub"])
        cg = CG(r, sh.cols(), self.risky_div, prefer=list(fresh))
        use = r.choice(list(fresh)) if fresh and (force_use or r.random() < 0.8) else None
        out = None
        nf = dict(fresh)
        if kind == "filter":
            c = cg.using(use, True) if use else cg.gen("Boolean", r.choice([1, 2, 3]))
            out = self.with_shape(f"{vtl}[filter {c[0]}]", f"(DFilter {coq} {c[1]})", sh)
        elif kind == "calc":
            defs = []
            names = [n for n, _ in sh.ms] + ["Me_9", "Me_8"]
            if not fresh and r.random() < 0.5:
                names = [n for n in ("Me_9", "Me_8") if n not in dict(sh.ms)] or names   # a NEW component
            for i in range(r.choice([1, 1, 2])):
                tgt = r.choice(names)
                if tgt in [d[0] for d in defs]:
                    continue
                e = cg.using(use, False) if (use and i == 0) else cg.gen(r.choice(BASIC), r.choice([1, 2, 3]))
                defs.append((tgt, e))
            vt = ", ".join(f"{n} := {e[0]}" for n, e in defs)
            cq = coq_list([f"({coq_string(n)}, {e[1]})" for n, e in defs])
            out = self.with_shape(f"{vtl}[calc {vt}]", f"(DCalc {coq} {cq})", sh, free=True)
            if out is not None:
                for n, _ in defs:
                    nf[n] = dict(out[2].ms).get(n, "Number")
        elif kind in ("keep", "drop"):
            if not sh.ms:
                return None
            k = r.randrange(1, len(sh.ms) + 1)
            sel = r.sample([n for n, _ in sh.ms], k)
            if fresh and kind == "keep":
                sel = sorted(set(sel) | ({use} if use else set(fresh)))
            if fresh and kind == "drop" and r.random() < 0.7:
                sel = [n for n in sel if n not in fresh]
                if not sel:
                    return None
            if kind == "drop" and len(sel) == len(sh.ms):
                sel = sel[:-1]
                if not sel:
                    return None
            nd = "DKeep" if kind == "keep" else "DDrop"
            out = self.with_shape(f"{vtl}[{kind} {', '.join(sel)}]", f"({nd} {coq} {coq_list([coq_string(s) for s in sel])})", sh, free=True)
            nf = {n: t for n, t in nf.items() if (n in sel) == (kind == "keep")}
        elif kind == "rename":
            if not sh.ms:
                return None
            old = use or r.choice([n for n, _ in sh.ms])
            cands = [n for n in ("Me_7", "Renamed", "x1") if n not in sh.cols()] or ["Me_7"]
            new = r.choice(cands)
            out = self.with_shape(f"{vtl}[rename {old} to {new}]", f"(DRename {coq} [({coq_string(old)}, {coq_string(new)})])", sh, free=True)
            if out is not None:
                nf.pop(old, None)
                nf[new] = dict(out[2].ms).get(new, dict(sh.ms).get(old, "Number"))
        elif kind == "sub":
            if len(sh.ids) < 2:
                return None
            idn, idt = r.choice(sh.ids)
            spec = [s for s in ID_SPECS if s[0] == idn]
            if not spec:
                return None
            v = r.choice(spec[0][2])
            vt = f'"{v}"' if idt == "String" else str(v)
            out = self.with_shape(f"{vtl}[sub {idn} = {vt}]", f"(DSub {coq} [({coq_string(idn)}, {V.to_val(v, idt)})])", sh, allow_rename=False)
        if out is not None:
            self.note(kind)
            if fresh:
                self.note("chain:" + kind + "-after-create")
            self.fresh_out = nf
            for k, v in cg.hist.items():
                self.hist["c:" + k] = self.hist.get("c:" + k, 0) + v
        return out

    def chain(self, base, n, first_kind=None):
        """a chain of up to n clauses in ONE statement, later clauses biased towards components created earlier in the chain"""
        out, fresh = base, {}
        for i in range(n):
            nxt = self.clause(out, fresh, force_kind=first_kind if i == 0 else None)
            if nxt is None:
                if i == 0 and first_kind:
                    return None
                break
            out, fresh = nxt, self.fresh_out
        return None if out is base else out

    def elementwise(self, base):
        """unary / dataset∘scalar / parameterised operator applied to all measures"""
        vtl, coq, sh = base
        r = self.rng
        types = {t for _, t in sh.ms}
        if not sh.ms or len(types) != 1:
            return None
        t = next(iter(types))
        hole = '(CCol "$")'
        opts = []
        if t in NUMERIC:
            opts += ["scalar_arith", "scalar_arith", "abs", "neg", "round", "cmp_scalar", "between", "isnull", "nvl"] + (["ceil"] if t == "Number" else ["in"])
        elif t == "String":
            opts += ["strfn", "concat_scalar", "substr", "length", "cmp_scalar", "isnull", "in", "nvl"]
        else:
            opts += ["not", "logic_scalar", "isnull", "nvl"]
        k = r.choice(opts)
        mono = len(sh.ms) == 1
        if k in ("cmp_scalar", "between", "isnull", "in", "length", "ceil", "round") and not mono and k not in ("round", "ceil", "length"):
            return None
        out = None
        if k == "scalar_arith":
            op = r.choice(["+", "-", "*", "/"])
            st = r.choice(NUMERIC)
            lt, lq, lv = lit(r, st, allow_null=True, nonzero=(op == "/" and not self.risky_div))
            left = r.random() < 0.5
            if left or op == "/":
                v, c = f"({vtl} {op} {lt})", f"(DMap {coq} (CBin {BIN[op]} {hole} (CLit {lq})))"
            else:
                v, c = f"({lt} {op} {vtl})", f"(DMap {coq} (CBin {BIN[op]} (CLit {lq}) {hole}))"
            out = self.with_shape(v, c, sh)
        elif k in ("abs", "neg", "not", "ceil"):
            f = {"abs": ("abs({})", "Abs"), "neg": ("(-{})", "Neg"), "not": ("(not {})", "Not"), "ceil": (r.choice(["ceil({})", "floor({})"]), None)}[k]
            un = f[1] or ("Ceil" if f[0].startswith("ceil") else "Floor")
            out = self.with_shape(f[0].format(vtl), f"(DMap {coq} (CUn {un} {hole}))", sh)
        elif k == "round":
            n = r.choice([None, 0, 1])
            f = r.choice(["round", "trunc"])
            v = f"{f}({vtl})" if n is None else f"{f}({vtl}, {n})"
            out = self.with_shape(v, f"(DMap {coq} ({'CRound' if f == 'round' else 'CTrunc'} {hole} {coq_opt(coq_z(n) if n is not None else None)}))", sh)
        elif k == "cmp_scalar":
            op = r.choice(["=", "<>", ">", ">=", "<", "<="])
            lt, lq, _ = lit(r, t)
            out = self.with_shape(f"({vtl} {op} {lt})", f"(DMap {coq} (CBin {BIN[op]} {hole} (CLit {lq})))", sh)
        elif k == "between":
            lo, hi = lit(r, t), lit(r, t)
            out = self.with_shape(f"between({vtl}, {lo[0]}, {hi[0]})", f"(DMap {coq} (CBetween {hole} (CLit {lo[1]}) (CLit {hi[1]})))", sh)
        elif k == "isnull":
            out = self.with_shape(f"isnull({vtl})", f"(DMap {coq} (CUn IsNull {hole}))", sh)
        elif k == "nvl":
            lt, lq, _ = lit(r, t, allow_null=False)
            out = self.with_shape(f"nvl({vtl}, {lt})", f"(DMap {coq} (CNvl {hole} (CLit {lq})))", sh)
        elif k == "in":
            ls = [lit(r, t, allow_null=False) for _ in range(r.choice([1, 2, 3]))]
            neg = r.random() < 0.4
            out = self.with_shape(f"({vtl} {'not_in' if neg else 'in'} {{{', '.join(x[0] for x in ls)}}})",
                                  f"(DMap {coq} ({'CNotIn' if neg else 'CIn'} {hole} {coq_list([x[1] for x in ls])}))", sh)
        elif k == "strfn":
            f = r.choice(["trim", "ltrim", "rtrim", "upper", "lower"])
            out = self.with_shape(f"{f}({vtl})", f"(DMap {coq} (CUn {UNF[f]} {hole}))", sh)
        elif k == "length":
            out = self.with_shape(f"length({vtl})", f"(DMap {coq} (CUn Len {hole}))", sh)
        elif k == "concat_scalar":
            lt, lq, _ = lit(r, "String")
            out = self.with_shape(f"({vtl} || {lt})", f"(DMap {coq} (CBin Concat {hole} (CLit {lq})))", sh)
        elif k == "substr":
            st, ln = r.choice([1, 2]), r.choice([None, 1, 2])
            v = f"substr({vtl}, {st})" if ln is None else f"substr({vtl}, {st}, {ln})"
            out = self.with_shape(v, f"(DMap {coq} (CSubstr {hole} (Some {coq_z(st)}) {coq_opt(coq_z(ln) if ln is not None else None)}))", sh)
        elif k == "logic_scalar":
            op = r.choice(["and", "or", "xor"])
            lt, lq, _ = lit(r, "Boolean")
            out = self.with_shape(f"({vtl} {op} {lt})", f"(DMap {coq} (CBin {BIN[op]} {hole} (CLit {lq})))", sh)
        if out is not None:
            self.note("ds:" + k)
        return out

    def binary(self, a, b):
        r = self.rng
        (va, ca, sa), (vb, cb, sb) = a, b
        ta, tb = {t for _, t in sa.ms}, {t for _, t in sb.ms}
        if sorted(n for n, _ in sa.ms) != sorted(n for n, _ in sb.ms) or not sa.ms:
            return None
        if ta <= set(NUMERIC) and tb <= set(NUMERIC):
            op = r.choice(["+", "-", "*", "/"] + ([">", "=", "<="] if len(sa.ms) == 1 else []))
        elif ta == {"String"} and tb == {"String"}:
            op = r.choice(["||"] + (["=", "<"] if len(sa.ms) == 1 else []))
        elif ta == {"Boolean"} and tb == {"Boolean"}:
            op = r.choice(["and", "or", "xor"])
        else:
            return None
        if op == "/" and not self.risky_div:
            return None
        out = self.with_shape(f"({va} {op} {vb})", f"(DBin {BIN[op]} {ca} {cb})", sa if len(sa.ids) >= len(sb.ids) else Shape(sb.ids, sa.ms))
        if out is not None:
            self.note("dsds:" + op)
        return out

    # ---------------------------------------------------------------- set operators
    @staticmethod
    def same_struct(a: Shape, b: Shape) -> bool:
        return sorted(a.ids) == sorted(b.ids) and sorted(a.ms) == sorted(b.ms) and bool(a.ids)

    def setop(self, operands, op=None):
        """union / intersect / setdiff / symdiff of 2-3 structurally equal operands; n-ary = left-nested DSet (Proofs/SetOpsP.v)"""
        r = self.rng
        op = op or r.choice(["union", "intersect", "setdiff", "symdiff"])
        if op in ("setdiff", "symdiff"):
            operands = operands[:2]
        if len(operands) < 2:
            return None
        s0 = operands[0][2]
        if any(not self.same_struct(s0, o[2]) for o in operands[1:]):
            return None
        vtl = f"{op}({', '.join(o[0] for o in operands)})"
        coq = operands[0][1]
        for o in operands[1:]:
            coq = f"(DSet {SETOP[op]} {coq} {o[1]})"
        out = self.with_shape(vtl, coq, s0, allow_rename=False)
        if out is not None:
            self.note(f"set:{op}" + (":3" if len(operands) == 3 else ""))
            if [n for n, _ in s0.ids] != [n for n, _ in operands[1][2].ids] or [n for n, _ in s0.ms] != [n for n, _ in operands[1][2].ms]:
                self.note("set:columns-in-another-order")
            if op == "union":
                self.unions.append((out[0], out[2]))
        return out

    def operand_like(self, base, pool):
        """an operand with the structure of `base`: another dataset of `pool` (list of (vtl, coq, Shape)) as it is, or under a
        structure-preserving clause / element-wise operator, or a dataset∘dataset result, or `base` itself filtered"""
        r = self.rng
        sh = base[2]
        cands = [x for x in pool if self.same_struct(sh, x[2])]
        for _ in range(4):
            how = r.choice(["plain", "plain", "filter", "calc", "elem", "binary", "self-filter"])
            src = r.choice(cands) if cands else base
            if how == "self-filter" or not cands:
                src, how = base, "filter"
            if how == "plain":
                out = src
            elif how == "filter":
                out = self.clause(src, force_kind="filter")
            elif how == "calc":   # overwrite an existing measure: names unchanged
                m, t = r.choice(src[2].ms) if src[2].ms else (None, None)
                if m is None:
                    continue
                cg = CG(r, src[2].cols(), self.risky_div)
                e = cg.gen(t, r.choice([1, 2]))
                out = self.with_shape(f"{src[0]}[calc {m} := {e[0]}]", f"(DCalc {src[1]} [({coq_string(m)}, {e[1]})])", src[2], allow_rename=False)
                if out is not None:
                    self.note("calc")
            elif how == "elem":
                out = self.elementwise(src)
            else:
                other = r.choice(cands) if cands else src
                out = self.binary(src, other)
            if out is not None and self.same_struct(sh, out[2]) and sorted(sh.ms) == sorted(out[2].ms):
                return out
        return None

    def gen_setop(self, pool, base=None):
        r = self.rng
        base = base or r.choice(pool)
        ops = [base]
        for _ in range(r.choice([1, 1, 2])):
            o = self.operand_like(base, [x for x in pool if x[0] != base[0]] or pool)
            if o is None:
                break
            ops.append(o)
        if len(ops) < 2:
            return None
        if r.random() < 0.3:
            ops[0], ops[1] = ops[1], ops[0]
        return self.setop(ops)

    def gen_flat(self, leaves):
        """one statement: ONE dataset-level operator (or a clause chain) over named datasets (inputs / earlier results)"""
        r = self.rng

        def leaf():
            n = r.choice(list(leaves))
            return n, f"(DVar {coq_string(n)})", leaves[n]
        for _ in range(8):
            k = r.choice(getattr(self, "kinds", ["clause", "clause", "elem", "elem", "binary", "binary", "setop"]))
            base = leaf()
            if k == "clause":
                out = self.chain(base, r.choice([1, 1, 2, 2, 3, 3, 4]), first_kind=("calc" if r.random() < 0.35 else None))
            elif k == "elem":
                out = self.elementwise(base)
            elif k == "setop":
                pool = [(n, f"(DVar {coq_string(n)})", sh) for n, sh in leaves.items()]
                out = self.gen_setop(pool, base)
            else:
                out = self.binary(base, leaf())
            if out is not None:
                return out
        return None

    def gen(self, depth):
        r = self.rng
        if depth <= 0:
            return self.leaf()
        for _ in range(6):
            k = r.choice(getattr(self, "nested_kinds", ["clause", "clause", "elem", "elem", "binary", "binary", "setop"]))
            base = self.gen(depth - 1)
            if base is None:
                continue
            if k == "clause":
                out = self.chain(base, r.choice([1, 1, 2, 3]))
            elif k == "elem":
                out = self.elementwise(base)
            elif k == "setop":
                pool = [(n, f"(DVar {coq_string(n)})", d["shape"]) for n, d in self.dss.items()]
                out = self.gen_setop(pool, base)
                if out is not None and r.random() < 0.5:   # a set operator under something that regroups / drops an identifier
                    nxt = self.chain(out, r.choice([1, 2]), first_kind=("sub" if len(out[2].ids) > 1 and r.random() < 0.6 else None))
                    out = nxt or out
            else:
                other = self.gen(r.choice([0, 0, depth - 1]))
                out = self.binary(base, other) if other is not None else None
            if out is not None:
                return out
        return None

    # ---------------------------------------------------------------- directed single-statement templates
    def L(self, n):
        return n, f"(DVar {coq_string(n)})", self.dss[n]["shape"]

    def directed(self, family):
        """one statement of a family the random streams reach too rarely (the inputs come from gen_inputs(family=…)):
        'nest21'  (DS_a(Id_1,Id_2) ∘ DS_b(Id_1)) used as an operand of another dataset∘dataset operator (either side), optionally
                  under / over an element-wise operator or a clause;
        'setctx'  a set operator used inside the statement: under sub / filter+calc / keep…, as an operand of a dataset∘dataset
                  operator, of an element-wise operator, of another set operator; operands that are clause / operator results;
        'chain'   a clause chain that creates a component (calc / rename) and then renames, keeps, filters on or computes from it."""
        r = self.rng
        names = list(self.dss)
        if family == "nest21":
            two = [n for n in names if len(self.dss[n]["shape"].ids) == 2]
            one = [n for n in names if len(self.dss[n]["shape"].ids) == 1]
            if len(two) < 2 or not one:
                return None
            a, c = r.sample(two, 2) if r.random() < 0.8 else (two[0], two[0])
            b = r.choice(one)
            inner = self.binary(self.L(a), self.L(b)) if r.random() < 0.75 else self.binary(self.L(b), self.L(a))
            if inner is None:
                return None
            if r.random() < 0.2:
                inner = self.elementwise(inner) or inner
            third = self.L(c)
            if r.random() < 0.25:
                third = self.clause(third, force_kind=r.choice(["filter", "calc"])) or third
            out = self.binary(inner, third) if r.random() < 0.5 else self.binary(third, inner)
            if out is None:
                return None
            if r.random() < 0.25:
                out = self.binary(out, self.L(r.choice(names))) or out
            elif r.random() < 0.2:
                out = self.chain(out, 1) or out
            self.note("directed:nest21")
            return out
        if family == "setctx":
            pool = [self.L(n) for n in names]
            full = [x for x in pool if len(x[2].ids) == max(len(y[2].ids) for y in pool)]
            base = r.choice(full)
            so = self.gen_setop(full, base)
            if so is None:
                return None
            how = r.choice(["sub", "sub", "sub", "filter-calc", "chain", "binary", "binary", "elem", "setop", "setop-sub"])
            out = None
            if how in ("sub", "setop-sub") and len(so[2].ids) < 2:
                how = "chain"
            if how == "sub":
                out = self.chain(so, r.choice([1, 1, 2]), first_kind="sub")
            elif how == "filter-calc":
                out = self.chain(so, r.choice([2, 3]), first_kind="filter")
            elif how == "chain":
                out = self.chain(so, r.choice([1, 2, 3]))
            elif how == "binary":
                other = r.choice(pool)
                out = self.binary(so, other) if r.random() < 0.5 else self.binary(other, so)
            elif how == "elem":
                out = self.elementwise(so)
            else:
                outer = self.gen_setop(full, so)
                out = outer
                if outer is not None and how == "setop-sub":
                    out = self.chain(outer, 1, first_kind="sub") or outer
            if out is None:
                return None
            self.note("directed:setctx:" + how)
            return out
        if family == "chain":
            base = self.L(r.choice(names))
            if r.random() < 0.2:
                base = self.binary(base, self.L(r.choice(names))) or self.elementwise(base) or base
            out, fresh = base, {}
            first = self.clause(out, force_kind=r.choice(["calc", "calc", "calc", "rename"]))
            if first is None:
                return None
            out, fresh = first, self.fresh_out
            for _ in range(r.choice([0, 1, 1, 2])):
                nxt = self.clause(out, fresh)
                if nxt is None:
                    break
                out, fresh = nxt, self.fresh_out
            if fresh and r.random() < 0.6:   # the created component leaves the statement under another name
                nxt = self.clause(out, fresh, force_kind="rename", force_use=True)
                if nxt is not None:
                    out, fresh = nxt, self.fresh_out
            if out is first:
                return None
            self.note("directed:chain")
            return out
        return None
