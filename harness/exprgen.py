"""Type-directed generator of VTL scripts over the modelled subset, emitting in parallel the VTL text and the Gallina term
(Model/Expr.v: cexpr / dexpr).  Shapes of intermediate datasets (component names/types after the engine's renaming rules)
are learned from the engine's own semantic_analysis, so the generator never guesses a structure rule."""
from __future__ import annotations

from fractions import Fraction
from typing import Any, Dict, List, Optional, Tuple

import pandas as pd

import coqval as V
import engine
from common import coq_list, coq_opt, coq_string, coq_z

NUMERIC = ("Integer", "Number")
BASIC = ("Integer", "Number", "String", "Boolean")


# ------------------------------------------------------------------ literals
def lit(rng, typ, allow_null=True, nonzero=False):
    """(vtl, coq val term, python value)"""
    if allow_null and rng.random() < 0.08:
        return "null", "VNull", None
    if typ == "Integer":
        v = rng.choice([0, 1, 2, 3, 5, 7, 10, -1, -4, 100])
        if nonzero and v == 0:
            v = 2
        return (str(v) if v >= 0 else f"-{abs(v)}"), f"(VInt {coq_z(v)})", v
    if typ == "Number":
        f = Fraction(rng.randrange(-30, 31), 4)
        if nonzero and f == 0:
            f = Fraction(5, 2)
        txt = format(float(abs(f)), "g")
        if "." not in txt:
            txt += ".0"
        return (txt if f >= 0 else f"-{txt}"), f"(VNum ({coq_z(f.numerator)} # {f.denominator}))", f
    if typ == "Boolean":
        b = rng.random() < 0.5
        return ("true" if b else "false"), f"(VBool {'true' if b else 'false'})", b
    s = rng.choice(["a", "b", "ab", "Hello", " x ", "", "Q1", "zz top"])
    return f'"{s}"', f"(VStr {coq_string(s)})", s


def vals_coq(typ, values):
    return coq_list([V.to_val(v, typ) for v in values])


# ------------------------------------------------------------------ component expressions
BIN = {"+": "Add", "-": "Sub", "*": "Mul", "/": "Div", "=": "Eq", "<>": "Neq", ">": "Gt", ">=": "Ge", "<": "Lt", "<=": "Le",
       "and": "And", "or": "Or", "xor": "Xor", "||": "Concat"}
UNF = {"abs": "Abs", "ceil": "Ceil", "floor": "Floor", "length": "Len", "trim": "Trim", "ltrim": "Ltrim", "rtrim": "Rtrim",
       "upper": "Upper", "lower": "Lower", "isnull": "IsNull", "not": "Not"}


class CG:
    """component-expression generator over a column environment {name: type}"""

    def __init__(self, rng, cols: Dict[str, str], risky_div=False):
        self.rng, self.cols, self.risky_div = rng, cols, risky_div
        self.hist: Dict[str, int] = {}

    def note(self, k):
        self.hist[k] = self.hist.get(k, 0) + 1

    def col_of(self, typ):
        c = [n for n, t in self.cols.items() if t == typ]
        return self.rng.choice(c) if c else None

    def leaf(self, typ):
        c = self.col_of(typ)
        if c is not None and self.rng.random() < 0.7:
            self.note("col")
            return c, f"(CCol {coq_string(c)})"
        t, q, _ = lit(self.rng, typ)
        self.note("lit")
        return t, f"(CLit {q})"

    def gen(self, typ, depth) -> Tuple[str, str]:
        r = self.rng
        if depth <= 0 or r.random() < 0.2:
            return self.leaf(typ)
        if typ in NUMERIC:
            choice = r.choice(["arith", "arith", "fn", "if", "nvl", "neg"] + (["len", "ceil", "roundi"] if typ == "Integer" else ["div", "round", "trunc", "mixed"]))
            if choice == "arith":
                op = r.choice(["+", "-", "*"])
                a, b = self.gen(typ, depth - 1), self.gen(typ, depth - 1)
                self.note(op)
                return f"({a[0]} {op} {b[0]})", f"(CBin {BIN[op]} {a[1]} {b[1]})"
            if choice == "mixed":
                op = r.choice(["+", "-", "*"])
                a, b = self.gen("Integer", depth - 1), self.gen("Number", depth - 1)
                if r.random() < 0.5:
                    a, b = b, a
                self.note(op + "mixed")
                return f"({a[0]} {op} {b[0]})", f"(CBin {BIN[op]} {a[1]} {b[1]})"
            if choice == "div":
                a = self.gen(r.choice(NUMERIC), depth - 1)
                if self.risky_div:
                    b = self.gen(r.choice(NUMERIC), depth - 1)
                else:
                    t, q, _ = lit(r, r.choice(NUMERIC), allow_null=False, nonzero=True)
                    b = (t, f"(CLit {q})")
                self.note("/")
                return f"({a[0]} / {b[0]})", f"(CBin Div {a[1]} {b[1]})"
            if choice == "fn":
                a = self.gen(typ, depth - 1)
                self.note("abs")
                return f"abs({a[0]})", f"(CUn Abs {a[1]})"
            if choice == "neg":
                a = self.gen(typ, depth - 1)
                self.note("neg")
                return f"(-{a[0]})", f"(CUn Neg {a[1]})"
            if choice == "len":
                a = self.gen("String", depth - 1)
                self.note("length")
                return f"length({a[0]})", f"(CUn Len {a[1]})"
            if choice == "ceil":
                f = r.choice(["ceil", "floor"])
                a = self.gen("Number", depth - 1)
                self.note(f)
                return f"{f}({a[0]})", f"(CUn {UNF[f]} {a[1]})"
            if choice == "roundi":
                f = r.choice(["round", "trunc"])
                a = self.gen("Number", depth - 1)
                self.note(f + "()")
                return f"{f}({a[0]})", f"({'CRound' if f == 'round' else 'CTrunc'} {a[1]} None)"
            if choice in ("round", "trunc"):
                n = r.choice([0, 1, 2])
                a = self.gen("Number", depth - 1)
                self.note(choice)
                return f"{choice}({a[0]}, {n})", f"({'CRound' if choice == 'round' else 'CTrunc'} {a[1]} (Some {coq_z(n)}))"
        if typ == "String":
            choice = r.choice(["concat", "fn", "substr", "if", "nvl"])
            if choice == "concat":
                a, b = self.gen("String", depth - 1), self.gen("String", depth - 1)
                self.note("||")
                return f"({a[0]} || {b[0]})", f"(CBin Concat {a[1]} {b[1]})"
            if choice == "fn":
                f = r.choice(["trim", "ltrim", "rtrim", "upper", "lower"])
                a = self.gen("String", depth - 1)
                self.note(f)
                return f"{f}({a[0]})", f"(CUn {UNF[f]} {a[1]})"
            if choice == "substr":
                a = self.gen("String", depth - 1)
                st, ln = r.choice([1, 2, 3]), r.choice([None, 0, 1, 2])
                self.note("substr")
                txt = f"substr({a[0]}, {st})" if ln is None else f"substr({a[0]}, {st}, {ln})"
                return txt, f"(CSubstr {a[1]} (Some {coq_z(st)}) {coq_opt(coq_z(ln) if ln is not None else None)})"
        if typ == "Boolean":
            choice = r.choice(["cmp", "cmp", "logic", "not", "isnull", "between", "in", "if", "nvl"])
            if choice == "cmp":
                t = r.choice(["Integer", "Number", "String", "num-mixed"])
                op = r.choice(["=", "<>", ">", ">=", "<", "<="])
                if t == "num-mixed":
                    a, b = self.gen("Integer", depth - 1), self.gen("Number", depth - 1)
                else:
                    a, b = self.gen(t, depth - 1), self.gen(t, depth - 1)
                self.note(op)
                return f"({a[0]} {op} {b[0]})", f"(CBin {BIN[op]} {a[1]} {b[1]})"
            if choice == "logic":
                op = r.choice(["and", "or", "xor"])
                a, b = self.gen("Boolean", depth - 1), self.gen("Boolean", depth - 1)
                self.note(op)
                return f"({a[0]} {op} {b[0]})", f"(CBin {BIN[op]} {a[1]} {b[1]})"
            if choice == "not":
                a = self.gen("Boolean", depth - 1)
                self.note("not")
                return f"(not {a[0]})", f"(CUn Not {a[1]})"
            if choice == "isnull":
                a = self.gen(r.choice(BASIC), depth - 1)
                self.note("isnull")
                return f"isnull({a[0]})", f"(CUn IsNull {a[1]})"
            if choice == "between":
                t = r.choice(["Integer", "Number"])
                a = self.gen(t, depth - 1)
                lo, hi = lit(r, t), lit(r, t)
                self.note("between")
                return f"between({a[0]}, {lo[0]}, {hi[0]})", f"(CBetween {a[1]} (CLit {lo[1]}) (CLit {hi[1]}))"
            if choice == "in":
                t = r.choice(["Integer", "String"])
                a = self.gen(t, depth - 1)
                ls = [lit(r, t, allow_null=False) for _ in range(r.choice([1, 2, 3]))]
                neg = r.random() < 0.4
                self.note("not_in" if neg else "in")
                return (f"({a[0]} {'not_in' if neg else 'in'} {{{', '.join(x[0] for x in ls)}}})",
                        f"({'CNotIn' if neg else 'CIn'} {a[1]} {coq_list([x[1] for x in ls])})")
        # shared: if / nvl
        if self.rng.random() < 0.5:
            c, t, e = self.gen("Boolean", depth - 1), self.gen(typ, depth - 1), self.gen(typ, depth - 1)
            self.note("if")
            return f"(if {c[0]} then {t[0]} else {e[0]})", f"(CIf {c[1]} {t[1]} {e[1]})"
        a, b = self.gen(typ, depth - 1), self.gen(typ, depth - 1)
        self.note("nvl")
        return f"nvl({a[0]}, {b[0]})", f"(CNvl {a[1]} {b[1]})"


# ------------------------------------------------------------------ datasets
def gen_value(rng, typ, null_p=0.25):
    if rng.random() < null_p:
        return None
    if typ == "Integer":
        return rng.choice([0, 0, 1, 2, 3, -5, 12, 100, -1, 1000])
    if typ == "Number":
        return Fraction(rng.randrange(-40, 41), 4)
    if typ == "Boolean":
        return rng.random() < 0.5
    return rng.choice(["a", "b", "ab", "Hello", " x ", "", "Q1", "zz top"])


ID_SPECS = [("Id_1", "Integer", [1, 2, 3, 4]), ("Id_2", "String", ["A", "B", "C"])]


class Shape:
    def __init__(self, ids: List[Tuple[str, str]], ms: List[Tuple[str, str]]):
        self.ids, self.ms = ids, ms

    def cols(self):
        return dict(self.ids + self.ms)


def gen_inputs(rng, n=3, measure_types=None):
    """n input datasets; identifier sets equal or nested; rows 0-12 with controlled key overlap"""
    import itertools
    dss = {}
    for i in range(1, n + 1):
        nid = rng.choice([1, 2, 2])
        ids = [(s[0], s[1]) for s in ID_SPECS[:nid]]
        nm = rng.choice([1, 1, 2, 3])
        ms = []
        for j in range(1, nm + 1):
            t = rng.choice(measure_types or BASIC)
            ms.append((f"Me_{j}", t))
        universe = list(itertools.product(*[s[2] for s in ID_SPECS[:nid]]))
        cls = rng.choice(["all", "none", "some", "some", "some"])
        keys = universe if cls == "all" else [] if cls == "none" else [k for k in universe if rng.random() < 0.5]
        rows = [(list(k), [gen_value(rng, t) for _, t in ms]) for k in keys]
        rng.shuffle(rows)
        dss[f"DS_{i}"] = {"shape": Shape(ids, ms), "rows": rows}
    return dss


def inputs_engine(dss):
    structs, dps = [], {}
    for name, d in dss.items():
        sh = d["shape"]
        structs.append(engine.ds_struct(name, [(n, t, "Identifier", False) for n, t in sh.ids] + [(n, t, "Measure", True) for n, t in sh.ms]))
        cols = {n: [] for n, _ in sh.ids + sh.ms}
        for k, m in d["rows"]:
            for (n, t), v in zip(sh.ids, k):
                cols[n].append(v)
            for (n, t), v in zip(sh.ms, m):
                cols[n].append(float(v) if isinstance(v, Fraction) else v)
        dps[name] = pd.DataFrame({n: pd.Series(v, dtype="object") for n, v in cols.items()})
    return engine.structures(*structs), dps


def inputs_coq(dss) -> str:
    items = []
    for name, d in dss.items():
        sh = d["shape"]
        rows = coq_list([V.to_row(k, [t for _, t in sh.ids], m, [t for _, t in sh.ms]) for k, m in d["rows"]])
        items.append(f"({coq_string(name)}, mkD {coq_list([coq_string(n) for n, _ in sh.ids])} {coq_list([coq_string(n) for n, _ in sh.ms])} {rows})")
    return coq_list(items)


def shape_of(script_expr: str, structs, prefix: str = "") -> Optional[Shape]:
    """structure the ENGINE's semantic analysis gives to `expr` (None when it rejects it)"""
    r = engine.semantic_case(f"{prefix}DS_t <- {script_expr};", structs)
    if not r["ok"] or "DS_t" not in r["datasets"]:
        return None
    comps = r["datasets"]["DS_t"]
    return Shape([(c[0], c[2]) for c in comps if c[1] == "Identifier"], [(c[0], c[2]) for c in comps if c[1] != "Identifier"])


class DG:
    """dataset-expression generator: returns (vtl, coq dexpr, Shape)"""

    def __init__(self, rng, dss, structs, risky_div=False):
        self.rng, self.dss, self.structs, self.risky_div = rng, dss, structs, risky_div
        self.hist: Dict[str, int] = {}
        self.rejected = 0

    def note(self, k):
        self.hist[k] = self.hist.get(k, 0) + 1

    def leaf(self):
        n = self.rng.choice(list(self.dss))
        return n, f"(DVar {coq_string(n)})", self.dss[n]["shape"]

    def with_shape(self, vtl, coq, prev: Shape, allow_rename=True):
        """asks the engine for the shape; if the engine renamed the single measure, mirror it with DRename in the model"""
        sh = shape_of(vtl, self.structs, getattr(self, "prefix", ""))
        if sh is None:
            self.rejected += 1
            return None
        pm, nm = [n for n, _ in prev.ms], [n for n, _ in sh.ms]
        if pm != nm:
            if allow_rename and len(pm) == 1 and len(nm) == 1:
                coq = f"(DRename {coq} [({coq_string(pm[0])}, {coq_string(nm[0])})])"
            elif sorted(pm) != sorted(nm):
                self.rejected += 1
                return None
        return vtl, coq, sh

    def clause(self, base):
        vtl, coq, sh = base
        r = self.rng
        kind = r.choice(["filter", "filter", "calc", "calc", "keep", "drop", "rename", "sub"])
        cg = CG(r, sh.cols(), self.risky_div)
        out = None
        if kind == "filter":
            c = cg.gen("Boolean", r.choice([1, 2, 3]))
            out = self.with_shape(f"{vtl}[filter {c[0]}]", f"(DFilter {coq} {c[1]})", sh)
        elif kind == "calc":
            defs = []
            names = [n for n, _ in sh.ms] + ["Me_9", "Me_8"]
            for _ in range(r.choice([1, 1, 2])):
                tgt = r.choice(names)
                if tgt in [d[0] for d in defs]:
                    continue
                e = cg.gen(r.choice(BASIC), r.choice([1, 2, 3]))
                defs.append((tgt, e))
            vt = ", ".join(f"{n} := {e[0]}" for n, e in defs)
            cq = coq_list([f"({coq_string(n)}, {e[1]})" for n, e in defs])
            out = self.with_shape(f"{vtl}[calc {vt}]", f"(DCalc {coq} {cq})", sh, allow_rename=False)
            if out is not None:  # calc may append: accept any superset of names
                pass
        elif kind in ("keep", "drop"):
            if not sh.ms:
                return None
            k = r.randrange(1, len(sh.ms) + 1)
            sel = r.sample([n for n, _ in sh.ms], k)
            if kind == "drop" and len(sel) == len(sh.ms):
                sel = sel[:-1]
                if not sel:
                    return None
            nd = "DKeep" if kind == "keep" else "DDrop"
            out = self.with_shape(f"{vtl}[{kind} {', '.join(sel)}]", f"({nd} {coq} {coq_list([coq_string(s) for s in sel])})", sh, allow_rename=False)
        elif kind == "rename":
            if not sh.ms:
                return None
            old = r.choice([n for n, _ in sh.ms])
            new = r.choice(["Me_7", "Renamed", "x1"])
            out = self.with_shape(f"{vtl}[rename {old} to {new}]", f"(DRename {coq} [({coq_string(old)}, {coq_string(new)})])", sh, allow_rename=False)
        elif kind == "sub":
            if len(sh.ids) < 2:
                return None
            idn, idt = r.choice(sh.ids)
            spec = [s for s in ID_SPECS if s[0] == idn]
            if not spec:
                return None
            v = r.choice(spec[0][2])
            vt = f'"{v}"' if idt == "String" else str(v)
            out = self.with_shape(f"{vtl}[sub {idn} = {vt}]", f"(DSub {coq} [({coq_string(idn)}, {V.to_val(v, idt)})])", sh, allow_rename=False)
        if out is not None:
            self.note(kind)
            for k, v in cg.hist.items():
                self.hist["c:" + k] = self.hist.get("c:" + k, 0) + v
        return out

    def elementwise(self, base):
        """unary / dataset∘scalar / parameterised operator applied to all measures"""
        vtl, coq, sh = base
        r = self.rng
        types = {t for _, t in sh.ms}
        if not sh.ms or len(types) != 1:
            return None
        t = next(iter(types))
        hole = '(CCol "$")'
        opts = []
        if t in NUMERIC:
            opts += ["scalar_arith", "scalar_arith", "abs", "neg", "round", "cmp_scalar", "between", "isnull", "nvl"] + (["ceil"] if t == "Number" else ["in"])
        elif t == "String":
            opts += ["strfn", "concat_scalar", "substr", "length", "cmp_scalar", "isnull", "in", "nvl"]
        else:
            opts += ["not", "logic_scalar", "isnull", "nvl"]
        k = r.choice(opts)
        mono = len(sh.ms) == 1
        if k in ("cmp_scalar", "between", "isnull", "in", "length", "ceil", "round") and not mono and k not in ("round", "ceil", "length"):
            return None
        out = None
        if k == "scalar_arith":
            op = r.choice(["+", "-", "*", "/"])
            st = r.choice(NUMERIC)
            lt, lq, lv = lit(r, st, allow_null=True, nonzero=(op == "/" and not self.risky_div))
            left = r.random() < 0.5
            if left or op == "/":
                v, c = f"({vtl} {op} {lt})", f"(DMap {coq} (CBin {BIN[op]} {hole} (CLit {lq})))"
            else:
                v, c = f"({lt} {op} {vtl})", f"(DMap {coq} (CBin {BIN[op]} (CLit {lq}) {hole}))"
            out = self.with_shape(v, c, sh)
        elif k in ("abs", "neg", "not", "ceil"):
            f = {"abs": ("abs({})", "Abs"), "neg": ("(-{})", "Neg"), "not": ("(not {})", "Not"), "ceil": (r.choice(["ceil({})", "floor({})"]), None)}[k]
            un = f[1] or ("Ceil" if f[0].startswith("ceil") else "Floor")
            out = self.with_shape(f[0].format(vtl), f"(DMap {coq} (CUn {un} {hole}))", sh)
        elif k == "round":
            n = r.choice([None, 0, 1])
            f = r.choice(["round", "trunc"])
            v = f"{f}({vtl})" if n is None else f"{f}({vtl}, {n})"
            out = self.with_shape(v, f"(DMap {coq} ({'CRound' if f == 'round' else 'CTrunc'} {hole} {coq_opt(coq_z(n) if n is not None else None)}))", sh)
        elif k == "cmp_scalar":
            op = r.choice(["=", "<>", ">", ">=", "<", "<="])
            lt, lq, _ = lit(r, t)
            out = self.with_shape(f"({vtl} {op} {lt})", f"(DMap {coq} (CBin {BIN[op]} {hole} (CLit {lq})))", sh)
        elif k == "between":
            lo, hi = lit(r, t), lit(r, t)
            out = self.with_shape(f"between({vtl}, {lo[0]}, {hi[0]})", f"(DMap {coq} (CBetween {hole} (CLit {lo[1]}) (CLit {hi[1]})))", sh)
        elif k == "isnull":
            out = self.with_shape(f"isnull({vtl})", f"(DMap {coq} (CUn IsNull {hole}))", sh)
        elif k == "nvl":
            lt, lq, _ = lit(r, t, allow_null=False)
            out = self.with_shape(f"nvl({vtl}, {lt})", f"(DMap {coq} (CNvl {hole} (CLit {lq})))", sh)
        elif k == "in":
            ls = [lit(r, t, allow_null=False) for _ in range(r.choice([1, 2, 3]))]
            neg = r.random() < 0.4
            out = self.with_shape(f"({vtl} {'not_in' if neg else 'in'} {{{', '.join(x[0] for x in ls)}}})",
                                  f"(DMap {coq} ({'CNotIn' if neg else 'CIn'} {hole} {coq_list([x[1] for x in ls])}))", sh)
        elif k == "strfn":
            f = r.choice(["trim", "ltrim", "rtrim", "upper", "lower"])
            out = self.with_shape(f"{f}({vtl})", f"(DMap {coq} (CUn {UNF[f]} {hole}))", sh)
        elif k == "length":
            out = self.with_shape(f"length({vtl})", f"(DMap {coq} (CUn Len {hole}))", sh)
        elif k == "concat_scalar":
            lt, lq, _ = lit(r, "String")
            out = self.with_shape(f"({vtl} || {lt})", f"(DMap {coq} (CBin Concat {hole} (CLit {lq})))", sh)
        elif k == "substr":
            st, ln = r.choice([1, 2]), r.choice([None, 1, 2])
            v = f"substr({vtl}, {st})" if ln is None else f"substr({vtl}, {st}, {ln})"
            out = self.with_shape(v, f"(DMap {coq} (CSubstr {hole} (Some {coq_z(st)}) {coq_opt(coq_z(ln) if ln is not None else None)}))", sh)
        elif k == "logic_scalar":
            op = r.choice(["and", "or", "xor"])
            lt, lq, _ = lit(r, "Boolean")
            out = self.with_shape(f"({vtl} {op} {lt})", f"(DMap {coq} (CBin {BIN[op]} {hole} (CLit {lq})))", sh)
        if out is not None:
            self.note("ds:" + k)
        return out

    def binary(self, a, b):
        r = self.rng
        (va, ca, sa), (vb, cb, sb) = a, b
        ta, tb = {t for _, t in sa.ms}, {t for _, t in sb.ms}
        if sorted(n for n, _ in sa.ms) != sorted(n for n, _ in sb.ms) or not sa.ms:
            return None
        if ta <= set(NUMERIC) and tb <= set(NUMERIC):
            op = r.choice(["+", "-", "*", "/"] + ([">", "=", "<="] if len(sa.ms) == 1 else []))
        elif ta == {"String"} and tb == {"String"}:
            op = r.choice(["||"] + (["=", "<"] if len(sa.ms) == 1 else []))
        elif ta == {"Boolean"} and tb == {"Boolean"}:
            op = r.choice(["and", "or", "xor"])
        else:
            return None
        if op == "/" and not self.risky_div:
            return None
        out = self.with_shape(f"({va} {op} {vb})", f"(DBin {BIN[op]} {ca} {cb})", sa if len(sa.ids) >= len(sb.ids) else Shape(sb.ids, sa.ms))
        if out is not None:
            self.note("dsds:" + op)
        return out

    def gen_flat(self, leaves):
        """one statement: ONE dataset-level operator (or a clause chain) over named datasets (inputs / earlier results)"""
        r = self.rng

        def leaf():
            n = r.choice(list(leaves))
            return n, f"(DVar {coq_string(n)})", leaves[n]
        for _ in range(8):
            k = r.choice(getattr(self, "kinds", ["clause", "clause", "elem", "elem", "binary", "binary"]))
            base = leaf()
            if k == "clause":
                out = base
                for _ in range(r.choice([1, 1, 2, 3])):
                    nxt = self.clause(out)
                    if nxt is None:
                        break
                    out = nxt
                if out is base:
                    out = None
            elif k == "elem":
                out = self.elementwise(base)
            else:
                out = self.binary(base, leaf())
            if out is not None:
                return out
        return None

    def gen(self, depth):
        r = self.rng
        if depth <= 0:
            return self.leaf()
        for _ in range(6):
            k = r.choice(["clause", "clause", "elem", "elem", "binary", "binary"])
            base = self.gen(depth - 1)
            if base is None:
                continue
            if k == "clause":
                out = self.clause(base)
            elif k == "elem":
                out = self.elementwise(base)
            else:
                other = self.gen(r.choice([0, 0, depth - 1]))
                out = self.binary(base, other) if other is not None else None
            if out is not None:
                return out
        return None
