"""C07 — generator and correspondence runner for the validation operators.

Cases are declarative JSON objects (kinds: check, dp, chk_h, hier); from one object are rendered (a) the VTL script for the
engine, (b) the Gallina term over Model/Validation.v evaluated under common.coq_eval.  Both results are canonicalised by
component name and compared; independently the property predicate itself is evaluated on engine output alone
(invalid = the FALSE rows of all; errorcode/errorlevel set iff FALSE; all_measures = all + measures; `all` complete w.r.t. the
operand; imbalance = left - right), using extra result datasets computed by the same script in the other output modes."""
from __future__ import annotations

import hashlib
import json
from fractions import Fraction
from typing import Any, Dict, List, Optional, Tuple

import pandas as pd

import coqval as V
import engine
import exprgen as G
from common import CORPUS, coq_eval, coq_list, coq_string, coq_z

HEADER = ("From Coq Require Import ZArith QArith String List.\nImport ListNotations.\n"
          "From VTL Require Import Base.Val Model.Table Model.Scalar Model.Expr Model.Validation.\nOpen Scope string_scope.\n")

MODES = ["non_null", "non_zero", "partial_null", "partial_zero", "always_null", "always_zero"]
MODE_COQ = {"non_null": "NonNull", "non_zero": "NonZero", "partial_null": "PartialNull", "partial_zero": "PartialZero",
            "always_null": "AlwaysNull", "always_zero": "AlwaysZero"}
IMODE_COQ = {"rule": "IRule", "rule_priority": "IRulePriority", "dataset": "IDataset"}
CMP = {"=": "Eq", ">": "Gt", ">=": "Ge", "<": "Lt", "<=": "Le", "<>": "Neq"}
ITEMS = ["A", "B", "C", "D", "E", "F", "G", "H"]


# ------------------------------------------------------------------ values
def jval(v):
    return str(v) if isinstance(v, Fraction) else v


def unj(v, t):
    return Fraction(v) if (t == "Number" and v is not None) else v


def err_lit(v) -> str:
    """errorcode / errorlevel literal in VTL"""
    if isinstance(v, bool):
        return "true" if v else "false"
    return f'"{v}"' if isinstance(v, str) else str(v)


def ec_val(v) -> str:
    """errorcode is a String column: the engine renders a numeric code as its decimal text"""
    return "VNull" if v is None else f"(VStr {coq_string(str(v))})"


def el_val(v) -> str:
    if v is None:
        return "VNull"
    if isinstance(v, bool):
        return f"(VBool {'true' if v else 'false'})"
    return f"(VInt {coq_z(v)})" if isinstance(v, int) else f"(VStr {coq_string(v)})"


def gen_err(rng, named_pool):
    """errorcode and errorlevel of a single `check`"""
    ec = rng.choice([None, None, rng.choice(named_pool), rng.choice(named_pool), rng.choice([5, 17])])
    el = rng.choice([None, None, 1, 2, 7, rng.choice(["W", "high"]), rng.choice([True, False])])
    return ec, el


LEVEL_STYLES = ["none", "int", "int", "int-gaps", "int-gaps", "bool", "bool-gaps", "str", "str-gaps", "mixed"]


def level_plan(rng, n):
    """errorlevels of the n rules of one ruleset: the component's type is decided over the whole ruleset (Validation.validate:
    all Boolean -> Boolean; none or all Integer -> Number; otherwise String), so rulesets mix rules with and without a level"""
    style = rng.choice(LEVEL_STYLES)
    pool = {"none": [None], "int": [1, 2, 7], "bool": [True, False], "str": ["W", "high"], "mixed": [1, 7, "W", "high", None]}[style.split("-")[0]]
    levels = [rng.choice(pool) for _ in range(n)]
    if style.endswith("-gaps") and n > 1:
        for i in rng.sample(range(n), rng.randrange(1, n)):
            levels[i] = None
    elif style.endswith("-gaps"):
        levels[0] = rng.choice([None, levels[0]])
    return style, levels


def declared_level_type(levels, single=False):
    """the type semantic analysis gives the errorlevel component"""
    nn = [x for x in levels if x is not None]
    if single:
        x = levels[0]
        return "Boolean" if isinstance(x, bool) else "Integer" if (x is None or isinstance(x, int)) else "String"
    if nn and all(isinstance(x, bool) for x in nn):
        return "Boolean"
    if all(isinstance(x, int) for x in nn):
        return "Number"
    return "String"


# ------------------------------------------------------------------ datasets
def ds_engine(dss: Dict[str, dict], order: Optional[Dict[str, List[str]]] = None):
    structs, dps = [], {}
    for name, d in dss.items():
        comps = [(n, t, "Identifier", False) for n, t in d["ids"]] + [(n, t, "Measure", True) for n, t in d["ms"]]
        if order and name in order:
            comps.sort(key=lambda c: order[name].index(c[0]))
        structs.append(engine.ds_struct(name, comps))
        cols = {c[0]: [] for c in comps}
        for k, m in d["rows"]:
            for (n, t), v in zip(d["ids"], k):
                cols[n].append(v)
            for (n, t), v in zip(d["ms"], m):
                cols[n].append(float(v) if isinstance(v, Fraction) else v)
        dps[name] = pd.DataFrame({n: pd.Series(v, dtype="object") for n, v in cols.items()})
    return engine.structures(*structs), dps


def ds_coq(d) -> str:
    rows = coq_list([V.to_row(k, [t for _, t in d["ids"]], m, [t for _, t in d["ms"]]) for k, m in d["rows"]])
    return f"(mkD {coq_list([coq_string(n) for n, _ in d['ids']])} {coq_list([coq_string(n) for n, _ in d['ms']])} {rows})"


def env_coq(dss) -> str:
    return coq_list([f"({coq_string(n)}, {ds_coq(d)})" for n, d in dss.items()])


def gen_rows(rng, ids, ms, null_p=0.25, dense=None):
    import itertools
    spec = {"Id_1": [1, 2, 3, 4], "Id_2": ["A", "B", "C"], "Id_3": ["x", "y"]}
    universe = list(itertools.product(*[spec[n] for n, _ in ids]))
    cls = dense or rng.choice(["all", "none", "some", "some", "some", "some"])
    keys = universe if cls == "all" else [] if cls == "none" else [k for k in universe if rng.random() < 0.55]
    rows = [[list(k), [G.gen_value(rng, t, null_p) for _, t in ms]] for k in keys]
    rng.shuffle(rows)
    return rows


# ------------------------------------------------------------------ check
def gen_check(rng) -> dict:
    nid = rng.choice([1, 2, 2])
    ids = [["Id_1", "Integer"], ["Id_2", "String"]][:nid]
    t1, t2 = rng.choice(["Integer", "Number"]), rng.choice(["Integer", "Number"])
    ids2 = ids if (nid == 1 or rng.random() < 0.85) else ids[:1]
    dss = {"DS_1": {"ids": ids, "ms": [["Me_1", t1]], "rows": gen_rows(rng, ids, [("Me_1", t1)])},
           "DS_2": {"ids": ids2, "ms": [["Me_1", t2]], "rows": gen_rows(rng, ids2, [("Me_1", t2)])}}
    same = ids2 == ids
    hole = '(CCol "$")'
    cmp_op = rng.choice(["=", "<>", ">", ">=", "<", "<="])
    kind = rng.choice(["dsds", "dsds", "dsds", "scalar", "scalar", "isnull", "between"])
    left = right = None
    if kind == "dsds":
        op = [f"DS_1 {cmp_op} DS_2", f'(DBin {CMP[cmp_op]} (DVar "DS_1") (DVar "DS_2"))']
        left, right = "DS_1", "DS_2"
    elif kind == "scalar":
        lt, lq, lv = G.lit(rng, t1)
        op = [f"DS_1 {cmp_op} {lt}", f'(DMap (DVar "DS_1") (CBin {CMP[cmp_op]} {hole} (CLit {lq})))']
        left, right = "DS_1", jval(lv)
    elif kind == "isnull":
        op = ["isnull(DS_1)", f'(DMap (DVar "DS_1") (CUn IsNull {hole}))']
    else:
        lo, hi = G.lit(rng, t1), G.lit(rng, t1)
        op = [f"between(DS_1, {lo[0]}, {hi[0]})", f'(DMap (DVar "DS_1") (CBetween {hole} (CLit {lo[1]}) (CLit {hi[1]})))']
    imb_opts = ["none", "none", "diff", "diff", "ds1"] + (["ds2", "ds2"] if same else [])
    ik = rng.choice(imb_opts)
    imb = None
    if ik == "diff":
        imb = ["DS_1 - DS_2", '(DBin Sub (DVar "DS_1") (DVar "DS_2"))']
    elif ik == "ds1":
        imb = ["DS_1", '(DVar "DS_1")']
    elif ik == "ds2":
        imb = ["DS_2", '(DVar "DS_2")']
    ec, el = gen_err(rng, ["E1", "bad value"])
    return {"kind": "check", "ds": dss, "op": op, "opkind": kind, "cmp": cmp_op if kind in ("dsds", "scalar") else None,
            "left": left, "right": right, "imb": imb, "imbkind": ik, "ec": ec, "el": el,
            "out": rng.choice(["invalid", "all", None])}


def check_text(c, out, name="DS_r"):
    s = f"{name} <- check({c['op'][0]}"
    if c["ec"] is not None:
        s += f" errorcode {err_lit(c['ec'])}"
    if c["el"] is not None:
        s += f" errorlevel {err_lit(c['el'])}"
    if c["imb"] is not None:
        s += f" imbalance {c['imb'][0]}"
    if out:
        s += f" {out}"
    return s + ");\n"


# ------------------------------------------------------------------ check_datapoint
def gen_dp(rng) -> dict:
    nid = rng.choice([1, 2])
    ids = [["Id_1", "Integer"], ["Id_2", "String"]][:nid]
    nm = rng.choice([1, 2, 2, 3])
    ms = [[f"Me_{j}", rng.choice(G.BASIC if j > 1 else ["Integer", "Number"])] for j in range(1, nm + 1)]
    dss = {"DS_1": {"ids": ids, "ms": ms, "rows": gen_rows(rng, ids, ms)}}
    # signature: all measures and optionally identifiers; some with an alias
    sig = []
    cols = {}
    use_alias = rng.random() < 0.3
    for n, t in ms + [x for x in ids if rng.random() < 0.5]:
        alias = ("v" + n[-1] + n[0].lower()) if (use_alias and rng.random() < 0.5) else None
        sig.append([n, alias])
        cols[alias or n] = t
    nr = rng.choice([1, 2, 2, 3, 4, 5])
    named = rng.random() < 0.6
    rules = []
    lstyle, levels = level_plan(rng, nr)
    c = {"kind": "dp", "ds": dss, "sig": sig, "rules": rules, "out": rng.choice(["invalid", "all", "all_measures", None]), "rejected": 0,
         "levels": lstyle}
    st, _ = ds_engine({n: {"ids": [tuple(x) for x in d["ids"]], "ms": [tuple(x) for x in d["ms"]], "rows": []} for n, d in dss.items()})
    for i in range(nr):
        for _try in range(12):
            cg = G.CG(rng, cols, risky_div=False)
            then = cg.gen("Boolean", rng.choice([1, 1, 2]))
            when = cg.gen("Boolean", rng.choice([1, 1, 2])) if rng.random() < 0.55 else None
            ec, el = gen_err(rng, [f"EC{i + 1}", "err"])[0], levels[i]
            rule = {"name": f"r{i + 1}" if named else None, "when": list(when) if when else None, "then": list(then), "ec": ec, "el": el,
                    "hist": cg.hist}
            # the engine's own semantic analysis decides whether the rule is a valid VTL rule (never guessed here)
            probe = dict(c, rules=[dict(rule, name="r1" if named else None)])
            r = engine.semantic_case(dp_ruleset_text(probe) + "DS_r <- check_datapoint(DS_1, dpr1 all);", st)
            if r["ok"]:
                rules.append(rule)
                break
            c["rejected"] += 1
    if not rules:
        rules.append({"name": "r1" if named else None, "when": None, "then": ["true", "(CLit (VBool true))"], "ec": None, "el": None, "hist": {}})
    return c


def dp_ruleset_text(c):
    sig = ", ".join(n if a is None else f"{n} as {a}" for n, a in c["sig"])
    lines = []
    for r in c["rules"]:
        s = (f"{r['name']}: " if r["name"] else "")
        s += (f"when {r['when'][0]} then " if r["when"] else "") + r["then"][0]
        if r["ec"] is not None:
            s += f" errorcode {err_lit(r['ec'])}"
        if r["el"] is not None:
            s += f" errorlevel {err_lit(r['el'])}"
        lines.append("  " + s)
    return f"define datapoint ruleset dpr1 (variable {sig}) is\n" + ";\n".join(lines) + "\nend datapoint ruleset;\n"


def dp_coq(c, out):
    sig = coq_list([f"({coq_string(a or n)}, {coq_string(n)})" for n, a in c["sig"]])
    rules = coq_list([f"(mkRule {coq_string(r['name'] or str(i + 1))} {('(Some ' + r['when'][1] + ')') if r['when'] else 'None'} {r['then'][1]} "
                      f"{ec_val(r['ec'])} {el_val(r['el'])})" for i, r in enumerate(c["rules"])])
    o = {"invalid": "OInvalid", None: "OInvalid", "all": "OAll", "all_measures": "OAllMeasures"}[out]
    return f"d_check_datapoint {ds_coq(c['ds']['DS_1'])} {sig} {rules} {o}"


# ------------------------------------------------------------------ hierarchical rulesets
def gen_hr(rng, kind) -> dict:
    other = rng.choice([[], [["Id_1", "Integer"]], [["Id_1", "Integer"]], [["Id_1", "Integer"], ["Id_3", "String"]]])
    if kind == "hier" and not other and rng.random() < 0.8:
        other = [["Id_1", "Integer"]]       # hierarchy over a dataset whose only identifier is the code item: known finding, keep it rare
    mt = rng.choice(["Number", "Number", "Integer"])
    n_items = rng.choice([2, 3, 4, 5, 6, 8])
    items = ITEMS[:n_items]
    # hidden topological order: an item may only depend on items later in `order`
    order = items[:]
    rng.shuffle(order)
    nr = min(rng.choice([1, 2, 2, 3, 4, 5]), n_items - 1)
    lefts = order[:nr]
    rules = []
    lstyle, levels = level_plan(rng, nr)
    for i, l in enumerate(lefts):
        cands = order[i + 1:]
        k = min(len(cands), rng.choice([1, 2, 2, 3]))
        rs = rng.sample(cands, k)
        right = [[rng.choice(["+", "+", "+", "-"]) if (j > 0 or rng.random() < 0.03) else "", it] for j, it in enumerate(rs)]
        cmp_op = "=" if (kind == "hier" and rng.random() < 0.85) or rng.random() < 0.5 else rng.choice([">", ">=", "<", "<="])
        ec, el = gen_err(rng, [f"H{i + 1}", "imbalanced"])[0], levels[i]
        rules.append({"name": None, "left": l, "cmp": cmp_op, "right": right, "ec": ec, "el": el})
    if kind == "hier" and not any(r["cmp"] == "=" for r in rules):
        rules[0]["cmp"] = "="
    rng.shuffle(rules)
    named = rng.random() < 0.6
    for i, r in enumerate(rules):
        r["name"] = f"r{i + 1}" if named else None
    # data: groups × items, sparse, nulls and zeros frequent
    import itertools
    spec = {"Id_1": [1, 2, 3, 4], "Id_3": ["x", "y"]}
    groups = list(itertools.product(*[spec[n] for n, _ in other]))
    extra = items + (["Z"] if rng.random() < 0.3 else [])
    rows = []
    dens = rng.choice([0.5, 0.75, 0.9, 1.0])
    for g in groups:
        if rng.random() < 0.15:
            continue
        for it in extra:
            if rng.random() < dens:
                r = rng.random()
                v = None if r < 0.15 else 0 if r < 0.35 else (rng.choice([1, 2, 3, 5, 10, -2, -5]) if mt == "Integer" or rng.random() < 0.6
                                                              else Fraction(rng.randrange(-20, 41), 4))
                if v is not None and mt == "Number":
                    v = Fraction(v)
                rows.append([list(g) + [it], [v]])
    rng.shuffle(rows)
    ids = other + [["Id_2", "String"]]
    d = {"ids": ids, "ms": [["Me_1", mt]], "rows": rows}
    comp_order = [n for n, _ in ids] + ["Me_1"]
    if rng.random() < 0.5:
        comp_order = ["Id_2"] + [n for n, _ in other] + ["Me_1"]
    c = {"kind": kind, "ds": {"DS_1": d}, "order": comp_order, "rules": rules, "mode": rng.choice(MODES + ["non_null", "non_zero", None]),
         "levels": lstyle}
    if kind == "chk_h":
        c["out"] = rng.choice(["invalid", "all", "all_measures", None])
    else:
        c["imode"] = rng.choice(["rule", "rule", "rule_priority", "dataset", None])
        c["out"] = rng.choice(["computed", "all", None])
    return c


def hr_ruleset_text(c):
    lines = []
    for r in c["rules"]:
        s = (f"{r['name']}: " if r["name"] else "") + f"{r['left']} {r['cmp']} " + " ".join((sg + " " if sg else "") + it for sg, it in r["right"])
        if r["ec"] is not None:
            s += f" errorcode {err_lit(r['ec'])}"
        if r["el"] is not None:
            s += f" errorlevel {err_lit(r['el'])}"
        lines.append("  " + s)
    return "define hierarchical ruleset hr1 (variable rule Id_2) is\n" + ";\n".join(lines) + "\nend hierarchical ruleset;\n"


def hexpr_coq(right):
    acc = None
    for sg, it in right:
        leaf = f"(HItem {coq_string(it)})"
        if acc is None:
            acc = leaf if sg == "" else f"(HNeg {leaf})" if sg == "-" else f"(HPos {leaf})"
        else:
            acc = f"({'HSub' if sg == '-' else 'HAdd'} {acc} {leaf})"
    return acc


def hr_rules_coq(c):
    return coq_list([f"(mkH {coq_string(r['name'] or str(i + 1))} {coq_string(r['left'])} {CMP[r['cmp']]} {hexpr_coq(r['right'])} "
                     f"{ec_val(r['ec'])} {el_val(r['el'])})" for i, r in enumerate(c["rules"])])


def hr_stmt(c, out, name="DS_r", imode="__case__"):
    mode = c["mode"] or ""
    if c["kind"] == "chk_h":
        return f"{name} <- check_hierarchy(DS_1, hr1 rule Id_2 {mode} {out or ''});\n"
    im = c.get("imode") if imode == "__case__" else imode
    return f"{name} <- hierarchy(DS_1, hr1 rule Id_2 {mode} {im or ''} {out or ''});\n"


def hr_coq(c, out, impl=True):
    mode = MODE_COQ[c["mode"] or "non_null"]
    if c["kind"] == "chk_h":
        o = {"invalid": "CInvalid", None: "CInvalid", "all": "CAll", "all_measures": "CAllMeasures"}[out]
        return f"d_check_hierarchy {ds_coq(c['ds']['DS_1'])} {hr_rules_coq(c)} {mode} {o}"
    o = {"computed": "HComputed", None: "HComputed", "all": "HAll"}[out]
    return (f"d_hierarchy_gen {'true' if impl else 'false'} {ds_coq(c['ds']['DS_1'])} {hr_rules_coq(c)} {mode} "
            f"{IMODE_COQ[c.get('imode') or 'rule']} {o}")


# ------------------------------------------------------------------ rendering of a case
OUTS = {"check": ["invalid", "all"], "dp": ["invalid", "all", "all_measures"], "chk_h": ["invalid", "all", "all_measures"],
        "hier": ["computed", "all"]}


def script_of(c) -> str:
    """DS_r = the case's own statement; DS_<mode> = the same operator in every output mode (for the model-free predicates)"""
    k = c["kind"]
    if k == "check":
        s = check_text(c, c["out"])
        s += "".join(check_text(c, o, f"DS_{o}") for o in OUTS[k])
        s += f"DS_op <- {c['op'][0]};\n"
        return s
    if k == "dp":
        s = dp_ruleset_text(c)
        tail = lambda o: f"check_datapoint(DS_1, dpr1 {o or ''});\n"
        return s + "DS_r <- " + tail(c["out"]) + "".join(f"DS_{o} <- " + tail(o) for o in OUTS[k])
    s = hr_ruleset_text(c) + hr_stmt(c, c["out"])
    return s + "".join(hr_stmt(c, o, f"DS_{o}") for o in OUTS[k])


def coq_of(c, impl=True) -> str:
    k = c["kind"]
    if k == "check":
        inv = "true" if c["out"] == "invalid" else "false"
        imb = f"(Some {c['imb'][1]})" if c["imb"] else "None"
        return f"run_check false {env_coq(c['ds'])} {c['op'][1]} {imb} {ec_val(c['ec'])} {el_val(c['el'])} {inv}"
    if k == "dp":
        return dp_coq(c, c["out"])
    return hr_coq(c, c["out"], impl)


def engine_inputs(c):
    dss = {n: {"ids": [tuple(x) for x in d["ids"]], "ms": [tuple(x) for x in d["ms"]],
               "rows": [(k, [unj(v, t) for v, (_, t) in zip(m, d["ms"])]) for k, m in d["rows"]]} for n, d in c["ds"].items()}
    return ds_engine(dss, {"DS_1": c["order"]} if "order" in c else None)


def coq_ready(c):
    """JSON form (numbers as strings) -> python values for rendering"""
    c = json.loads(json.dumps(c, default=jval))
    for d in c["ds"].values():
        d["rows"] = [[k, [unj(v, t) for v, (_, t) in zip(m, d["ms"])]] for k, m in d["rows"]]
    return c


def run_engine(c):
    st, dp = engine_inputs(c)
    return engine.run_case(script_of(c), st, dp)


# ------------------------------------------------------------------ canonical comparison
def lvl(v):
    if v is None or isinstance(v, bool):
        return v
    try:
        f = Fraction(str(v))
        return f"{f.numerator}/{f.denominator}"
    except Exception:
        return str(v)


def canon_e(v, name, typ):
    """engine value; errorcode / errorlevel must be of the component's declared type (no text in a Number/Boolean column)"""
    if name in ("errorlevel", "errorcode"):
        if v is None:
            return None
        if typ in ("Number", "Integer"):
            if isinstance(v, bool):
                return ("BOOL-IN-NUMERIC-COLUMN", v)
            if isinstance(v, int):
                return f"{v}/1"
            if isinstance(v, str) and "/" in v:
                f = Fraction(v)
                return f"{f.numerator}/{f.denominator}"
            return ("TEXT-IN-NUMERIC-COLUMN", v)
        if typ == "Boolean":
            return v if isinstance(v, bool) else ("NOT-BOOLEAN", v)
        return v if isinstance(v, str) else ("NOT-TEXT", v)
    import exprk
    return exprk.canon_engine_val(v, typ)


def canon_m(t, name, typ):
    if name in ("errorlevel", "errorcode"):
        v = V.from_val(t)
        if v is None:
            return None
        if typ in ("Number", "Integer"):
            return f"{v}/1" if (isinstance(v, int) and not isinstance(v, bool)) else ("BADTYPE", v)
        if typ == "Boolean":
            return v if isinstance(v, bool) else ("BADTYPE", v)
        # String component: the engine renders the literal as text
        return ("true" if v else "false") if isinstance(v, bool) else str(v)
    import exprk
    return exprk.canon_model_val(t, typ)


def model_rows(parsed):
    if parsed[0] == "Err":
        return ("err", parsed[1][1] if isinstance(parsed[1], tuple) else str(parsed[1]))
    d = parsed[1]
    ids = [x[1] for x in d["d_ids"]]
    ms = [x[1] for x in d["d_ms"]]
    rows = []
    for k, m in d["d_rows"]:
        if len(k) != len(ids) or len(m) != len(ms):
            return ("err", "model-arity")
        rows.append(dict(zip(ids + ms, list(k) + list(m))))
    return ("ok", ids, ms, rows)


def compare(er, parsed, name="DS_r") -> Optional[str]:
    m = model_rows(parsed)
    if not er["ok"]:
        kind, code = er["err"]
        if m[0] == "err" and m[1] == code:
            return None
        return f"engine raises {kind} {code} ({er['msg'][:160]}); model gives " + (f"Err {m[1]}" if m[0] == "err" else f"a dataset with {len(m[3])} rows")
    if m[0] == "err":
        return f"engine returns a dataset; model gives Err {m[1]}"
    d = er["datasets"].get(name)
    if d is None:
        return f"engine returned no {name}"
    names = [c[0] for c in d["comps"]]
    types = {c[0]: c[2] for c in d["comps"]}
    _, ids, ms, mrows = m
    if sorted(names) != sorted(ids + ms):
        return f"component names differ: engine {names}, model {ids + ms}"
    if sorted(c[0] for c in d["comps"] if c[1] == "Identifier") != sorted(ids):
        return f"identifier sets differ: engine {[c[0] for c in d['comps'] if c[1] == 'Identifier']}, model {ids}"
    erows = V.sort_rows([tuple(canon_e(v, n, types[n]) for n, v in zip(names, r)) for r in d["rows"]])
    mr = V.sort_rows([tuple(canon_m(r[n], n, types[n]) for n in names) for r in mrows])
    if erows != mr:
        only_e = [r for r in erows if r not in mr][:3]
        only_m = [r for r in mr if r not in erows][:3]
        return f"datapoints differ (columns {names}): only in engine {only_e}; only in model {only_m}"
    return None


def normalise(c, er) -> List[Tuple[str, str]]:
    """Unnamed hierarchical rules: the manual identifies a rule by its position in the ruleset; the engine numbers the rules
    after its dependency sort.  The rule a row belongs to is recovered from the row's code item (left sides are distinct in
    generated rulesets); rows are re-labelled with the textual position and the difference is reported once."""
    if not er["ok"] or c["kind"] != "chk_h" or any(r["name"] for r in c["rules"]):
        return []
    pos = {r["left"]: str(i + 1) for i, r in enumerate(c["rules"])}
    moved = None
    for d in er["datasets"].values():
        names = [x[0] for x in d["comps"]]
        if "ruleid" not in names or "Id_2" not in names:
            continue
        i_r, i_c = names.index("ruleid"), names.index("Id_2")
        rows = []
        for r in d["rows"]:
            want = pos.get(r[i_c])
            if want is not None and r[i_r] != want:
                moved = moved or (r[i_c], r[i_r], want)
                r = tuple(want if j == i_r else v for j, v in enumerate(r))
            rows.append(r)
        d["rows"] = rows
    if moved:
        return [("check_hierarchy:unnamed-rules-numbered-after-dependency-sort",
                 f"rule for code item {moved[0]} is rule {moved[2]} of the ruleset but its rows carry ruleid {moved[1]}")]
    return []


# ------------------------------------------------------------------ the property predicate on engine output alone
def _table(d):
    names = [c[0] for c in d["comps"]]
    idn = [c[0] for c in d["comps"] if c[1] == "Identifier"]
    rows = [dict(zip(names, r)) for r in d["rows"]]
    return names, idn, rows


def _key(r, idn):
    return tuple(r[n] for n in idn)


def predicates(c, er) -> List[Tuple[str, str]]:
    """[(stable key, description)] — violations of the property as stated, decided without the model"""
    if not er["ok"]:
        return []
    out: List[Tuple[str, str]] = []
    D = er["datasets"]
    k = c["kind"]
    if k == "hier":
        comp, al = D.get("DS_computed"), D.get("DS_all")
        if comp and al:
            _, idn, crow = _table(comp)
            _, _, arow = _table(al)
            st, dp = engine_inputs(c)
            inp = {tuple(r[n] for n in idn): r for r in dp["DS_1"].to_dict("records")}
            ck = {_key(r, idn): r for r in crow}
            ak = {_key(r, idn): r for r in arow}
            if len(ck) != len(crow) or len(ak) != len(arow):
                out.append(("hierarchy:duplicate-keys", "hierarchy result has duplicate identifier keys"))
            for key, r in ck.items():
                if key not in ak or ak[key]["Me_1"] != r["Me_1"]:
                    out.append(("hierarchy:all-lacks-computed", f"computed datapoint {key} -> {r['Me_1']} is not in the `all` output as such ({ak.get(key)})"))
                    break
            for key in inp:
                if key not in ak:
                    out.append(("hierarchy:all-lacks-input", f"input datapoint {key} missing from the `all` output"))
                    break
            for key in ak:
                if key not in ck and key not in inp:
                    out.append(("hierarchy:all-invented", f"`all` output has {key} which is neither computed nor input"))
                    break
        return out
    inv, al, am = D.get("DS_invalid"), D.get("DS_all"), D.get("DS_all_measures")
    if not (inv and al):
        return out
    _, idn, irow = _table(inv)
    _, _, arow = _table(al)
    a_by = {_key(r, idn): r for r in arow}
    i_by = {_key(r, idn): r for r in irow}
    tag = {"check": "check", "dp": "check_datapoint", "chk_h": "check_hierarchy"}[k]
    if len(a_by) != len(arow) or len(i_by) != len(irow):
        out.append((f"{tag}:duplicate-keys", "result has duplicate identifier keys"))
    false_keys = {key for key, r in a_by.items() if r["bool_var"] is False}
    if set(i_by) != false_keys:
        out.append((f"{tag}:invalid-differs-from-false-rows-of-all",
                    f"invalid keys {sorted(set(i_by) - false_keys, key=str)[:3]} not FALSE in all; FALSE in all but not invalid {sorted(false_keys - set(i_by), key=str)[:3]}"))
    levels = [c["el"]] if k == "check" else [rl["el"] for rl in c["rules"]]
    want = declared_level_type(levels, single=(k == "check"))
    for dname in ("DS_invalid", "DS_all", "DS_all_measures"):
        dd = D.get(dname)
        if not dd:
            continue
        got = {x[0]: x[2] for x in dd["comps"]}.get("errorlevel")
        py = {"Boolean": (bool,), "Number": (str, int), "Integer": (int,), "String": (str,)}[want]
        i_el = [x[0] for x in dd["comps"]].index("errorlevel")
        badv = [r[i_el] for r in dd["rows"] if r[i_el] is not None and
                (not isinstance(r[i_el], py) or (want == "Number" and isinstance(r[i_el], str) and "/" not in r[i_el]) or
                 (want in ("Number", "Integer") and isinstance(r[i_el], bool)))]
        if got != want or badv:
            out.append((f"{tag}:errorlevel-not-typed-as-declared",
                        f"{dname}: errorlevel component is {got}, Validation.validate gives {want} for levels {levels}; ill-typed values {badv[:3]}"))
            break
    for key, r in a_by.items():
        f = r["bool_var"] is False
        if (not f) and (r["errorcode"] is not None or r["errorlevel"] is not None):
            out.append((f"{tag}:errorcode-set-where-not-false", f"{key}: bool_var={r['bool_var']} errorcode={r['errorcode']} errorlevel={r['errorlevel']}"))
            break
    # errorcode/errorlevel of the rule present exactly on the FALSE rows
    def rule_err(r):
        if k == "check":
            return c["ec"], c["el"]
        rid = r["ruleid"]
        for i, rl in enumerate(c["rules"]):
            if (rl["name"] or str(i + 1)) == rid:
                return rl["ec"], rl["el"]
        return ("?", "?")
    for src in (arow, irow):
        for r in src:
            if src is irow or r["bool_var"] is False:
                ec, el = rule_err(r)
                if lvl(r["errorcode"]) != lvl(ec) or lvl(r["errorlevel"]) != lvl(el):
                    out.append((f"{tag}:errorcode-missing-on-false", f"{_key(r, idn)}: errorcode={r['errorcode']} errorlevel={r['errorlevel']} expected {ec}/{el}"))
                    break
    if am:
        _, _, mrow = _table(am)
        m_by = {_key(r, idn): r for r in mrow}
        if set(m_by) != set(a_by) or any(m_by[q]["bool_var"] != a_by[q]["bool_var"] for q in a_by):
            out.append((f"{tag}:all_measures-differs-from-all", "all_measures and all disagree on datapoints or bool_var"))
    if k == "check":
        op = D.get("DS_op")
        if op:
            _, oid, orow = _table(op)
            mname = [cc[0] for cc in op["comps"] if cc[1] != "Identifier"][0]
            o_by = {_key(r, oid): r[mname] for r in orow}
            lost = [q for q in o_by if q not in a_by]
            if lost:
                lf = [q for q in lost if o_by[q] is False]
                out.append(("check:imbalance-join-drops-datapoints",
                            f"{len(lost)} datapoint(s) of the operand are absent from the `all` output (first {lost[0]}); {len(lf)} of them FALSE and absent from `invalid`"))
            for q, r in a_by.items():
                if q in o_by and o_by[q] != r["bool_var"]:
                    out.append(("check:bool_var-differs-from-operand", f"{q}: operand {o_by[q]} bool_var {r['bool_var']}"))
                    break
        if c["imbkind"] == "diff" and c["opkind"] == "dsds":
            st, dp = engine_inputs(c)
            n2 = [n for n, _ in c["ds"]["DS_2"]["ids"]]
            a = {tuple(r[n] for n in idn): r["Me_1"] for r in dp["DS_1"].to_dict("records")}
            b = {tuple(r[n] for n in n2): r["Me_1"] for r in dp["DS_2"].to_dict("records")}
            for q, r in a_by.items():
                x, y = a.get(q), b.get(tuple(q[idn.index(n)] for n in n2))
                exp = None if (x is None or y is None) else Fraction(x).limit_denominator(10 ** 6) - Fraction(y).limit_denominator(10 ** 6)
                got = None if r["imbalance"] is None else Fraction(str(r["imbalance"]))
                if exp != got:
                    out.append(("check:imbalance-not-left-minus-right", f"{q}: imbalance {got}, left - right = {exp}"))
                    break
    if k == "dp":
        st, dp = engine_inputs(c)
        n_in = len(dp["DS_1"])
        if len(arow) != n_in * len(c["rules"]):
            out.append(("check_datapoint:all-incomplete", f"`all` has {len(arow)} rows for {n_in} datapoints x {len(c['rules'])} rules"))
    return out


# ------------------------------------------------------------------ case plumbing
def gen_case(rng, kind=None) -> dict:
    kind = kind or rng.choice(["check", "check", "dp", "dp", "dp", "chk_h", "chk_h", "hier", "hier"])
    c = gen_check(rng) if kind == "check" else gen_dp(rng) if kind == "dp" else gen_hr(rng, kind)
    return json.loads(json.dumps(c, default=jval))


def case_id(c) -> str:
    return hashlib.sha1(json.dumps(c, sort_keys=True, default=jval).encode()).hexdigest()


def eval_model(cases, tag, impl=True):
    return coq_eval(HEADER, [coq_of(coq_ready(c), impl) for c in cases], tag)


def describe(c) -> Dict[str, str]:
    """histogram keys of one case"""
    k = c["kind"]
    h = {"kind": k, "out": f"{k}:{c['out'] or 'default'}"}
    n = sum(len(d["rows"]) for d in c["ds"].values())
    h["rows"] = "0" if n == 0 else "1-5" if n <= 5 else "6-15" if n <= 15 else "16+"
    if k == "check":
        h["operand"] = "check-op:" + c["opkind"]
        h["imbalance"] = "check-imb:" + c["imbkind"]
        h["err"] = f"ec:{type(c['ec']).__name__} el:{type(c['el']).__name__}"
    else:
        h["nrules"] = f"rules:{len(c['rules'])}"
        h["levels"] = "errorlevels:" + c.get("levels", "corpus")
        if k == "dp":
            h["when"] = f"when:{sum(1 for r in c['rules'] if r['when'])}/{len(c['rules'])}"
        else:
            h["mode"] = f"{k}:{c['mode'] or 'default'}"
            if k == "hier":
                h["imode"] = f"input:{c.get('imode') or 'default'}"
            deps = sum(1 for r in c["rules"] for _, it in r["right"] if any(it == q["left"] for q in c["rules"]))
            h["deps"] = "dependent-rules" if deps else "independent-rules"
    return h


def shrink(c, still_bad):
    """greedy: drop rules, then input rows, while the failure persists"""
    cur = c
    if "rules" in cur:
        i = 0
        while len(cur["rules"]) > 1 and i < len(cur["rules"]):
            cand = json.loads(json.dumps(cur))
            del cand["rules"][i]
            if cand["kind"] == "hier" and not any(r["cmp"] == "=" for r in cand["rules"]):
                i += 1
                continue
            if cand["rules"][0]["name"] is None:
                pass
            if still_bad(cand):
                cur = cand
            else:
                i += 1
    for name in list(cur["ds"]):
        i = 0
        while i < len(cur["ds"][name]["rows"]):
            cand = json.loads(json.dumps(cur))
            del cand["ds"][name]["rows"][i]
            if still_bad(cand):
                cur = cand
            else:
                i += 1
    return cur
