"""Writes /verif/MANIFEST.json from the table below and validates it (and every evidence file) against the schemas.
A property is *claimed* iff harness/props/<id>.py exists and the table has an entry; all others go to not_applicable."""
import json
import sys
from pathlib import Path

import jsonschema

VERIF = Path(__file__).resolve().parent.parent
ALL = [f"C{i:02d}" for i in range(1, 34)]

NOTE_COMMON = ("Trusted: Coq 8.16.1 kernel + vm_compute; no axioms of ours (Print Assumptions captured each run); "
               "the Python translators/harness; ")

CLAIMS = {p.stem: json.loads(p.read_text()) for p in sorted((VERIF / "harness" / "claims").glob("C*.json"))}

NA_REASON = {
    "C23": "about the native C++ extension (no abort/crash/hang on arbitrary bytes, state in C++ globals); it cannot be compiled or "
           "executed in this sandbox, so no translator or correspondence can tie a Gallina model to it, and memory safety/termination "
           "of that C++ is not expressible over an executable model we could validate (DESIGN.md section 7)",
    "C31": "SLL-vs-LL equivalence of a 119-rule ALL(*) grammar is not provable with the installed libraries (no verified ALL(*) "
           "development; grammar-specific and in general undecidable) and the shipped C++ parser cannot be built; sampling the Java "
           "interpreter's two modes would be testing another implementation, not a proof (DESIGN.md section 7)",
}
NOT_YET = "model, theorems and tie for this property are not built yet in this round (planned in DESIGN.md section 4); nothing is claimed"


def build():
    checks = []
    na = []
    for pid in ALL:
        has = (VERIF / "harness" / "props" / f"{pid.lower()}.py").exists() and pid in CLAIMS
        if not has:
            na.append({"property_id": pid, "reason": NA_REASON.get(pid, NOT_YET)})
            continue
        c = CLAIMS[pid]
        checks.append({
            "property_id": pid,
            "quick_cmd": f"bin/check {pid} quick",
            "thorough_cmd": f"bin/check {pid} thorough",
            "evidence_file": f"/verif/evidence/{pid}.json",
            "replay_cmd_template": f"bin/check {pid} --replay {{path}}",
            "engine": "coq-proof",
            "level_claimed": {"category": "proof", "text": c["text"], "design_ref": "DESIGN.md section " + c["ref"]},
            "level_note": c["note"],
            "technique": c["technique"],
        })
    man = {
        "version": 1,
        "setup_cmd": "bin/setup",
        "hooks": {
            "guard": "MEANINGFUL_DATA_VTLENGINE_VERIF",
            "enable": "environment variable MEANINGFUL_DATA_VTLENGINE_VERIF=1 (set by bin/check); pure-Python package, no build step: "
                      "checks import /repo/src directly",
            "baseline_off_cmd": "cd /repo && env -u MEANINGFUL_DATA_VTLENGINE_VERIF /venv/bin/python -m pytest -ra -q -p no:cacheprovider "
                                "--timeout=900 --continue-on-collection-errors",
            "source_commits": json.loads((VERIF / "hooks.json").read_text())["source_commits"] if (VERIF / "hooks.json").exists() else [],
            "add_only": True,
        },
        "engines": [{
            "name": "coq-proof", "path": "/verif/coq",
            "serves_properties": [c["property_id"] for c in checks],
            "kind_free_text": "Coq 8.16.1 development (theories/Model executable Gallina models, Proofs, Props/Cxx.v property theorems, "
                              "Gen/*.v regenerated from /repo each run) + Python harness (translators, correspondence via vm_compute, search)",
        }],
        "checks": checks,
        "not_applicable": na,
        "notes": "Single entry point bin/check <id> quick|thorough|--replay <file>. Known findings: /verif/known_findings.json. "
                 "Design: /verif/DESIGN.md.",
    }
    (VERIF / "MANIFEST.json").write_text(json.dumps(man, indent=1) + "\n")
    schema = json.load(open("/root/.vp/MANIFEST.schema.json"))
    jsonschema.validate(man, schema)
    es = json.load(open("/root/.vp/EVIDENCE.schema.json"))
    bad = 0
    for c in checks:
        p = Path(c["evidence_file"])
        if p.exists():
            try:
                jsonschema.validate(json.load(open(p)), es)
            except Exception as e:
                bad += 1
                print("EVIDENCE INVALID", p, str(e)[:300])
        else:
            print("evidence missing:", p)
    print(f"MANIFEST ok: {len(checks)} claimed, {len(na)} not_applicable, {bad} bad evidence")


if __name__ == "__main__":
    build()
