"""Dataset-level correspondence (K) for the time operators: generated Time_Period / Date series with gaps are run through the real
`vtlengine.run` (engine.run_case); the expectations come from the Gallina specification (one coq_eval batch for all cases), and the
property predicates (calendar-correct result, no duplicate identifiers, shift n then -n = identity, fill gap-free without losing
data, flow/stock inverse) are evaluated on the ENGINE's output.  A disagreement that the macro-faithful model (`*_impl`) predicts is
reported under the stable key of its input shape; any other disagreement gets an `:unpredicted` key."""
from __future__ import annotations

import datetime as _dt
import re
from typing import Any, Dict, List, Optional, Sequence, Tuple

import common
import engine
from translate import period as P

W53 = [1903, 1908, 1914, 1920, 1925, 1931, 1936, 1942, 1948, 1953, 1959, 1964, 1970, 1976, 1981, 1987, 1992, 1998, 2004, 2009,
       2015, 2020, 2026, 2032, 2037, 2043, 2048, 2054, 2060, 2065, 2071, 2076, 2082, 2088, 2093, 2099]
LEAP = [1904, 1996, 2000, 2004, 2016, 2020, 2024, 2096]
PLAIN = [1900, 1999, 2001, 2019, 2021, 2023, 2100]
_RE_OUT = re.compile(r"^(\d{4})-([ASQMWD])(\d+)$")


# ------------------------------------------------------------------ generator-side calendar (inputs only; never an oracle)
def g_periods_in_year(ind: str, y: int) -> int:
    return P.real_periods_in_year(ind, y)


def g_next(p):
    y, i, n = p
    return (y + 1, i, 1) if n >= g_periods_in_year(i, y) else (y, i, n + 1)


def g_prev(p):
    y, i, n = p
    return (y - 1, i, g_periods_in_year(i, y - 1)) if n <= 1 else (y, i, n - 1)


def g_walk(p, k):
    for _ in range(abs(k)):
        p = g_next(p) if k > 0 else g_prev(p)
    return p


def canon(p) -> str:
    y, i, n = p
    return f"{y:04d}A" if i == "A" else f"{y:04d}-{i}{n:0{ {'D': 3, 'M': 2, 'W': 2}.get(i, 1) }d}"


def parse_out(s: str):
    """sdmx_reporting output -> (year, ind, num)"""
    m = _RE_OUT.match(s)
    if not m:
        raise ValueError(f"unexpected time period rendering {s!r}")
    return (int(m.group(1)), m.group(2), int(m.group(3)))


def coq_p(p) -> str:
    return f"(mkP {common.coq_z(p[0])} {P.COQ_IND[p[1]]} {common.coq_z(p[2])})"


def coq_ps(ps) -> str:
    return common.coq_list([coq_p(p) for p in ps])


def enc_p(p) -> int:
    return p[0] * 1000 + p[2]


def coq_d(d: str) -> str:
    y, m, dd = (int(x) for x in d[:10].split("-"))
    return f"(days_from_civil {y} {m} {dd})"


def enc_d(d: Optional[str]) -> Optional[int]:
    if d is None:
        return None
    y, m, dd = (int(x) for x in str(d)[:10].split("-"))
    return y * 10000 + m * 100 + dd


def gen_series(rng, ind: str, n_series: int, length: int) -> List[Tuple[int, Tuple[int, str, int]]]:
    """[(series id, period)] — each series a walk with gaps; starts are biased to the ends of 53-week / leap / plain years."""
    out = []
    for sid in range(1, n_series + 1):
        kind = rng.random()
        y = rng.choice(W53 if (ind == "W" and kind < 0.6) else LEAP if (ind == "D" and kind < 0.6) else W53 + LEAP + PLAIN)
        top = g_periods_in_year(ind, y)
        p = (y, ind, top)
        p = g_walk(p, -rng.randint(0, min(6, length + 2)))
        seen = set()
        for _ in range(length):
            if p not in seen:
                seen.add(p)
                out.append((sid, p))
            p = g_walk(p, 1 if rng.random() < 0.6 else rng.randint(2, 4))
    return out


def gen_fill_series(rng, ind: str) -> List[Tuple[int, Tuple[int, str, int]]]:
    """series for fill_time_series: the first and last YEARS of the data are (mostly) 53-week years for W and leap years for D, and
    the datapoints sit at the year boundaries (last and next-to-last period of the last year, first period of the first year) as
    well as inside; one or two series sharing the year range."""
    special = W53 if ind == "W" else LEAP if ind == "D" else W53 + LEAP + PLAIN
    last = rng.choice(special) if rng.random() < 0.75 else rng.choice(PLAIN)
    first = last - rng.choice([0, 1, 1])
    if rng.random() < 0.3 and ind in "WD":
        cands = [y for y in special if last - 6 <= y < last]
        first = rng.choice(cands) if cands and ind != "D" else first
    out = []
    for sid in range(1, rng.randint(1, 2) + 1):
        ps = set()
        top = g_periods_in_year(ind, last)
        if rng.random() < 0.7:
            ps.add((last, ind, top))
        if rng.random() < 0.5 and top > 1:
            ps.add((last, ind, top - 1))
        if rng.random() < 0.5:
            ps.add((first, ind, 1))
        if rng.random() < 0.4:
            ps.add((first, ind, g_periods_in_year(ind, first)))
        for _ in range(rng.randint(1, 3)):
            y = rng.randint(first, last)
            ps.add((y, ind, rng.randint(1, g_periods_in_year(ind, y))))
        out += [(sid, p) for p in sorted(ps)]
    return out


def tp_structure(measure_type="Number", extra=()):
    comps = [("Id_1", "Integer", "Identifier", False), ("Id_2", "Time_Period", "Identifier", False), ("Me_1", measure_type, "Measure", True)]
    comps += list(extra)
    return engine.structures(engine.ds_struct("DS_1", comps))


def frame(rows: List[Dict[str, Any]]):
    import pandas as pd
    return pd.DataFrame(rows)


def run(script: str, structs, rows: List[Dict[str, Any]], **kw):
    kw.setdefault("time_period_output_format", "sdmx_reporting")
    return engine.run_case(script, structs, {"DS_1": frame(rows)}, **kw)


def rows_of(res, name="DS_r") -> Tuple[List[str], List[tuple]]:
    d = res["datasets"][name]
    return [c[0] for c in d["comps"]], d["rows"]


def num(v) -> Optional[int]:
    """canonical 'p/q' Number -> int (the generators only use integral measures)"""
    if v is None:
        return None
    if isinstance(v, str) and "/" in v:
        a, b = v.split("/")
        return int(a) // int(b) if int(a) % int(b) == 0 else None
    return int(v)
