"""T-types: dumps the type tables, class hierarchy, operator registry, the doc tables of docs/data_types.rst and the complete
function tables of the four promotion functions (evaluated on their whole finite domain) into Gen/Types.v."""
from __future__ import annotations

import importlib
import pkgutil
import re
from typing import Dict, List, Optional, Tuple

from common import GEN, REPO, coq_list, coq_string, write_if_changed

TY = ["String", "Number", "Integer", "TimeInterval", "Date", "TimePeriod", "Duration", "Boolean", "Null"]
COQ_TY = {"String": "TString", "Number": "TNumber", "Integer": "TInteger", "TimeInterval": "TTime", "Date": "TDate",
          "TimePeriod": "TPeriod", "Duration": "TDuration", "Boolean": "TBoolean", "Null": "TNull"}
DOC_NAME = {"String": "String", "Number": "Number", "Integer": "Integer", "Boolean": "Boolean", "Time": "TimeInterval",
            "Date": "Date", "Time_Period": "TimePeriod", "Duration": "Duration"}
COMMUTATIVE_OPS = {"+", "*", "and", "or", "xor", "=", "<>"}


def types():
    import engine
    engine.install()
    D = importlib.import_module("vtlengine.DataTypes")
    return D, {n: getattr(D, n) for n in TY}


def rst_tables(path) -> List[Tuple[List[str], List[List[str]]]]:
    """every `.. list-table::` of the file as (header cells, rows of cells); cells are the text after `- ` / `* - `"""
    lines = path.read_text().splitlines()
    tables = []
    i = 0
    while i < len(lines):
        if lines[i].strip().startswith(".. list-table::"):
            rows: List[List[str]] = []
            i += 1
            while i < len(lines) and (lines[i].strip() == "" or lines[i].startswith("    ")):
                s = lines[i].strip()
                if s.startswith("* - "):
                    rows.append([s[4:].strip()])
                elif s.startswith("- ") and rows:
                    rows[-1].append(s[2:].strip())
                elif s and not s.startswith(":") and rows and not s.startswith("*"):
                    rows[-1][-1] += " " + s
                i += 1
            if rows:
                tables.append((rows[0], rows[1:]))
        else:
            i += 1
    return tables


def doc_cast_tables() -> Dict[str, Dict[str, List[str]]]:
    """{'implicit': {src: [dst…]}, 'explicit': {...}} from the two From/To tables of docs/data_types.rst.
    A cell counts as allowed when it is not the dash."""
    tabs = [t for t in rst_tables(REPO / "docs" / "data_types.rst") if t[0] and t[0][0].startswith("From / To")]
    if len(tabs) < 2:
        raise RuntimeError(f"docs/data_types.rst: expected two From/To tables, found {len(tabs)}")
    out = {}
    for key, (hdr, rows) in zip(("implicit", "explicit"), tabs[:2]):
        cols = [DOC_NAME[h.strip("* ")] for h in hdr[1:]]
        m: Dict[str, List[str]] = {}
        for r in rows:
            src = DOC_NAME[r[0].strip("* ")]
            m[src] = [c for c, cell in zip(cols, r[1:]) if cell.strip() not in ("—", "-", "–", "")]
        if sorted(m) != sorted(DOC_NAME.values()):
            raise RuntimeError("doc table rows are not the eight basic types: " + str(sorted(m)))
        out[key] = m
    return out


def registry():
    import engine
    engine.install()
    O = importlib.import_module("vtlengine.Operators")
    for m in pkgutil.iter_modules(O.__path__):
        importlib.import_module("vtlengine.Operators." + m.name)

    def subs(c):
        out = []
        for s in c.__subclasses__():
            out.append(s)
            out += subs(s)
        return out
    D, T = types()
    rev = {v: k for k, v in T.items()}
    rows = []
    for c in sorted(set(subs(O.Operator)), key=lambda c: (c.__module__, c.__name__)):
        kind = 2 if issubclass(c, O.Binary) else 1 if issubclass(c, O.Unary) else 0
        op = getattr(c, "op", None)
        if kind == 0 or not isinstance(op, str):
            continue
        tc, rt = c.type_to_check, c.return_type
        if (tc is not None and tc not in rev) or (rt is not None and rt not in rev):
            raise RuntimeError(f"operator {c.__name__}: type_to_check/return_type is not one of the nine scalar types")
        rows.append({"cls": c, "name": f"{c.__module__.split('.')[-1]}.{c.__name__}", "op": op, "arity": kind,
                     "tc": rev.get(tc), "rt": rev.get(rt), "comm": op in COMMUTATIVE_OPS and kind == 2})
    return rows


def _o(t: Optional[str]) -> str:
    return "None" if t is None else f"(Some {COQ_TY[t]})"


def function_tables():
    D, T = types()
    from vtlengine.Exceptions import SemanticError
    rev = {v: k for k, v in T.items()}
    opt = [None] + TY
    binp, binc, unp, unc = [], [], [], []

    def call(f, *a):
        try:
            r = f(*a)
            return rev[r] if isinstance(r, type) else r
        except SemanticError:
            return "RAISE"
    for l in TY:
        for tc in opt:
            for rt in opt:
                a = (T[l], T[tc] if tc else None, T[rt] if rt else None)
                unp.append(((l, tc, rt), call(D.unary_implicit_promotion, *a)))
                unc.append(((l, tc, rt), bool(call(D.check_unary_implicit_promotion, *a))))
                for r in TY:
                    b = (T[l], T[r], T[tc] if tc else None, T[rt] if rt else None)
                    binp.append(((l, r, tc, rt), call(D.binary_implicit_promotion, *b)))
                    binc.append(((l, r, tc, rt), bool(call(D.check_binary_implicit_promotion, *b))))
    return binp, binc, unp, unc


def emit() -> dict:
    D, T = types()
    rev = {v: k for k, v in T.items()}
    scal = sorted(v.__name__ for v in D.SCALAR_TYPES.values()) if hasattr(D, "SCALAR_TYPES") else sorted(TY)
    if sorted(set(scal)) != sorted(TY):
        raise RuntimeError(f"the scalar types of the code are not the nine modelled ones: {scal}")
    impl = {k: sorted(rev[x] for x in D.IMPLICIT_TYPE_PROMOTION_MAPPING[T[k]]) for k in TY}
    expl = {k: sorted(rev[x] for x in D.EXPLICIT_WITHOUT_MASK_TYPE_PROMOTION_MAPPING[T[k]]) for k in TY}
    sub = [(a, b) for a in TY for b in TY if issubclass(T[a], T[b])]
    comp_name = {k: D.COMP_NAME_MAPPING[T[k]] for k in TY}
    doc = doc_cast_tables()
    reg = registry()
    binp, binc, unp, unc = function_tables()
    L = ["(* GENERATED by harness/translate/types.py from /repo's working tree on every run. Do not edit. *)",
         "From Coq Require Import String List. Import ListNotations.",
         "From VTL Require Import Model.Types.", "Open Scope string_scope.", ""]

    def tyl(xs):
        return coq_list([COQ_TY[x] for x in xs])

    def table(name, m, keys):
        L.append(f"Definition {name} (t : ty) : list ty := match t with")
        for k in keys:
            L.append(f"  | {COQ_TY[k]} => {tyl(m[k])}")
        if len(keys) < 9:
            L.append("  | _ => []")
        L.append("  end.\n")
    table("implicit_code", impl, TY)
    table("explicit_code", expl, TY)
    table("doc_implicit_rows", doc["implicit"], sorted(doc["implicit"]))
    table("doc_explicit_rows", doc["explicit"], sorted(doc["explicit"]))
    L.append("Definition subclass_pairs : list (ty * ty) := " + coq_list([f"({COQ_TY[a]}, {COQ_TY[b]})" for a, b in sub]) + ".\n")
    L.append("Definition comp_name_code (t : ty) : string := match t with")
    for k in TY:
        L.append(f"  | {COQ_TY[k]} => {coq_string(comp_name[k])}")
    L.append("  end.\n")
    L.append("Definition registry : list opinfo := [")
    L.append(";\n".join(f"  mkOp {coq_string(r['name'])} {coq_string(r['op'])} {r['arity']} {_o(r['tc'])} {_o(r['rt'])} "
                        f"{'true' if r['comm'] else 'false'}" for r in reg))
    L.append("].\n")

    def res(v):
        return "None" if v == "RAISE" else f"(Some {COQ_TY[v]})"
    L.append("Definition bin_promo_tab : list ((ty * ty * option ty * option ty) * option ty) := [")
    L.append(";\n".join(f"  (({COQ_TY[l]}, {COQ_TY[r]}, {_o(tc)}, {_o(rt)}), {res(v)})" for (l, r, tc, rt), v in binp))
    L.append("].\n")
    L.append("Definition bin_check_tab : list ((ty * ty * option ty * option ty) * bool) := [")
    L.append(";\n".join(f"  (({COQ_TY[l]}, {COQ_TY[r]}, {_o(tc)}, {_o(rt)}), {'true' if v else 'false'})" for (l, r, tc, rt), v in binc))
    L.append("].\n")
    L.append("Definition un_promo_tab : list ((ty * option ty * option ty) * option ty) := [")
    L.append(";\n".join(f"  (({COQ_TY[l]}, {_o(tc)}, {_o(rt)}), {res(v)})" for (l, tc, rt), v in unp))
    L.append("].\n")
    L.append("Definition un_check_tab : list ((ty * option ty * option ty) * bool) := [")
    L.append(";\n".join(f"  (({COQ_TY[l]}, {_o(tc)}, {_o(rt)}), {'true' if v else 'false'})" for (l, tc, rt), v in unc))
    L.append("].\n")
    write_if_changed(GEN / "Types.v", "\n".join(L))
    return {"impl": impl, "expl": expl, "doc": doc, "reg": reg, "sub": sub, "binp": binp, "binc": binc, "unp": unp, "unc": unc,
            "comp_name": comp_name}


def regenerate():
    emit()


if __name__ == "__main__":
    d = emit()
    print(len(d["reg"]), "operators;", len(d["binp"]), "binary tuples;", len(d["unp"]), "unary tuples")
    print(d["doc"])
