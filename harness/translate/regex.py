"""T-regex: the loader's pattern STRINGS (imported from the working tree on every run) -> regex ASTs in Gen/Regex.v for the
Gallina Brzozowski matcher (Model/Regex.v, proved correct in Proofs/RegexP.v).

Parsing is done by CPython's own regex parser (`re._parser`, the parser `re.compile` uses), so no second reading of the
syntax is introduced.  Supported subset: literals, classes (ranges, negation, \\d \\w \\s inside or outside classes), `.`,
`?` `*` `+` `{m,n}` (greedy or lazy - the full-match language is the same), `|`, groups without flags, `^`/`$` at the two
ends of every top-level alternative.  Anything else raises Unsupported -> the caller records a failed obligation.
Assumption (stated in the evidence): subject strings are ASCII, so that \\d = [0-9] in Python as in RE2/DuckDB.

`kcheck(ctx)` is the K tie of the matcher itself: generated strings (walks through each AST, their mutations, random strings
over the pattern's alphabet) are decided by Python `re` under the pattern's real usage (search / match / fullmatch), by
DuckDB `regexp_matches` for the SQL-side patterns, and by `matches` inside Coq (vm_compute); all three must agree."""
from __future__ import annotations

import importlib
import re
from typing import Any, Dict, List, Tuple

from common import GEN, coq_eval, coq_list, coq_string, write_if_changed

try:  # Python >= 3.11
    import re._parser as sre_parse  # type: ignore
    import re._constants as sre_c  # type: ignore
except ImportError:  # pragma: no cover
    import sre_parse  # type: ignore
    import sre_constants as sre_c  # type: ignore


class Unsupported(Exception):
    pass


# (Coq name, module, attribute, usage by the code, also evaluated by DuckDB regexp_matches)
PATTERNS = [
    ("re_TIME_PERIOD", "vtlengine.duckdb_transpiler.io._validation", "TIME_PERIOD_PATTERN", "search", True),
    ("re_TIME_INTERVAL", "vtlengine.duckdb_transpiler.io._validation", "TIME_INTERVAL_PATTERN", "search", True),
    ("re_DURATION", "vtlengine.duckdb_transpiler.io._validation", "DURATION_PATTERN", "search", True),
    ("re_VALID_DATE", "vtlengine.duckdb_transpiler.io._validation", "VALID_DATE_REGEX", "search", True),
    ("re_vtl_period", "vtlengine.DataTypes._time_checking", "_vtl_period_re", "fullmatch", False),
    ("re_sdmx_period", "vtlengine.DataTypes._time_checking", "_sdmx_period_re", "fullmatch", False),
    ("re_strict_datetime", "vtlengine.DataTypes._time_checking", "_STRICT_DATETIME_RE", "match", False),
    ("re_time_interval_py", "vtlengine.DataTypes._time_checking", "time_pattern", "fullmatch", False),
    ("re_year_py", "vtlengine.DataTypes._time_checking", "year_pattern", "fullmatch", False),
    ("re_month_py", "vtlengine.DataTypes._time_checking", "month_pattern", "fullmatch", False),
    ("re_iso_date_py", "vtlengine.DataTypes._time_checking", "_iso_date_re", "fullmatch", False),
    ("re_iso_month_py", "vtlengine.DataTypes._time_checking", "_iso_month_re", "fullmatch", False),
]


def load_patterns() -> List[Dict[str, Any]]:
    import engine
    engine.install()
    out = []
    for name, mod, attr, usage, sql in PATTERNS:
        m = importlib.import_module(mod)
        obj = getattr(m, attr)
        flags = 0
        if isinstance(obj, re.Pattern):
            flags = obj.flags & ~re.UNICODE
            obj = obj.pattern
        if not isinstance(obj, str):
            raise Unsupported(f"{mod}.{attr} is not a pattern string")
        out.append({"name": name, "where": f"{mod}.{attr}", "pattern": obj, "usage": usage, "sql": sql, "flags": flags})
    return out


# ---------------------------------------------------------------------------- parse tree -> neutral AST
# neutral AST: ('emp',) ('eps',) ('chr', byte) ('cls', neg, [(lo,hi)…]) ('cat', [..]) ('alt', [..]) ('star', x)
#              ('rep', m, n|None, x)
_CAT = {
    "CATEGORY_DIGIT": [(48, 57)],
    "CATEGORY_WORD": [(48, 57), (65, 90), (95, 95), (97, 122)],
    "CATEGORY_SPACE": [(9, 13), (32, 32)],
}


def _is_at(item) -> bool:
    return str(item[0]) == "AT"


def _conv_seq(items, at_start: bool, at_end: bool):
    items = list(items)
    n = len(items)
    out = []
    for i, (op, av) in enumerate(items):
        start_here = at_start and all(_is_at(it) for it in items[:i])
        end_here = at_end and all(_is_at(it) for it in items[i + 1:])
        ops = str(op)
        if ops == "LITERAL":
            if av < 128:
                out.append(("chr", av))
            else:
                out.extend(("chr", b) for b in chr(av).encode("utf8"))
        elif ops == "NOT_LITERAL":
            if av >= 128:
                raise Unsupported("non-ASCII negated literal")
            out.append(("cls", True, [(av, av)]))
        elif ops == "ANY":
            out.append(("cls", True, [(10, 10)]))
        elif ops == "IN":
            neg = False
            rs: List[Tuple[int, int]] = []
            for o2, a2 in av:
                o2s = str(o2)
                if o2s == "NEGATE":
                    neg = True
                elif o2s == "LITERAL":
                    if a2 >= 128:
                        raise Unsupported("non-ASCII class member")
                    rs.append((a2, a2))
                elif o2s == "RANGE":
                    if a2[1] >= 128:
                        raise Unsupported("non-ASCII class range")
                    rs.append((a2[0], a2[1]))
                elif o2s == "CATEGORY" and str(a2) in _CAT:
                    rs.extend(_CAT[str(a2)])
                else:
                    raise Unsupported(f"class member {o2s} {a2}")
            out.append(("cls", neg, rs))
        elif ops == "CATEGORY":
            if str(av) not in _CAT:
                raise Unsupported(f"category {av}")
            out.append(("cls", False, list(_CAT[str(av)])))
        elif ops in ("MAX_REPEAT", "MIN_REPEAT"):
            lo, hi, sub = av
            inner = _conv_seq(sub, False, False)
            if hi == sre_c.MAXREPEAT:
                out.append(("star", inner) if lo == 0 else ("rep", lo, None, inner))
            else:
                if hi > 64:
                    raise Unsupported(f"repeat bound {hi}")
                out.append(("rep", lo, hi, inner))
        elif ops == "SUBPATTERN":
            group, add_flags, del_flags, sub = av
            if add_flags or del_flags:
                raise Unsupported("inline flags")
            out.append(_conv_seq(sub, start_here, end_here))
        elif ops == "BRANCH":
            _, alts = av
            out.append(("alt", [_conv_seq(a, start_here, end_here) for a in alts]))
        elif ops == "AT":
            avs = str(av)
            if avs == "AT_BEGINNING" and start_here:
                continue
            if avs == "AT_END" and end_here:
                continue
            raise Unsupported(f"anchor {avs} not at an end of a top-level alternative")
        else:
            raise Unsupported(f"construct {ops}")
    if not out:
        return ("eps",)
    return out[0] if len(out) == 1 else ("cat", out)


def _all_begin(items) -> bool:
    for op, av in items:
        ops = str(op)
        if ops == "AT":
            if str(av) == "AT_BEGINNING":
                return True
            continue
        if ops == "BRANCH":
            return all(_all_begin(a) for a in av[1])
        if ops == "SUBPATTERN":
            return _all_begin(av[3])
        return False
    return False


def _all_end(items) -> bool:
    for op, av in reversed(list(items)):
        ops = str(op)
        if ops == "AT":
            if str(av) == "AT_END":
                return True
            continue
        if ops == "BRANCH":
            return all(_all_end(a) for a in av[1])
        if ops == "SUBPATTERN":
            return _all_end(av[3])
        return False
    return False


def to_ast(pattern: str, usage: str, flags: int = 0):
    if flags:
        raise Unsupported(f"compile flags {flags}")
    tree = sre_parse.parse(pattern)
    if tree.state.flags & ~(re.UNICODE):
        raise Unsupported("global flags in pattern")
    items = list(tree)
    b, e = _all_begin(items), _all_end(items)
    if usage == "search" and not (b and e):
        raise Unsupported("pattern used with search/regexp_matches is not anchored at both ends of every alternative")
    if usage == "match" and not e:
        raise Unsupported("pattern used with match() is not anchored at the end of every alternative")
    return _conv_seq(items, True, True)


# ---------------------------------------------------------------------------- neutral AST -> Coq term
def _coq_ascii(b: int) -> str:
    return f'(ascii_of_nat {b})'


def to_coq(a) -> str:
    k = a[0]
    if k == "emp":
        return "REmp"
    if k == "eps":
        return "REps"
    if k == "chr":
        return f"(RChr {_coq_ascii(a[1])})"
    if k == "cls":
        if not a[1] and a[2] == [(48, 57)]:
            return "rdigit"
        return f"(RCls {'true' if a[1] else 'false'} {coq_list([f'({_coq_ascii(lo)}, {_coq_ascii(hi)})' for lo, hi in a[2]])})"
    if k == "cat":
        return f"(rcats {coq_list([to_coq(x) for x in a[1]])})"
    if k == "alt":
        return f"(ralts {coq_list([to_coq(x) for x in a[1]])})"
    if k == "star":
        return f"(RStar {to_coq(a[1])})"
    if k == "rep":
        _, lo, hi, x = a
        if hi is None:
            return f"(rrep_inf {lo} {to_coq(x)})"
        if (lo, hi) == (0, 1):
            return f"(ropt {to_coq(x)})"
        return f"(rrep {lo} {hi} {to_coq(x)})"
    raise Unsupported(f"ast node {k}")


def emit() -> Dict[str, Any]:
    pats = load_patterns()
    lines = ["(* GENERATED by harness/translate/regex.py from the pattern strings of the working tree - do not edit. *)",
             "From Coq Require Import Ascii String List.", "Import ListNotations.", "From VTL Require Import Model.Regex.", ""]
    failures = []
    for p in pats:
        try:
            p["ast"] = to_ast(p["pattern"], p["usage"], p["flags"])
            term = to_coq(p["ast"])
        except Unsupported as e:
            p["ast"] = None
            failures.append(f"{p['where']}: {e}")
            term = "REmp"
        safe = p["pattern"].replace("(*", "( *").replace("*)", "* )")
        lines.append(f"(* {p['where']}  [{p['usage']}]  {safe} *)")
        lines.append(f"Definition {p['name']} : re := {term}.")
        lines.append("")
    lines.append("Definition all_patterns : list (string * re) := " +
                 coq_list([f"({coq_string(p["name"])}%string, {p["name"]})" for p in pats]) + ".")
    write_if_changed(GEN / "Regex.v", "\n".join(lines) + "\n")
    return {"patterns": pats, "failures": failures}


def regenerate():
    emit()


# ---------------------------------------------------------------------------- K tie of the matcher
def _walk(a, rng, depth=0) -> str:
    k = a[0]
    if k == "eps":
        return ""
    if k == "emp":
        return ""
    if k == "chr":
        return chr(a[1])
    if k == "cls":
        if a[1]:
            cands = [c for c in range(32, 127) if not any(lo <= c <= hi for lo, hi in a[2])]
            return chr(rng.choice(cands))
        lo, hi = rng.choice(a[2])
        return chr(rng.choice([lo, hi, rng.randint(lo, hi)]))
    if k == "cat":
        return "".join(_walk(x, rng, depth + 1) for x in a[1])
    if k == "alt":
        return _walk(rng.choice(a[1]), rng, depth + 1)
    if k == "star":
        return "".join(_walk(a[1], rng, depth + 1) for _ in range(rng.choice([0, 0, 1, 2, 3])))
    if k == "rep":
        _, lo, hi, x = a
        n = rng.choice([lo, hi if hi is not None else lo + 2, rng.randint(lo, hi if hi is not None else lo + 3)])
        return "".join(_walk(x, rng, depth + 1) for _ in range(n))
    raise Unsupported(k)


def _alphabet(a, acc):
    k = a[0]
    if k == "chr":
        acc.add(chr(a[1]))
    elif k == "cls":
        for lo, hi in a[2]:
            acc.add(chr(lo)); acc.add(chr(hi))
            if lo > 32:
                acc.add(chr(lo - 1))
            if hi < 126:
                acc.add(chr(hi + 1))
    elif k in ("cat", "alt"):
        for x in a[1]:
            _alphabet(x, acc)
    elif k == "star":
        _alphabet(a[1], acc)
    elif k == "rep":
        _alphabet(a[3], acc)


def _mutate(s: str, alpha: List[str], rng) -> str:
    if not s:
        return rng.choice(alpha)
    i = rng.randrange(len(s))
    r = rng.random()
    if r < 0.3:
        return s[:i] + s[i + 1:]
    if r < 0.6:
        return s[:i] + rng.choice(alpha) + s[i:]
    if r < 0.9:
        return s[:i] + rng.choice(alpha) + s[i + 1:]
    return s + rng.choice(alpha)


def kcheck(ctx, d=None, per_pattern=None) -> int:
    """Returns the number of disagreements (each one is also a failed obligation)."""
    d = d or emit()
    per_pattern = per_pattern or (160 if ctx.tier == "quick" else 1500)
    import duckdb
    conn = duckdb.connect()
    cases = []  # (pattern dict, string)
    for p in d["patterns"]:
        if p["ast"] is None:
            continue
        alpha = set("0123456789 -:/TZ.+AaXx")
        _alphabet(p["ast"], alpha)
        alpha = sorted(c for c in alpha if 32 <= ord(c) < 127)
        seen = set()
        for i in range(per_pattern * 3):
            if len(seen) >= per_pattern:
                break
            s = _walk(p["ast"], ctx.rng)
            r = ctx.rng.random()
            if r < 0.45:
                pass
            elif r < 0.8:
                for _ in range(ctx.rng.choice([1, 1, 2])):
                    s = _mutate(s, alpha, ctx.rng)
            else:
                s = "".join(ctx.rng.choice(alpha) for _ in range(ctx.rng.randint(0, 12)))
            seen.add(s)
        seen.update(["", " "])
        for s in sorted(seen):
            cases.append((p, s))
    exprs = [f"matches_s {p['name']} {coq_string(s)}" for p, s in cases]
    got = coq_eval("From Coq Require Import String List.\nImport ListNotations.\nFrom VTL Require Import Model.Regex Gen.Regex.\n"
                   "Open Scope string_scope.", exprs, f"regexk_{ctx.pid.lower()}", shard=700)
    bad = 0
    npos = 0
    for (p, s), g in zip(cases, got):
        rx = re.compile(p["pattern"])
        py = {"search": rx.search, "match": rx.match, "fullmatch": rx.fullmatch}[p["usage"]](s) is not None
        npos += py
        ok = (py == bool(g))
        duck = None
        if p["sql"]:
            duck = conn.execute("SELECT regexp_matches(?, ?)", [s, p["pattern"]]).fetchone()[0]
            ok = ok and (duck == bool(g))
        ctx.count(("regex", p["name"], s))
        if not ok:
            bad += 1
            ctx.oblige(f"T-regex: Gallina matcher agrees with Python re / DuckDB on {p['name']}", False,
                       f"string {s!r}: python={py} duckdb={duck} gallina={g} (pattern {p['pattern'][:80]})")
    ctx.cov["regex_k"] = {"patterns": len([p for p in d["patterns"] if p["ast"] is not None]), "strings": len(cases),
                          "python_positive": npos, "disagreements": bad}
    if not bad:
        ctx.oblige(f"T-regex: Gallina matcher = Python re = DuckDB regexp_matches on {len(cases)} generated strings "
                   f"({npos} matching) over {ctx.cov['regex_k']['patterns']} patterns", True)
    return bad


if __name__ == "__main__":
    r = emit()
    for p in r["patterns"]:
        print(p["name"], p["usage"], "OK" if p["ast"] is not None else "UNSUPPORTED")
    print(r["failures"])
