"""T-conf: constants of duckdb_transpiler/Config/config.py and Utils/_number_config.py (import), the documented ranges of
docs/environment_variables.rst (rst scanner) and the COMPLETE behaviour table of the real `set_decimal_config` over
(width, scale) in (-5..45 U {unset})^2 x prior module globals, obtained by calling the real function with patched os.environ
and patched module globals, written into Gen/Config.v on every run.

Prior globals = the defaults + the globals left behind by every single-variable setting -5..45 started from the defaults +
a few states that only a misbehaving function could leave ((45,10), (28,3), (3,3), (-1,-1), (0,0)).

Each row = (kind, value reported by the error message, globals after the call).  Compression (done here, stated in the
evidence): a row with BOTH variables set is evaluated by the real function under EVERY prior; when one row — with the globals
after the call written explicitly (`PNew w s`) or as "unchanged" (`PSame`) — describes all of them it is written once
(`tab_both`), otherwise it goes, like every row with an unset variable, into the per-prior table (`tab_unset`).
`Model.Config.code_table` decompresses."""
from __future__ import annotations

import os
import re
from typing import Dict, List, Optional, Tuple

from common import GEN, REPO, coq_list, coq_z, write_if_changed

LO, HI = -5, 45
AXIS: List[Optional[int]] = [None] + list(range(LO, HI + 1))
WVAR, SVAR = "VTL_DUCKDB_DECIMAL_WIDTH", "OUTPUT_NUMBER_SIGNIFICANT_DIGITS"
SYNTHETIC_PRIORS = [(45, 10), (28, 3), (3, 3), (-1, -1), (0, 0)]


def cfg_module():
    import engine
    engine.install()
    import importlib
    return importlib.import_module("vtlengine.duckdb_transpiler.Config.config")


def constants() -> Dict[str, int]:
    C = cfg_module()
    import importlib
    N = importlib.import_module("vtlengine.Utils._number_config")
    if C.DECIMAL_WIDTH_ENV_VAR != WVAR or C.DECIMAL_SCALE_ENV_VAR != SVAR:
        raise RuntimeError("environment variable names of config.py changed: " + C.DECIMAL_WIDTH_ENV_VAR + ", " + C.DECIMAL_SCALE_ENV_VAR)
    if N.ENV_OUTPUT_SIGNIFICANT_DIGITS != SVAR:
        raise RuntimeError("_number_config.ENV_OUTPUT_SIGNIFICANT_DIGITS is not " + SVAR)
    k = {"min_w": C.MIN_DECIMAL_WIDTH, "max_w": C.MAX_DECIMAL_WIDTH, "def_w": C.DEFAULT_DECIMAL_WIDTH,
         "min_s": C.MIN_DECIMAL_SCALE, "max_s": C.MAX_DECIMAL_SCALE, "def_s": C.DEFAULT_DECIMAL_SCALE,
         "disable": C.DISABLE_VALUE,
         "nc_min": N.MIN_SIGNIFICANT_DIGITS, "nc_max": N.MAX_SIGNIFICANT_DIGITS, "nc_disable": N.DISABLED_VALUE,
         "nc_default": N.DEFAULT_SIGNIFICANT_DIGITS}
    for n, v in k.items():
        if not isinstance(v, int) or isinstance(v, bool):
            raise RuntimeError(f"constant {n} is not an int: {v!r}")
    return k


def doc_ranges() -> Dict[str, Dict[str, int]]:
    """{var: {lo, hi, disable, default}} from the list-table under each variable's heading of docs/environment_variables.rst.
    'Not defined' row: the bold number marked (DuckDB) when the cell names two engines, else the first bold number."""
    text = (REPO / "docs" / "environment_variables.rst").read_text()
    lines = text.splitlines()
    out: Dict[str, Dict[str, int]] = {}
    for var in (WVAR, SVAR):
        idx = [i for i, l in enumerate(lines[:-1]) if l.strip() == f"``{var}``" and set(lines[i + 1].strip()) <= set("=") and lines[i + 1].strip()]
        if len(idx) != 1:
            raise RuntimeError(f"docs/environment_variables.rst: heading of {var} found {len(idx)} times")
        j = idx[0] + 2
        sect = []
        while j < len(lines) - 1 and not (lines[j].strip() and len(set(lines[j + 1].strip())) == 1 and lines[j + 1].strip()[:3] in ("===", "***", "###", "---")):
            sect.append(lines[j])
            j += 1
        rows: List[List[str]] = []
        for l in sect:
            s = l.strip()
            if s.startswith("* - "):
                rows.append([s[4:]])
            elif s.startswith("- ") and rows:
                rows[-1].append(s[2:])
            elif s and rows and l.startswith("       ") and not s.startswith(":"):
                rows[-1][-1] += " " + s
        d: Dict[str, int] = {}
        for r in rows:
            if len(r) < 2:
                continue
            key, beh = r[0].strip(), r[1]
            m = re.fullmatch(r"``(-?\d+)`` to ``(-?\d+)``", key)
            if m:
                d["lo"], d["hi"] = int(m.group(1)), int(m.group(2))
            elif re.fullmatch(r"``(-?\d+)``", key):
                d["disable"] = int(key.strip("`"))
                mm = re.search(r"maximum (?:scale|precision) of (\d+)", beh)
                if mm:
                    d["disable_means"] = int(mm.group(1))
            elif key.lower().startswith("not defined"):
                mm = re.search(r"\*\*(\d+)\*\*\s*\(DuckDB\)", beh) or re.search(r"\*\*(\d+)\*\*", beh)
                if mm:
                    d["default"] = int(mm.group(1))
        missing = [k for k in ("lo", "hi", "disable", "default", "disable_means") if k not in d]
        if missing:
            raise RuntimeError(f"docs/environment_variables.rst: table of {var} lacks {missing} (read {rows})")
        out[var] = d
    return out


def _call(C, ew: Optional[int], es: Optional[int], gw: int, gs: int) -> Tuple[int, int, int, int]:
    """(kind, reported value, width global after, scale global after); kind 0 accepted (reported 0), 1 config error naming
    the scale variable, 2 config error naming the width variable.  Anything else raises (broken tie)."""
    from vtlengine.Exceptions import RunTimeError
    C.DECIMAL_WIDTH, C.DECIMAL_SCALE = gw, gs
    for var, v in ((WVAR, ew), (SVAR, es)):
        if v is None:
            os.environ.pop(var, None)
        else:
            os.environ[var] = str(v)
    reported = 0
    try:
        C.set_decimal_config()
        kind = 0
    except RunTimeError as e:
        code = e.args[1] if len(e.args) > 1 else None
        msg = str(e.args[0])
        if code != "0-4-1-1":
            raise RuntimeError(f"set_decimal_config raised code {code} for width={ew} scale={es} globals=({gw},{gs})")
        m = re.search(r"Invalid value for (\w+): (-?\d+)\. Expected an integer between (-?\d+) and (-?\d+), or (-?\d+) to disable", msg)
        if not m:
            raise RuntimeError("0-4-1-1 message not understood: " + msg)
        kind = 1 if m.group(1) == SVAR else 2 if m.group(1) == WVAR else None
        if kind is None:
            raise RuntimeError("0-4-1-1 names an unknown variable: " + msg)
        reported = int(m.group(2))
        # the lower bound shown may be the constant or (width below scale) the effective scale: only max / disable are checked
        hi = C.MAX_DECIMAL_SCALE if kind == 1 else C.MAX_DECIMAL_WIDTH
        if (int(m.group(4)), int(m.group(5))) != (hi, C.DISABLE_VALUE):
            raise RuntimeError(f"0-4-1-1 message reports the bounds {m.groups()[2:]} but the constants are {(hi, C.DISABLE_VALUE)}")
    return kind, reported, C.DECIMAL_WIDTH, C.DECIMAL_SCALE


def behaviour_table():
    """Calls the real set_decimal_config on the whole domain; restores os.environ and the module globals afterwards."""
    C = cfg_module()
    saved_env = {v: os.environ.get(v) for v in (WVAR, SVAR)}
    saved_g = (C.DECIMAL_WIDTH, C.DECIMAL_SCALE)
    try:
        d = (C.DEFAULT_DECIMAL_WIDTH, C.DEFAULT_DECIMAL_SCALE)
        priors = [d]
        for k in range(LO, HI + 1):
            for ew, es in ((k, None), (None, k)):
                _, _, gw, gs = _call(C, ew, es, *d)
                if (gw, gs) not in priors:
                    priors.append((gw, gs))
        for g in SYNTHETIC_PRIORS:
            if g not in priors:
                priors.append(g)
        full: Dict[Tuple[int, int], Dict[Tuple[Optional[int], Optional[int]], Tuple[int, int, int, int]]] = {}
        n = 0
        for g in priors:
            row = {}
            for ew in AXIS:
                for es in AXIS:
                    row[(ew, es)] = _call(C, ew, es, *g)
                    n += 1
            full[g] = row
        return priors, full, n
    finally:
        C.DECIMAL_WIDTH, C.DECIMAL_SCALE = saved_g
        for v, val in saved_env.items():
            if val is None:
                os.environ.pop(v, None)
            else:
                os.environ[v] = val


def _oz(v: Optional[int]) -> str:
    return "None" if v is None else f"(Some {coq_z(v)})"


def _row(kind, rep, post) -> str:
    return f"({kind}, {coq_z(rep)}, {'PSame' if post is None else f'PNew {coq_z(post[0])} {coq_z(post[1])}'})"


def emit() -> dict:
    k = constants()
    doc = doc_ranges()
    priors, full, n_calls = behaviour_table()
    both_keys = [(ew, es) for ew in AXIS for es in AXIS if ew is not None and es is not None]
    unset_keys = [(ew, es) for ew in AXIS for es in AXIS if ew is None or es is None]
    shared, per_prior_both = {}, []
    for key in both_keys:
        rows = [full[g][key] for g in priors]
        k0, r0, w0, s0 = rows[0]
        if all(r == rows[0] for r in rows):
            shared[key] = (k0, r0, (w0, s0))
        elif all(r[:2] == (k0, r0) and r[2:] == g for r, g in zip(rows, priors)):
            shared[key] = (k0, r0, None)
        else:
            per_prior_both.append(key)
    L = ["(* GENERATED by harness/translate/config.py from /repo's working tree on every run. Do not edit. *)",
         "From Coq Require Import ZArith List. Import ListNotations.",
         "From VTL Require Import Model.Config.", "Open Scope Z_scope.", ""]
    L.append("(* constants of duckdb_transpiler/Config/config.py, by import *)")
    L.append(f"Definition code_consts : consts := mkConsts {coq_z(k['min_w'])} {coq_z(k['max_w'])} {coq_z(k['def_w'])} "
             f"{coq_z(k['min_s'])} {coq_z(k['max_s'])} {coq_z(k['def_s'])} {coq_z(k['disable'])}.")
    L.append("(* Utils/_number_config.py (the same variable read by the scalar path): (min, max, disable) *)")
    L.append(f"Definition number_config_range : Z * Z * Z := ({coq_z(k['nc_min'])}, {coq_z(k['nc_max'])}, {coq_z(k['nc_disable'])}).")
    for name, var in (("doc_width", WVAR), ("doc_scale", SVAR)):
        d = doc[var]
        L.append(f"(* docs/environment_variables.rst, table of {var}: range lo..hi, disabling value and what it means, default *)")
        L.append(f"Definition {name} : docrange := mkDoc {coq_z(d['lo'])} {coq_z(d['hi'])} {coq_z(d['disable'])} {coq_z(d['disable_means'])} {coq_z(d['default'])}.")
    L.append("")
    L.append(f"Definition axis : list (option Z) := {coq_list([_oz(v) for v in AXIS])}.")
    L.append(f"Definition priors : list globals := {coq_list([f'mkG {coq_z(a)} {coq_z(b)}' for a, b in priors])}.")
    L.append("")
    L.append(f"(* set_decimal_config with both variables set, rows valid under every one of the {len(priors)} priors (checked by the "
             "translator); key = (width, scale) *)")
    L.append("Definition tab_both : list ((Z * Z) * (Z * Z * post)) := [")
    L.append(";\n".join(f"  (({coq_z(ew)}, {coq_z(es)}), {_row(*shared[(ew, es)])})" for ew, es in both_keys if (ew, es) in shared))
    L.append("].\n")
    L.append("(* all other rows, per prior globals; key = (env width, env scale) *)")
    L.append("Definition tab_unset : list (globals * list ((option Z * option Z) * (Z * Z * post))) := [")
    blocks = []
    for g in priors:
        rows = "; ".join(f"(({_oz(ew)}, {_oz(es)}), {_row(full[g][(ew, es)][0], full[g][(ew, es)][1], full[g][(ew, es)][2:])})"
                         for ew, es in unset_keys + per_prior_both)
        blocks.append(f"  (mkG {coq_z(g[0])} {coq_z(g[1])}, [{rows}])")
    L.append(";\n".join(blocks))
    L.append("].\n")
    write_if_changed(GEN / "Config.v", "\n".join(L))
    return {"consts": k, "doc": doc, "priors": priors, "full": full, "n_calls": n_calls,
            "rows_not_shared": per_prior_both, "axis": AXIS}


def regenerate():
    emit()


if __name__ == "__main__":
    d = emit()
    print(d["consts"], d["doc"], len(d["priors"]), "priors", d["n_calls"], "calls of the real function;",
          len(d["rows_not_shared"]), "both-set rows stored per prior")
