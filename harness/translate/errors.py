"""T-errors: static scan of every construction of a coded VTL exception in src/vtlengine/**/*.py and dump of
the message catalogue (import).  Emits Gen/Errors.v.  Fail-closed: anything not resolved is a Dynamic site."""
from __future__ import annotations

import ast
import importlib
import string
from pathlib import Path
from typing import Dict, List, Optional, Set, Tuple

from common import GEN, SRC, coq_list, coq_string, write_if_changed

NON_FIELD_KW = {"SemanticError": {"code", "comp_code"}, "RunTimeError": {"code", "comp_code"},
                "DataLoadError": {"code", "comp_code"},
                "InputValidationException": {"message", "lino", "colno", "code"}}


def coded_classes() -> Dict[str, List[str]]:
    """class name -> positional parameter names of __init__ (after self), read from Exceptions/__init__.py:
    a class is 'coded' when its __init__ indexes centralised_messages[code]."""
    tree = ast.parse((SRC / "Exceptions" / "__init__.py").read_text())
    out = {}
    for node in tree.body:
        if isinstance(node, ast.ClassDef):
            for f in node.body:
                if isinstance(f, ast.FunctionDef) and f.name == "__init__":
                    src = ast.unparse(f)
                    if "centralised_messages[code]" in src:
                        out[node.name] = [a.arg for a in f.args.args[1:]]
    return out


def message_fields(msg: str) -> List[str]:
    out = []
    for _, name, _, _ in string.Formatter().parse(msg):
        if name is not None:
            base = name.split(".")[0].split("[")[0]
            out.append(base)
    return out


def message_segments(msg: str) -> List[Tuple[str, str]]:
    """[('L', text) | ('F', base field name)] — as str.format reads the template."""
    out: List[Tuple[str, str]] = []
    for lit, name, spec, conv in string.Formatter().parse(msg):
        if lit:
            out.append(("L", lit))
        if name is not None:
            out.append(("F", name.split(".")[0].split("[")[0]))
    return out


def catalogue_raw() -> Dict[str, str]:
    import engine
    engine.install()
    m = importlib.import_module("vtlengine.Exceptions.messages")
    return {code: v["message"] for code, v in m.centralised_messages.items()}


def template_oddities(raw: Dict[str, str]) -> List[str]:
    """Replacement fields the model does not cover exactly (format specs, attribute/index access, positional)."""
    odd = []
    for code, msg in raw.items():
        for lit, name, spec, conv in string.Formatter().parse(msg):
            if name is None:
                continue
            if name == "" or name.isdigit() or "." in name or "[" in name or spec:
                odd.append(f"{code}: field {{{name}{':' + spec if spec else ''}}}")
    return odd


def catalogue() -> Dict[str, List[Tuple[str, str]]]:
    return {code: message_segments(msg) for code, msg in catalogue_raw().items()}


def _const_vals(node: ast.AST) -> Optional[list]:
    """constants (str/int/None) reachable through conditional expressions"""
    if isinstance(node, ast.Constant) and (isinstance(node.value, (str, int)) or node.value is None):
        return [node.value]
    if isinstance(node, ast.IfExp):
        a, b = _const_vals(node.body), _const_vals(node.orelse)
        if a is not None and b is not None:
            return a + b
    return None


def _const_strs(node: ast.AST) -> Optional[List[str]]:
    v = _const_vals(node)
    if v is not None and all(isinstance(x, str) for x in v):
        return v
    return None


def _guarded_not_none(name: str, call: ast.AST, parents: dict) -> bool:
    n = call
    while n in parents:
        p = parents[n]
        if isinstance(p, ast.If) and n in p.body:
            t = p.test
            if (isinstance(t, ast.Compare) and isinstance(t.left, ast.Name) and t.left.id == name
                    and len(t.ops) == 1 and isinstance(t.ops[0], ast.IsNot)
                    and isinstance(t.comparators[0], ast.Constant) and t.comparators[0].value is None):
                return True
        n = p
    return False


def _fstring_codes(node: ast.JoinedStr, func, call, parents) -> Optional[List[str]]:
    """f"2-1-19-{error}" where `error` only ever holds literal ints/strs in the enclosing function."""
    alts: List[List[str]] = [[]]
    for part in node.values:
        if isinstance(part, ast.Constant):
            alts = [a + [str(part.value)] for a in alts]
        elif isinstance(part, ast.FormattedValue) and isinstance(part.value, ast.Name) and part.format_spec is None:
            vals = _resolve_name_vals(part.value.id, func)
            if vals is None:
                return None
            if None in vals:
                if not _guarded_not_none(part.value.id, call, parents):
                    return None
                vals = [v for v in vals if v is not None]
            alts = [a + [str(v)] for a in alts for v in vals]
        else:
            return None
    return ["".join(a) for a in alts]


def _resolve_name(name: str, func: Optional[ast.AST]) -> Optional[List[str]]:
    v = _resolve_name_vals(name, func)
    if v is not None and all(isinstance(x, str) for x in v):
        return v
    return None


def _resolve_name_vals(name: str, func: Optional[ast.AST]) -> Optional[list]:
    """All constant strings assigned to `name` anywhere in the enclosing function; None if any assignment is
    not a constant/IfExp of constants (or the name is a parameter)."""
    if func is None:
        return None
    vals: List[str] = []
    found = False
    for n in ast.walk(func):
        targets = []
        if isinstance(n, ast.Assign):
            targets, value = n.targets, n.value
        elif isinstance(n, ast.AnnAssign) and n.value is not None:
            targets, value = [n.target], n.value
        else:
            continue
        for t in targets:
            if isinstance(t, ast.Name) and t.id == name:
                found = True
                c = _const_vals(value)
                if c is None:
                    return None
                vals += c
    return vals if found else None


def scan():
    classes = coded_classes()
    sites: List[dict] = []
    for path in sorted(SRC.rglob("*.py")):
        rel = str(path.relative_to(SRC))
        try:
            tree = ast.parse(path.read_text())
        except SyntaxError as e:  # fail closed
            sites.append({"file": rel, "line": 0, "cls": "?", "codes": None, "kwargs": [], "splat": False,
                          "why": f"unparsable: {e}"})
            continue
        parents = {}
        for n in ast.walk(tree):
            for c in ast.iter_child_nodes(n):
                parents[c] = n

        def enclosing(n):
            while n in parents:
                n = parents[n]
                if isinstance(n, (ast.FunctionDef, ast.AsyncFunctionDef)):
                    return n
            return None

        # fail closed on indirect uses (aliases, classes passed as values): the Call scan would miss them
        for n in ast.walk(tree):
            nm = n.id if isinstance(n, ast.Name) else n.attr if isinstance(n, ast.Attribute) else None
            if nm in classes and rel != "Exceptions/__init__.py":
                par = parents.get(n)
                okctx = (isinstance(par, ast.Call) and (par.func is n or (isinstance(par.func, ast.Name) and par.func.id in ("isinstance", "issubclass"))))
                anc, inann = n, False
                while anc in parents and not inann:
                    pp = parents[anc]
                    if isinstance(pp, ast.ExceptHandler) and anc is pp.type:
                        inann = True
                    if isinstance(pp, (ast.FunctionDef, ast.AsyncFunctionDef)) and anc is pp.returns:
                        inann = True
                    if isinstance(pp, ast.arg) and anc is pp.annotation:
                        inann = True
                    if isinstance(pp, ast.AnnAssign) and anc is pp.annotation:
                        inann = True
                    if isinstance(pp, ast.Call) and isinstance(pp.func, ast.Name) and pp.func.id in ("isinstance", "issubclass"):
                        inann = True
                    anc = pp
                if not okctx and not inann:
                    sites.append({"file": rel, "line": n.lineno, "cls": nm, "codes": None, "kwargs": [],
                                  "splat": False, "why": "class used as a value (not called, not in except/isinstance/annotation)"})
            if isinstance(n, ast.alias) and n.name in classes and n.asname and n.asname != n.name:
                sites.append({"file": rel, "line": getattr(n, "lineno", 0), "cls": n.name, "codes": None, "kwargs": [],
                              "splat": False, "why": f"imported under alias {n.asname}"})
        for n in ast.walk(tree):
            if not isinstance(n, ast.Call):
                continue
            f = n.func
            cname = f.id if isinstance(f, ast.Name) else f.attr if isinstance(f, ast.Attribute) else None
            if cname not in classes:
                continue
            params = classes[cname]
            code_node = None
            if "code" in params:
                idx = params.index("code")
                if len(n.args) > idx and not any(isinstance(a, ast.Starred) for a in n.args[:idx + 1]):
                    code_node = n.args[idx]
            for kw in n.keywords:
                if kw.arg == "code":
                    code_node = kw.value
            if code_node is None:
                if cname == "InputValidationException":
                    continue  # message-only form: no code, nothing to look up
                sites.append({"file": rel, "line": n.lineno, "cls": cname, "codes": None, "kwargs": [],
                              "splat": False, "why": "no code argument found"})
                continue
            codes = _const_strs(code_node)
            why = ""
            if codes is None and isinstance(code_node, ast.Name):
                codes = _resolve_name(code_node.id, enclosing(n))
                if codes is None:
                    why = f"code is the variable `{code_node.id}` with a non-literal definition"
            elif codes is None and isinstance(code_node, ast.JoinedStr):
                codes = _fstring_codes(code_node, enclosing(n), n, parents)
                if codes is None:
                    why = "code is an f-string over a non-literal variable: " + ast.unparse(code_node)[:60]
            elif codes is None:
                why = "code expression is not a literal: " + ast.unparse(code_node)[:60]
            kwargs = sorted(kw.arg for kw in n.keywords if kw.arg is not None and kw.arg not in NON_FIELD_KW[cname])
            splat = any(kw.arg is None for kw in n.keywords)
            sites.append({"file": rel, "line": n.lineno, "cls": cname, "codes": codes, "kwargs": kwargs,
                          "splat": splat, "why": why})
    return sites, catalogue()


def _seg(s):
    return ("Lit " if s[0] == "L" else "Field ") + coq_string(s[1])


def emit(sites: List[dict], cat) -> bool:
    L = ["(* GENERATED by harness/translate/errors.py from /repo's working tree on every run. Do not edit. *)",
         "From Coq Require Import String List NArith. Import ListNotations. Open Scope string_scope.",
         "From VTL Require Import Model.Errors.", "",
         "Definition catalogue : list (string * list seg) := ["]
    L.append(";\n".join(f"  ({coq_string(c)}, {coq_list([_seg(f) for f in fs])})" for c, fs in sorted(cat.items())))
    L.append("].\n")
    L.append("Definition sites : list site := [")
    rows = []
    for s in sites:
        codes = "Dynamic" if s["codes"] is None else "Codes " + coq_list([coq_string(c) for c in s["codes"]])
        rows.append(f"  mkSite {coq_string(s['file'])} {s['line']}%N {coq_string(s['cls'])} ({codes}) "
                    f"{coq_list([coq_string(k) for k in s['kwargs']])} {'true' if s['splat'] else 'false'}")
    L.append(";\n".join(rows))
    L.append("].\n")
    return write_if_changed(GEN / "Errors.v", "\n".join(L))


def regenerate():
    s, c = scan()
    emit(s, c)


if __name__ == "__main__":
    s, c = scan()
    print(len(s), "sites;", len(c), "codes")
    for x in s:
        if x["codes"] is None or x["splat"]:
            print(x)
    print(template_oddities(catalogue_raw()))
    emit(s, c)
