"""T-macros: the exhaustive tie between Model/Period.v (`*_impl` functions) and the engine's real time-period code.

SQL side  : the scalar macros of duckdb_transpiler/sql/{init,time_operators}.sql, executed on a DuckDB connection initialised by the
            engine's own `initialize_time_types`, batched over every period of every indicator of a year range.
Python side: TimePeriodHandler / check_time_period / shift_period / period_to_date called directly.
Coq side  : the `tie_*` functions of Model/Period.v evaluated by vm_compute (common.coq_eval).

Whole tables are compared through a polynomial fingerprint h' = (1000003*h + x) mod 2^61 computed on both sides over the same
sequence of values (printing millions of numbers from Coq costs ~0.2 ms each); a shard (indicator, year) whose fingerprint differs
is re-evaluated POINTWISE (`tie_*_rows`) and diffed, which yields the concrete input.  Sampled years are always compared pointwise,
so the pointwise path is exercised on every run."""
from __future__ import annotations

import datetime as _dt
from typing import Any, Dict, Iterable, List, Sequence, Tuple

import numpy as np

import common
import engine

INDS = "ASQMWD"
COQ_IND = {"A": "IA", "S": "IS", "Q": "IQ", "M": "IM", "W": "IW", "D": "ID"}
STATIC_MAX = {"A": 1, "S": 2, "Q": 4, "M": 12, "W": 53, "D": 366}
RANK = {"A": 6, "S": 5, "Q": 4, "M": 3, "W": 2, "D": 1}
FMTS = ["vtl", "sdmx_reporting", "sdmx_gregorian", "natural"]
Y0, Y1 = 1900, 2100
HEADER = ("From Coq Require Import ZArith List String.\nImport ListNotations.\n"
          "From VTL Require Import Base.Calendar Model.Period.\nOpen Scope string_scope.\nOpen Scope Z_scope.\n")
COQ_TARGETS = ["theories/Base/Calendar.vo", "theories/Model/Period.vo"]

B = 1000003
MASK = (1 << 61) - 1
_U = np.uint64


# ---------------------------------------------------------------------------------------------- fingerprints
def fpz(values: Iterable[int]) -> int:
    """fold_left (fun h x => (B*h + x) land (2^61-1)) values 7 — vectorised (arithmetic mod 2^64, masked at the end)."""
    a = np.asarray(list(values) if not isinstance(values, np.ndarray) else values, dtype=np.int64).astype(np.uint64)
    n = len(a)
    if n == 0:
        return 7
    with np.errstate(over="ignore"):
        pw = np.empty(n + 1, dtype=np.uint64)
        pw[0] = 1
        pw[1:] = _U(B)
        pw = np.multiply.accumulate(pw)                  # B^0 .. B^n  (mod 2^64)
        total = (a * pw[n - 1::-1][:n]).sum(dtype=np.uint64) + _U(7) * pw[n]
    return int(total) & MASK


def fpz_slow(values: Iterable[int]) -> int:
    h = 7
    for x in values:
        h = (B * h + x) & MASK
    return h


def fps(strings: Iterable[str]) -> int:
    """Coq `fps`: every string contributes a 10 followed by its bytes."""
    buf = bytearray()
    for s in strings:
        buf.append(10)
        buf.extend(s.encode("ascii"))
    return fpz(np.frombuffer(bytes(buf), dtype=np.uint8).astype(np.int64))


# ---------------------------------------------------------------------------------------------- the engine's connection
_conn = None


def conn():
    """One DuckDB connection carrying the engine's own types and macros (initialize_time_types reads the two .sql files)."""
    global _conn
    if _conn is None:
        engine.install()
        import duckdb
        from vtlengine.duckdb_transpiler.sql import initialize_time_types
        c = duckdb.connect()
        initialize_time_types(c)
        c.execute("CREATE TABLE static_max AS SELECT * FROM (VALUES ('A',1),('S',2),('Q',4),('M',12),('W',53),('D',366)) v(ind, mx)")
        _conn = c
    return _conn


def load_years(years: Sequence[int]) -> None:
    c = conn()
    c.execute("DROP TABLE IF EXISTS yrs")
    c.execute("CREATE TABLE yrs(y INTEGER)")
    c.executemany("INSERT INTO yrs VALUES (?)", [(int(y),) for y in years])


def load_periods(years: Sequence[int]) -> None:
    c = conn()
    load_years(years)
    c.execute("DROP TABLE IF EXISTS periods")
    c.execute("""CREATE TABLE periods AS
        SELECT y, ind, CAST(num AS INTEGER) AS num,
               {'year': y, 'period_indicator': ind, 'period_number': CAST(num AS INTEGER)}::vtl_time_period AS p,
               CASE ind WHEN 'W' THEN num <= WEEKOFYEAR(MAKE_DATE(y, 12, 28))
                        WHEN 'D' THEN num <= DAYOFYEAR(MAKE_DATE(y, 12, 31)) ELSE TRUE END AS valid
        FROM yrs, static_max, range(1, 367) u(num) WHERE num <= mx""")


EPOCH = "DATE '1970-01-01'"


def _day(expr: str) -> str:
    return f"(DATE_DIFF('day', {EPOCH}, CAST({expr} AS DATE)) + 1000000)"


def _encp(expr: str) -> str:
    """a canonical period string -> year*1000 + number, through the engine's own vtl_period_parse"""
    return f"(vtl_period_parse({expr}).year * 1000 + vtl_period_parse({expr}).period_number)"


def next_period_sql() -> str:
    """The transpiler's own _TP_NEXT_PERIOD fragment (fill_time_series), rebased on column p."""
    engine.install()
    from vtlengine.duckdb_transpiler.Transpiler import SQLTranspiler
    frag = SQLTranspiler._TP_NEXT_PERIOD
    return frag.replace("ep.tp", "p")


def _group(rows, nkey=2) -> Dict[Tuple, List[List[Any]]]:
    out: Dict[Tuple, List[List[Any]]] = {}
    for r in rows:
        out.setdefault(tuple(r[:nkey]), []).append(list(r[nkey:]))
    return out


def sql_scalar_rows() -> Dict[Tuple[int, str], List[List[int]]]:
    """per (year, ind): rows ordered by number: [valid, start, end, getmonth, dayofmonth, dayofyear, agg x6, next]"""
    aggs = ", ".join(
        f"CASE WHEN vtl_period_rank(ind) > {RANK[t]} THEN 9999998 ELSE {_encp(f'vtl_time_agg_tp(p, {t!r})')} END" for t in INDS)
    nxt = next_period_sql()
    q = f"""SELECT y, ind, num, CAST(valid AS INTEGER), {_day('vtl_tp_start_date(p)')}, {_day('vtl_tp_end_date(p)')},
                   vtl_tp_getmonth(p), vtl_tp_dayofmonth(p), vtl_tp_dayofyear(p), {aggs},
                   ({nxt}).year * 1000 + ({nxt}).period_number
            FROM periods ORDER BY y, ind, num"""
    g = _group(conn().execute(q).fetchall())
    return {k: [r[1:] for r in v] for k, v in g.items()}


def sql_shift_rows(shifts: Dict[Tuple[int, str], List[int]]) -> Dict[Tuple[int, str], List[List[int]]]:
    """per (year, ind): rows ordered by number, one column per shift of shifts[(year, ind)]: year*1000+number of vtl_tp_shift"""
    c = conn()
    c.execute("DROP TABLE IF EXISTS shifts")
    c.execute("CREATE TABLE shifts(y INTEGER, ind VARCHAR, k INTEGER, n INTEGER)")
    import pandas as pd
    df = pd.DataFrame([(y, i, k, n) for (y, i), ns in shifts.items() for k, n in enumerate(ns)], columns=["y", "ind", "k", "n"])
    c.register("shifts_df", df)
    c.execute("INSERT INTO shifts SELECT * FROM shifts_df")
    c.unregister("shifts_df")
    res = c.execute(f"""SELECT pr.y, pr.ind, pr.num, s.k, {_encp('vtl_tp_shift(pr.p, s.n)')} AS v
                        FROM periods pr JOIN shifts s ON pr.y = s.y AND pr.ind = s.ind
                        ORDER BY pr.y, pr.ind, pr.num, s.k""").fetchnumpy()
    ys, inds, nums, vs = res["y"], res["ind"], res["num"], res["v"]
    out: Dict[Tuple[int, str], List[List[int]]] = {}
    i, n = 0, len(ys)
    while i < n:
        key = (int(ys[i]), str(inds[i]))
        width = len(shifts[key])
        cnt = STATIC_MAX[key[1]] * width
        block = vs[i:i + cnt]
        out[key] = np.asarray(block, dtype=np.int64).reshape(STATIC_MAX[key[1]], width)
        i += cnt
    return out


def sql_calendar_rows(years: Sequence[int], shifts: Dict[int, List[int]], units: Dict[int, str]
                      ) -> Tuple[Dict[int, List[int]], Dict[int, List[List[int]]]]:
    """DuckDB date builtins, vtl_time_agg_date and vtl_dateadd (shifts[y] x units[y]) on every day of the years."""
    c = conn()
    load_years(years)
    yr = c.execute(f"""SELECT y, CAST(DAYOFYEAR(MAKE_DATE(y,12,31)) = 366 AS INTEGER), DAYOFYEAR(MAKE_DATE(y,12,31)),
                              WEEKOFYEAR(MAKE_DATE(y,12,28)), {_day('MAKE_DATE(y,1,1)')},
                              {_day("STRPTIME(CAST(y AS VARCHAR) || '-W01-1', '%G-W%V-%u')")}
                       FROM yrs ORDER BY y""").fetchall()
    year_rows = {int(r[0]): [int(x) for x in r[1:]] for r in yr}
    c.execute("DROP TABLE IF EXISTS dshifts")
    c.execute("CREATE TABLE dshifts(y INTEGER, k INTEGER, n INTEGER)")
    c.executemany("INSERT INTO dshifts VALUES (?,?,?)", [(y, k, n) for y, ns in shifts.items() for k, n in enumerate(ns)])
    c.execute("DROP TABLE IF EXISTS dunits")
    c.execute("CREATE TABLE dunits(y INTEGER, uo INTEGER, u VARCHAR)")
    c.executemany("INSERT INTO dunits VALUES (?,?,?)", [(y, k, u) for y, us in units.items() for k, u in enumerate(us)])
    aggs = ", ".join(_encp(f"vtl_time_agg_date(d, {t!r})") for t in INDS)
    base = c.execute(f"""SELECT YEAR(d), {_day('d')}, YEAR(d), MONTH(d), DAY(d), DAYOFYEAR(d), ISOYEAR(d), WEEK(d), ISODOW(d),
                                {_day('LAST_DAY(d)')}, QUARTER(d), {aggs}
                         FROM (SELECT CAST(MAKE_DATE(y,1,1) + INTERVAL (i) DAY AS DATE) AS d
                               FROM yrs, range(0, 366) t(i) WHERE i < DAYOFYEAR(MAKE_DATE(y,12,31))) ORDER BY d""").fetchall()
    adds = c.execute(f"""SELECT y, {_day('d')}, k, u, {_day('vtl_dateadd(CAST(d AS TIMESTAMP), n, u)')}
                         FROM (SELECT y, CAST(MAKE_DATE(y,1,1) + INTERVAL (i) DAY AS DATE) AS d
                               FROM yrs, range(0, 366) t(i) WHERE i < DAYOFYEAR(MAKE_DATE(y,12,31))) dd
                              JOIN dshifts USING (y) JOIN dunits USING (y)
                         ORDER BY d, k, uo""").fetchall()
    rows = _group(base, 1)
    add_map: Dict[Tuple[int, int], List[int]] = {}
    for y, z, k, u, v in adds:
        add_map.setdefault((y, z), []).append(int(v))
    out: Dict[int, List[List[int]]] = {}
    for (y,), rs in rows.items():
        out[int(y)] = [[int(x) for x in r] + add_map.get((y, r[0]), []) for r in rs]
    return year_rows, out


# ---------------------------------------------------------------------------------------------- strings
def spellings(y: int, ind: str, n: int) -> List[str]:
    """Every documented input spelling (docs/data_types.rst, 'Accepted input formats'), in the order of Period.spelling_suffixes."""
    Y = f"{y:04d}"
    if ind == "A":
        return [Y, Y + "A", Y + "-A1"]
    if ind in "SQ":
        return [f"{Y}{ind}{n}", f"{Y}-{ind}{n}"]
    if ind == "M":
        return [f"{Y}M{n}", f"{Y}M{n:02d}", f"{Y}-{n:02d}", f"{Y}-{n}", f"{Y}-M{n:02d}", f"{Y}-M{n}"]
    if ind == "W":
        return [f"{Y}W{n}", f"{Y}W{n:02d}", f"{Y}-W{n:02d}"]
    d = _dt.date(max(y, 1), 1, 1) + _dt.timedelta(days=n - 1) if y >= 1 else None
    if d is None:  # year 0000 is outside datetime; 0000 is a leap year in the proleptic calendar (same layout as 2000)
        d = _dt.date(2000, 1, 1) + _dt.timedelta(days=n - 1)
    return [f"{Y}D{n}", f"{Y}D{n:02d}", f"{Y}D{n:03d}", f"{Y}-D{n}", f"{Y}-D{n:02d}", f"{Y}-D{n:03d}", f"{Y}-{d.month:02d}-{d.day:02d}"]


MAXSP = 7


def sql_string_rows() -> Tuple[Dict[Tuple[int, str], List[List[str]]], Dict[Tuple[int, str], List[List[str]]]]:
    """For every VALID period of the loaded years: (spec-shaped row, sql-shaped row) from the engine's macros.
    spec-shaped: [to_string, render x4, spellings...]           (to be equal to Period.tie_spec_row)
    sql-shaped : [to_string, parse, render x4, normalize(s)...]  (to be equal to Period.tie_sql_row)"""
    c = conn()
    per = c.execute("SELECT y, ind, num FROM periods WHERE valid ORDER BY y, ind, num").fetchall()
    sp_rows = [(y, i, n, k, s) for (y, i, n) in per for k, s in enumerate(spellings(y, i, n))]
    import pandas as pd
    c.execute("DROP TABLE IF EXISTS sp")
    c.execute("CREATE TABLE sp(y INTEGER, ind VARCHAR, num INTEGER, k INTEGER, s VARCHAR)")
    df = pd.DataFrame(sp_rows, columns=["y", "ind", "num", "k", "s"])
    c.register("sp_df", df)
    c.execute("INSERT INTO sp SELECT * FROM sp_df")
    c.unregister("sp_df")
    greg = "CASE WHEN ind IN ('S','Q','W') THEN '~NONE' ELSE vtl_period_to_sdmx_gregorian(c) END"
    main = c.execute(f"""SELECT y, ind, num, c,
              CAST(vtl_period_parse(c).year AS VARCHAR) || vtl_period_parse(c).period_indicator || CAST(vtl_period_parse(c).period_number AS VARCHAR),
              vtl_period_to_vtl(c), vtl_period_to_sdmx_reporting(c), {greg}, vtl_period_to_natural(c)
           FROM (SELECT y, ind, num, vtl_period_to_string(p) AS c FROM periods WHERE valid) ORDER BY y, ind, num""").fetchall()
    norm = c.execute("SELECT y, ind, num, k, s, COALESCE(vtl_period_normalize(s), '~NULL') FROM sp ORDER BY y, ind, num, k").fetchall()
    nmap: Dict[Tuple[int, str, int], List[Tuple[str, str]]] = {}
    for y, i, n, k, s, r in norm:
        nmap.setdefault((y, i, n), []).append((s, r))
    spec: Dict[Tuple[int, str], List[List[str]]] = {}
    sql: Dict[Tuple[int, str], List[List[str]]] = {}
    for y, i, n, cstr, parsed, r1, r2, r3, r4 in main:
        sps = nmap[(y, i, n)]
        spec.setdefault((y, i), []).append([cstr, r1, r2, r3, r4] + [s for s, _ in sps])
        sql.setdefault((y, i), []).append([cstr, parsed, r1, r2, "~ERR" if r3 == "~NONE" else r3, r4] + [r for _, r in sps])
    return spec, sql


def py_string_rows(years: Sequence[int]) -> Dict[Tuple[int, str], List[List[str]]]:
    """TimePeriodHandler.__str__, the four *_representation methods, check_time_period of every spelling (real functions)."""
    engine.install()
    from vtlengine.DataTypes.TimeHandling import TimePeriodHandler, max_periods_in_year
    from vtlengine.DataTypes._time_checking import check_time_period
    from vtlengine.Exceptions import VTLEngineException
    out: Dict[Tuple[int, str], List[List[str]]] = {}

    def err(e) -> str:
        if isinstance(e, VTLEngineException) and len(e.args) > 1:
            return "~" + str(e.args[1])
        if isinstance(e, ValueError) and "not in a valid format" in str(e):
            return "~VE:format"
        return "~" + {"ValueError": "VE", "IndexError": "IE"}.get(type(e).__name__, type(e).__name__.replace("Error", "Err"))

    for y in years:
        for i in INDS:
            kmax = real_periods_in_year(i, y)
            rows = []
            for n in range(1, kmax + 1):
                canon = f"{y:04d}A" if i == "A" else f"{y:04d}-{i}{n:0{ {'D': 3, 'M': 2, 'W': 2}.get(i, 1) }d}"
                row = []
                try:
                    h = TimePeriodHandler(canon)
                    row.append(str(h))
                    for m in ("vtl_representation", "sdmx_reporting_representation", "sdmx_gregorian_representation", "natural_representation"):
                        try:
                            row.append(getattr(h, m)())
                        except VTLEngineException as e:
                            row.append("~NONE" if e.args[1] == "2-1-19-21" else err(e))
                        except Exception as e:  # noqa
                            row.append(err(e))
                except Exception as e:  # noqa
                    row.extend([err(e)] * 5)
                for s in spellings(y, i, n):
                    try:
                        row.append(check_time_period(s))
                    except Exception as e:  # noqa
                        row.append(err(e))
                rows.append(row)
            out[(y, i)] = rows
    return out


def real_periods_in_year(ind: str, y: int) -> int:
    """calendar truth from Python's datetime (independent of the engine); year 0 mapped on 2000 (same leap/weekday layout)"""
    yy = y if y >= 1 else 2000
    if ind == "D":
        return 366 if (yy % 4 == 0 and (yy % 100 != 0 or yy % 400 == 0)) else 365
    if ind == "W":
        return _dt.date(yy, 12, 28).isocalendar()[1]
    return STATIC_MAX[ind]


def py_shift_rows(years: Sequence[int], shifts: Dict[Tuple[int, str], List[int]]) -> Dict[Tuple[int, str], List[List[int]]]:
    """max_periods_in_year, next_period, previous_period, shift_period, period_dates of TimeHandling.py (real functions)."""
    engine.install()
    import copy
    from vtlengine.DataTypes.TimeHandling import (TimePeriodHandler, max_periods_in_year, next_period, previous_period,
                                                  shift_period)
    ep = _dt.date(1970, 1, 1)
    out: Dict[Tuple[int, str], List[List[int]]] = {}

    def enc(h):
        return h.year * 1000 + h.period_number

    for y in years:
        for i in INDS:
            ns = shifts[(y, i)]
            rows = []
            for n in range(1, real_periods_in_year(i, y) + 1):
                h = TimePeriodHandler(f"{y:04d}{i}{n}")
                sh = [enc(shift_period(copy.copy(h), k)) for k in ns]
                d1, d2 = h.period_dates
                rows.append([max_periods_in_year(i, y), enc(next_period(h)), enc(previous_period(h))] + sh
                            + [(d1 - ep).days + 1000000, (d2 - ep).days + 1000000] + sh)
            out[(y, i)] = rows
    return out


# ---------------------------------------------------------------------------------------------- Coq side
def zlist(ns: Sequence[int]) -> str:
    return common.coq_list([common.coq_z(int(n)) for n in ns])


def coq_fp(kind: str, keys: Sequence[Tuple], args: Dict[Tuple, str], tag: str) -> Dict[Tuple, List[int]]:
    """kind: name of a `tie_*_fp` function taking (ind) year [shifts] -> list Z."""
    exprs = []
    for k in keys:
        if len(k) == 2:
            y, i = k
            exprs.append(f"({kind} {COQ_IND[i]} {common.coq_z(y)}{args.get(k, '')})")
        else:
            (y,) = k
            exprs.append(f"({kind} {common.coq_z(y)}{args.get(k, '')})")
    shard = max(4, -(-len(exprs) // common.NCPU))   # one coqc per core: starting coqc + loading the libraries costs ~3 s CPU
    vals = common.coq_eval(HEADER, exprs, tag, shard=shard, timeout=1700)
    return {k: v for k, v in zip(keys, vals)}


def coq_rows(kind: str, keys: Sequence[Tuple], args: Dict[Tuple, str], tag: str) -> Dict[Tuple, List[List[Any]]]:
    """pointwise evaluation (`tie_*_rows`): list of rows per key"""
    exprs = []
    for k in keys:
        if len(k) == 2:
            y, i = k
            exprs.append(f"({kind} {COQ_IND[i]} {common.coq_z(y)}{args.get(k, '')})")
        else:
            (y,) = k
            exprs.append(f"({kind} {common.coq_z(y)}{args.get(k, '')})")
    vals = common.coq_eval(HEADER, exprs, tag, shard=max(1, -(-len(exprs) // common.NCPU)), timeout=1700)
    out = {}
    for k, v in zip(keys, vals):
        out[k] = [[x[1] if isinstance(x, tuple) and x and x[0] == "str" else x for x in row] for row in v]
    return out


def first_diff(a: Sequence[Sequence[Any]], b: Sequence[Sequence[Any]]):
    """first (row, column, a, b) where two row lists differ"""
    for r, (ra, rb) in enumerate(zip(a, b)):
        ra, rb = list(ra), list(rb)
        if ra != rb:
            for cidx, (x, yv) in enumerate(zip(ra, rb)):
                if x != yv:
                    return (r, cidx, x, yv)
            return (r, min(len(ra), len(rb)), "len=%d" % len(ra), "len=%d" % len(rb))
    if len(a) != len(b):
        return (min(len(a), len(b)), 0, "rows=%d" % len(a), "rows=%d" % len(b))
    return None


def regenerate():  # nothing is generated into Gen/: the tie is evaluated, not dumped
    return None
