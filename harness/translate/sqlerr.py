"""T-sqlerr: every `error('…')` literal of the engine's SQL library and of the Python templates that build SQL, each with the
pipeline stage(s) it can be raised in; the REAL `_map_query_error` / `map_duckdb_error` evaluated on every literal instance,
its case/whitespace variants and every raw DuckDB message class observed so far; the per-stage "is a mapper applied?" flags read
from the code (Python ast: try/except duckdb.Error around each conn.execute).  Writes Gen/ErrLits.v on every run.

Nothing here decides alone: the dumped table is the X-tie for Model/ErrMap.v (proved equal inside Coq), the stage flags are
additionally tied dynamically by props/c32.py (real scripts failing in each stage)."""
from __future__ import annotations

import ast
import json
import re
from pathlib import Path
from typing import Any, Dict, List, Optional, Tuple

from common import CORPUS, GEN, SRC, coq_list, coq_string, write_if_changed

SQL_DIR = SRC / "duckdb_transpiler" / "sql"
MARK = "\x01"  # delimits a Python-level hole inside a SQL template

# The stages of run() after semantic analysis in which SQL is executed or results are post-processed (Model/ErrMap.v `stage`).
STAGES = ["STranspile", "SInitMacros", "SLoadCreate", "SLoadInsert", "SLoadNormalize", "SLoadValidate", "SExec",
          "SFetchRepr", "SFetchSelect", "SSave", "SDrop", "SPostFormat"]

# which function's conn.execute calls belong to which stage (the run() skeleton; checked dynamically by props/c32.py).
# key: (file relative to src/vtlengine, function name, regex on the source of the first argument of execute/sql)
EXEC_SITES: List[Tuple[str, str, str, str]] = [
    ("duckdb_transpiler/sql/__init__.py", "initialize_time_types", r".*", "SInitMacros"),
    ("duckdb_transpiler/io/_io.py", "_create_table", r"build_create_table_sql", "SLoadCreate"),
    ("duckdb_transpiler/io/_io.py", "load_datapoints_duckdb", r"build_create_table_sql", "SLoadCreate"),
    ("duckdb_transpiler/io/_io.py", "_create_empty_table", r"build_create_table_sql", "SLoadCreate"),
    ("duckdb_transpiler/io/_io.py", "_load_parquet", r"build_create_table_sql", "SLoadCreate"),
    ("duckdb_transpiler/io/_io.py", "register_dataframes", r"build_create_table_sql", "SLoadCreate"),
    ("duckdb_transpiler/io/_io.py", "load_datapoints_duckdb", r"insert_sql", "SLoadInsert"),
    ("duckdb_transpiler/io/_io.py", "_load_parquet", r"insert_sql", "SLoadInsert"),
    ("duckdb_transpiler/io/_io.py", "register_dataframes", r"INSERT INTO|DESCRIBE", "SLoadInsert"),
    ("duckdb_transpiler/io/_io.py", "_normalize_time_period_columns", r"UPDATE", "SLoadNormalize"),
    ("duckdb_transpiler/io/_io.py", "_validate_loaded_table", r"SELECT COUNT", "SLoadValidate"),
    ("duckdb_transpiler/io/_validation.py", "validate_no_duplicates", r"check_sql", "SLoadValidate"),
    ("duckdb_transpiler/io/_validation.py", "validate_temporal_columns", r"check_query", "SLoadValidate"),
    ("duckdb_transpiler/io/_execution.py", "execute_queries", r"CREATE TABLE", "SExec"),
    ("duckdb_transpiler/io/_time_handling.py", "apply_time_period_representation", r"UPDATE", "SFetchRepr"),
    ("duckdb_transpiler/io/_time_handling.py", "apply_time_period_representation", r"LIMIT 0", "SFetchSelect"),
    ("duckdb_transpiler/io/_execution.py", "_build_dataset_fetch_select", r".*", "SFetchSelect"),
    ("duckdb_transpiler/io/_execution.py", "_fetch_result_impl", r"SELECT \*|fetch_sql", "SFetchSelect"),
    ("duckdb_transpiler/io/_execution.py", "fetch_result", r"SELECT \*|fetch_sql", "SFetchSelect"),
    ("duckdb_transpiler/io/_io.py", "save_datapoints_duckdb", r"COPY", "SSave"),
    ("duckdb_transpiler/io/_io.py", "save_datapoints_duckdb", r"DROP TABLE", "SDrop"),
    ("duckdb_transpiler/io/_execution.py", "cleanup_scheduled_datasets", r"DROP TABLE", "SDrop"),
    ("duckdb_transpiler/io/_io.py", "_validate_loaded_table", r"DROP TABLE", "SDrop"),
    ("duckdb_transpiler/io/_io.py", "load_datapoints_duckdb", r"DROP TABLE", "SDrop"),
    ("duckdb_transpiler/io/_io.py", "_load_parquet", r"DROP TABLE", "SDrop"),
    ("duckdb_transpiler/io/_io.py", "register_dataframes", r"DROP TABLE", "SDrop"),
]

# a function whose execute calls have no handler of their own may be protected by the handler around its only call site:
# callee -> (file, caller) to look into (followed transitively)
WRAPPED_BY = {
    "apply_time_period_representation": ("duckdb_transpiler/io/_execution.py", "_fetch_result_impl"),
    "_build_dataset_fetch_select": ("duckdb_transpiler/io/_execution.py", "_fetch_result_impl"),
    "save_datapoints_duckdb": ("duckdb_transpiler/io/_execution.py", "_fetch_result_impl"),
    "_fetch_result_impl": ("duckdb_transpiler/io/_execution.py", "fetch_result"),
}

# origin stage of the Python-built error templates, by (file, function)
PY_TEMPLATE_STAGE = {
    ("duckdb_transpiler/Transpiler/__init__.py", None): "SExec",
    ("duckdb_transpiler/io/_io.py", "_build_dataframe_select_columns"): "SLoadInsert",
    ("duckdb_transpiler/io/_validation.py", "build_select_columns"): "SLoadInsert",
}

# functions whose SQL strings invoke macros at a stage other than statement execution
MACRO_USE_STAGE = {
    ("duckdb_transpiler/io/_io.py", "_normalize_time_period_columns"): "SLoadNormalize",
    ("duckdb_transpiler/io/_time_handling.py", None): "SFetchRepr",
}
# files whose vtl_* references only name macros to INSTALL (no execution)
MACRO_INSTALL_ONLY = {("duckdb_transpiler/io/_execution.py", "execute_queries"), ("duckdb_transpiler/sql/__init__.py", None)}

SAMPLE = {  # values substituted for holes when a literal is instantiated into a concrete message
    "default": ["X"], "agg_op": ["min", "max"], "period_indicator": ["Q", "A"], "target": ["M"],
    "tp": ["2020-Q1"], "interval_str": ["2020-01-01/2020-03-15"], "comp_name": ["Me_1"], "length": ["3"],
    "substr": ["Q", "S", "W"],
}


# ------------------------------------------------------------------------------------------- SQL expression pieces
def _split_concat(expr: str) -> List[str]:
    """top-level split of a SQL expression on `||` (outside quotes and parentheses)"""
    out, cur, depth, i, q = [], [], 0, 0, False
    while i < len(expr):
        c = expr[i]
        if q:
            cur.append(c)
            if c == "'":
                if expr[i + 1:i + 2] == "'":
                    cur.append("'")
                    i += 1
                else:
                    q = False
        elif c == "'":
            q = True
            cur.append(c)
        elif c == "(":
            depth += 1
            cur.append(c)
        elif c == ")":
            depth -= 1
            cur.append(c)
        elif c == "|" and expr[i + 1:i + 2] == "|" and depth == 0:
            out.append("".join(cur))
            cur = []
            i += 1
        else:
            cur.append(c)
        i += 1
    out.append("".join(cur))
    return [p.strip() for p in out]


def _balanced_arg(text: str, start: int) -> Optional[Tuple[str, int]]:
    """text[start] is just after `error(`: returns (argument text, index after the closing parenthesis)"""
    depth, i, q = 1, start, False
    while i < len(text):
        c = text[i]
        if q:
            if c == "'":
                if text[i + 1:i + 2] == "'":
                    i += 1
                else:
                    q = False
        elif c == "'":
            q = True
        elif c == "(":
            depth += 1
        elif c == ")":
            depth -= 1
            if depth == 0:
                return text[start:i], i + 1
        i += 1
    return None


def _parts_of(arg: str) -> List[Tuple[str, str]]:
    """SQL argument of error(): [('L', literal text) | ('H', hole name)]; Python-level holes (MARK name MARK) inside literals
    become holes too."""
    parts: List[Tuple[str, str]] = []
    for piece in _split_concat(arg):
        piece = piece.strip()
        if len(piece) >= 2 and piece[0] == "'" and piece[-1] == "'" and "'" not in piece[1:-1].replace("''", ""):
            lit = piece[1:-1].replace("''", "'")
            for k, seg in enumerate(lit.split(MARK)):
                if k % 2 == 0:
                    if seg:
                        parts.append(("L", seg))
                else:
                    parts.append(("H", seg))
        else:
            parts.append(("H", re.sub(r"\s+", " ", piece.replace(MARK, ""))))
    return parts


def _strip_sql_comments(sql: str) -> str:
    """blank out `-- …` comments keeping offsets/line numbers (quotes respected)"""
    out, q, i = [], False, 0
    while i < len(sql):
        c = sql[i]
        if q:
            out.append(c)
            if c == "'":
                q = False
        elif c == "'":
            q = True
            out.append(c)
        elif c == "-" and sql[i + 1:i + 2] == "-":
            while i < len(sql) and sql[i] != "\n":
                out.append(" ")
                i += 1
            continue
        else:
            out.append(c)
        i += 1
    return "".join(out)


def scan_sql() -> List[dict]:
    sites = []
    for path in sorted(SQL_DIR.glob("*.sql")):
        text = _strip_sql_comments(path.read_text())
        macro_at = [(m.start(), m.group(1)) for m in
                    re.finditer(r"CREATE\s+(?:OR\s+REPLACE\s+)?MACRO\s+([A-Za-z_]\w*)", text, re.I)]
        for m in re.finditer(r"\berror\s*\(", text, re.I):
            got = _balanced_arg(text, m.end())
            line = text.count("\n", 0, m.start()) + 1
            macro = None
            for pos, name in macro_at:
                if pos < m.start():
                    macro = name
            sites.append({"file": f"duckdb_transpiler/sql/{path.name}", "line": line, "macro": macro, "func": None,
                          "parts": _parts_of(got[0]) if got else None, "why": "" if got else "unbalanced error( call"})
    return sites


# ------------------------------------------------------------------------------------------- Python templates
def _py_template(node: ast.AST, func: Optional[ast.AST], depth: int = 0) -> Optional[str]:
    """string value of a str-building expression; every non-constant part becomes MARK name MARK (a hole), a Name bound
    to exactly one str-building expression in the enclosing function is inlined."""
    if depth > 6:
        return None
    if isinstance(node, ast.Constant) and isinstance(node.value, str):
        return node.value
    if isinstance(node, ast.JoinedStr):
        out = []
        for v in node.values:
            if isinstance(v, ast.Constant):
                out.append(str(v.value))
            elif isinstance(v, ast.FormattedValue):
                inner = None
                if isinstance(v.value, ast.Name):
                    inner = _resolve_single(v.value.id, func, depth + 1)
                out.append(inner if inner is not None else MARK + ast.unparse(v.value) + MARK)
            else:
                return None
        return "".join(out)
    if isinstance(node, ast.BinOp) and isinstance(node.op, ast.Add):
        a, b = _py_template(node.left, func, depth + 1), _py_template(node.right, func, depth + 1)
        return None if a is None or b is None else a + b
    if isinstance(node, ast.Name):
        return _resolve_single(node.id, func, depth + 1)
    return None


def _resolve_single(name: str, func: Optional[ast.AST], depth: int) -> Optional[str]:
    if func is None:
        return None
    vals = []
    for n in ast.walk(func):
        if isinstance(n, ast.Assign) and any(isinstance(t, ast.Name) and t.id == name for t in n.targets):
            vals.append(n.value)
        elif isinstance(n, ast.AnnAssign) and isinstance(n.target, ast.Name) and n.target.id == name and n.value is not None:
            vals.append(n.value)
    if len(vals) != 1:
        return None
    t = _py_template(vals[0], func, depth)
    # only inline SQL-expression-valued variables (they contain a quote); plain values stay holes
    return t if t is not None and "'" in t else None


def scan_py() -> List[dict]:
    sites = []
    for path in sorted(SRC.rglob("*.py")):
        rel = str(path.relative_to(SRC))
        src = path.read_text()
        if "error(" not in src:
            continue
        tree = ast.parse(src)
        parents: Dict[ast.AST, ast.AST] = {}
        for n in ast.walk(tree):
            for c in ast.iter_child_nodes(n):
                parents[c] = n

        def enclosing(n):
            while n in parents:
                n = parents[n]
                if isinstance(n, (ast.FunctionDef, ast.AsyncFunctionDef)):
                    return n
            return None

        def is_doc(n):
            p = parents.get(n)
            return isinstance(p, ast.Expr)

        seen_lines = set()
        for n in ast.walk(tree):
            if not isinstance(n, (ast.Constant, ast.JoinedStr)):
                continue
            if isinstance(n, ast.Constant) and not isinstance(n.value, str):
                continue
            if isinstance(parents.get(n), ast.JoinedStr) or is_doc(n):
                continue
            raw = ast.unparse(n)
            if not re.search(r"\berror\(", raw):
                continue
            func = enclosing(n)
            tpl = _py_template(n, func)
            fname = func.name if func is not None else None
            if tpl is None:
                sites.append({"file": rel, "line": n.lineno, "macro": None, "func": fname, "parts": None,
                              "why": "template not resolvable: " + raw[:80]})
                continue
            for m in re.finditer(r"\berror\s*\(", tpl):
                got = _balanced_arg(tpl, m.end())
                if (n.lineno, m.start()) in seen_lines:
                    continue
                seen_lines.add((n.lineno, m.start()))
                parts = _parts_of(got[0]) if got else None
                why = "" if got else "unbalanced error( in template"
                if parts is not None and not any(k == "L" for k, _ in parts):
                    parts, why = None, "argument of error( is not resolvable to a literal: " + (got[0] if got else "")[:60]
                sites.append({"file": rel, "line": n.lineno, "macro": None, "func": fname, "parts": parts, "why": why})
    return sites


# ------------------------------------------------------------------------------------------- origin stages
def macro_stage_map() -> Tuple[Dict[str, List[str]], List[str]]:
    """macro name -> stages in which it (transitively) runs; uses the engine's own macro dependency graph."""
    import engine
    engine.install()
    from vtlengine.duckdb_transpiler.sql import _closure, _macro_graph
    graph = _macro_graph()
    seeds: Dict[str, set] = {}
    notes: List[str] = []
    ref = re.compile(r"\bvtl_[a-z_][a-z0-9_]*\b")
    for path in sorted(SRC.rglob("*.py")):
        rel = str(path.relative_to(SRC))
        src = path.read_text()
        if "vtl_" not in src:
            continue
        tree = ast.parse(src)
        parents: Dict[ast.AST, ast.AST] = {}
        for n in ast.walk(tree):
            for c in ast.iter_child_nodes(n):
                parents[c] = n
        for n in ast.walk(tree):
            if not (isinstance(n, ast.Constant) and isinstance(n.value, str)):
                continue
            if isinstance(parents.get(n), ast.Expr):
                continue  # docstring
            names = [x for x in ref.findall(n.value) if x in graph.statements]
            if not names:
                continue
            f = n
            fname = None
            while f in parents:
                f = parents[f]
                if isinstance(f, (ast.FunctionDef, ast.AsyncFunctionDef)):
                    fname = f.name
                    break
            if (rel, fname) in MACRO_INSTALL_ONLY or (rel, None) in MACRO_INSTALL_ONLY:
                continue
            stage = MACRO_USE_STAGE.get((rel, fname)) or MACRO_USE_STAGE.get((rel, None))
            if stage is None:
                if rel.startswith(("duckdb_transpiler/Transpiler/", "ViralPropagation/", "duckdb_transpiler/Config/")):
                    stage = "SExec"
                else:
                    stage = "SExec"
                    notes.append(f"macro reference outside the known modules treated as statement-exec: {rel}:{n.lineno}")
            for x in names:
                seeds.setdefault(stage, set()).add(x)
    out: Dict[str, List[str]] = {}
    for stage, ss in seeds.items():
        for mname in _closure(ss, graph.deps):
            out.setdefault(mname, []).append(stage)
    # Macro names are also composed at run time by the transpiler (f"vtl_{method}", f"vtl_period_{suffix}"), so every macro
    # of the library is taken to be reachable from transpiled SQL (statement execution) in addition to the load / fetch
    # stages that name it statically (io/ composes no macro names: checked below).
    for mname in graph.statements:
        out.setdefault(mname, []).append("SExec")
    for path in sorted((SRC / "duckdb_transpiler" / "io").glob("*.py")):
        if re.search(r"""f["']vtl_[a-z_]*\{""", path.read_text()):
            notes.append(f"macro name composed at run time in {path.name}: load/fetch origin stages may be incomplete")
    return {k: sorted(set(v)) for k, v in out.items()}, notes


def origin_stages(site: dict, mstage: Dict[str, List[str]]) -> List[str]:
    if site["macro"] is not None:
        return mstage.get(site["macro"], [])
    return [PY_TEMPLATE_STAGE.get((site["file"], site["func"])) or PY_TEMPLATE_STAGE.get((site["file"], None)) or "?"]


# ------------------------------------------------------------------------------------------- stage mapper flags (ast)
def _handler_kind(h: ast.ExceptHandler) -> Optional[str]:
    t = ast.unparse(h.type) if h.type is not None else ""
    if "duckdb.Error" not in t and t not in ("Exception", ""):
        return None
    body = "\n".join(ast.unparse(s) for s in h.body)
    if "duckdb.Error" not in t:
        return None  # `except Exception: raise` re-raises unchanged
    if "_map_query_error(" in body:
        return "MapQuery"
    if "map_duckdb_error(" in body:
        return "MapLoad"
    if re.search(r"raise\s+DataLoadError\(\s*['\"]0-3-1-6", body):
        return "MapNormalize"
    if re.search(r"^\s*(return|pass)\b", body, re.M) and "raise" not in body:
        return "Swallow"
    return "Other"


def _lexical_handler(node: ast.AST, parents: Dict[ast.AST, ast.AST]) -> Tuple[Optional[str], Optional[str]]:
    """(handler kind of the innermost try/except duckdb.Error lexically around node, name of the enclosing function)"""
    f, kinds, fname = node, [], None
    while f in parents:
        child, f = f, parents[f]
        if isinstance(f, ast.Try) and child in f.body:
            for h in f.handlers:
                k = _handler_kind(h)
                if k:
                    kinds.append(k)
                    break
        if isinstance(f, ast.With) and any("suppress" in ast.unparse(i.context_expr) for i in f.items):
            kinds.append("Swallow")
        if isinstance(f, (ast.FunctionDef, ast.AsyncFunctionDef)):
            fname = f.name
            break
    return (kinds[0] if kinds else None), fname


def _caller_handler(func: str, depth: int = 0) -> Optional[str]:
    """handler around the call of `func` in its declared caller (WRAPPED_BY), followed upwards"""
    if depth > 4 or func not in WRAPPED_BY:
        return None
    rel, caller = WRAPPED_BY[func]
    path = SRC / rel
    if not path.exists():
        return None
    tree = ast.parse(path.read_text())
    parents: Dict[ast.AST, ast.AST] = {}
    for n in ast.walk(tree):
        for c in ast.iter_child_nodes(n):
            parents[c] = n
    found = []
    for n in ast.walk(tree):
        if isinstance(n, ast.Call) and ((isinstance(n.func, ast.Name) and n.func.id == func) or (isinstance(n.func, ast.Attribute) and n.func.attr == func)):
            k, fname = _lexical_handler(n, parents)
            if fname == caller:
                found.append(k or _caller_handler(caller, depth + 1))
    if found and all(x == found[0] for x in found):
        return found[0]
    return None


def scan_stage_flags() -> Tuple[Dict[str, Optional[str]], List[str]]:
    """stage -> mapper applied around the conn.execute calls of that stage (None when a call site could not be classified)"""
    found: Dict[str, List[str]] = {}
    notes: List[str] = []
    files = sorted({f for f, _, _, _ in EXEC_SITES})
    for rel in files:
        path = SRC / rel
        if not path.exists():
            notes.append(f"secondary tie unavailable: {rel} missing")
            continue
        tree = ast.parse(path.read_text())
        parents: Dict[ast.AST, ast.AST] = {}
        for n in ast.walk(tree):
            for c in ast.iter_child_nodes(n):
                parents[c] = n
        for n in ast.walk(tree):
            if not (isinstance(n, ast.Call) and isinstance(n.func, ast.Attribute) and n.func.attr in ("execute", "sql")
                    and isinstance(n.func.value, ast.Name) and n.func.value.id == "conn"):
                continue
            f, fname, kinds = n, None, []
            child = n
            while f in parents:
                child, f = f, parents[f]
                if isinstance(f, ast.Try) and child in f.body:
                    for h in f.handlers:
                        k = _handler_kind(h)
                        if k:
                            kinds.append(k)
                            break
                if isinstance(f, ast.With) and any("suppress" in ast.unparse(i.context_expr) for i in f.items):
                    kinds.append("Swallow")
                if isinstance(f, (ast.FunctionDef, ast.AsyncFunctionDef)):
                    fname = f.name
                    break
            arg = ast.unparse(n.args[0]) if n.args else ""
            stage = None
            for frel, fn, rx, st in EXEC_SITES:
                if frel == rel and fn == fname and re.search(rx, arg):
                    stage = st
                    break
            if stage is None:
                if fname in {fn for fr, fn, _, _ in EXEC_SITES if fr == rel}:
                    notes.append(f"secondary tie unavailable: unclassified execute site {rel}:{n.lineno} in {fname}")
                continue
            found.setdefault(stage, []).append(kinds[0] if kinds else (_caller_handler(fname) or "NoMap"))
    flags: Dict[str, Optional[str]] = {}
    for st in STAGES:
        ks = found.get(st)
        if not ks:
            flags[st] = None
        elif all(k == ks[0] for k in ks):
            flags[st] = ks[0]
        elif "NoMap" in ks:
            flags[st] = "NoMap"  # at least one unprotected call: the stage as a whole lets raw errors through
        else:
            flags[st] = None
    # run()'s own post-processing and the transpiler are plain Python (no duckdb call): no mapper by construction
    return flags, notes


# ------------------------------------------------------------------------------------------- real mappers
def _instances(parts: List[Tuple[str, str]]) -> List[str]:
    """concrete message texts of a literal template (holes -> sample values)"""
    choices: List[List[str]] = []
    for k, v in parts:
        if k == "L":
            choices.append([v])
        else:
            key = "default"
            low = v.lower()
            for cand in ("agg_op", "period_indicator", "target", "interval_str", "comp_name", "length", "substr"):
                if cand in low:
                    key = cand
                    break
            else:
                if low == "tp":
                    key = "tp"
            choices.append(SAMPLE[key])
    out = [""]
    for ch in choices:
        if len(ch) == 1:
            out = [o + ch[0] for o in out]
        else:
            out = [o + c for c in ch for o in out][:6]
    return sorted(set(out))


def duckdb_message(conn, text: str) -> str:
    """what str(exception) is when DuckDB evaluates error(text)"""
    import duckdb
    try:
        conn.execute("SELECT error(?)", [text]).fetchall()
    except duckdb.Error as e:
        return str(e)
    raise RuntimeError("error() did not raise")


PROBES = [  # SQL that makes DuckDB itself fail: one per native message class the transpiled SQL can meet
    ("SExec", "SELECT CAST('abc' AS BIGINT)"), ("SExec", "SELECT CAST('abc' AS DOUBLE)"), ("SExec", "SELECT CAST('abc' AS BOOLEAN)"),
    ("SExec", "SELECT CAST('2020-13-45' AS DATE)"), ("SExec", "SELECT CAST('abc' AS TIMESTAMP)"),
    ("SExec", "SELECT CAST(1e30 AS BIGINT)"), ("SExec", "SELECT 9223372036854775807 + 1"),
    ("SExec", "SELECT 9223372036854775807 * 2"), ("SExec", "SELECT CAST(1e40 AS DECIMAL(28,10))"),
    ("SExec", "SELECT ln(0)"), ("SExec", "SELECT ln(-1)"), ("SExec", "SELECT log(-1)"), ("SExec", "SELECT log2(0)"),
    ("SExec", "SELECT sqrt(-1)"), ("SExec", "SELECT pow(10, 400)"), ("SExec", "SELECT exp(1000)"),
    ("SExec", "SELECT 1 % 0"), ("SExec", "SELECT 1 // 0"), ("SExec", "SELECT 1.0 / 0"),
    ("SExec", "SELECT DATE '2020-01-01' + INTERVAL 100000000 YEAR"), ("SExec", "SELECT regexp_matches('a', '(')"),
    ("SExec", "SELECT repeat('x', 100) :: DECIMAL(10,2)"), ("SExec", "SELECT CASE WHEN SELECT 1 THEN 1 END"),
    ("SExec", "SELECT nocol FROM (SELECT 1 AS a)"), ("SExec", "SELECT * FROM no_such_table"),
    ("SExec", "SELECT 'a' + 1"), ("SExec", "SELECT lpad('x', -1, 'y')"), ("SExec", "SELECT substr('abc', 0, -1)"),
    ("SExec", "SELECT CAST(1 AS DECIMAL(45,10))"), ("SExec", "SELECT abs(-9223372036854775808)"),
    ("SExec", "SELECT sum(x) FROM (VALUES (9223372036854775807), (1)) t(x)"), ("SExec", "SELECT -(-9223372036854775808)"),
    ("SLoadCreate", 'CREATE TABLE "t" ("Me_1" BIGINT, "me_1" BIGINT)'),
    ("SLoadInsert", "SELECT CAST('1.5x' AS DECIMAL(28,10))"),
]


def probe_messages() -> List[Tuple[str, str]]:
    import duckdb
    out = []
    conn = duckdb.connect(":memory:")
    try:
        for stage, sql in PROBES:
            try:
                conn.execute(sql).fetchall()
            except duckdb.Error as e:
                out.append((stage, f"{type(e).__name__}", str(e)))
    finally:
        conn.close()
    return out


def observed_messages() -> List[Tuple[str, str, str]]:
    """raw DuckDB messages recorded by earlier runs of the correspondence (corpus/C32/messages.json)"""
    p = CORPUS / "C32" / "messages.json"
    if not p.exists():
        return []
    return [(d["stage"], d.get("cls", "Error"), d["msg"]) for d in json.loads(p.read_text())]


def variants(msg: str) -> List[str]:
    return [msg, msg.upper(), msg.lower(), msg.title(), "  " + msg + "  ", msg.replace(" ", "  "), msg.replace(" ", "\t"),
            msg.replace("-", " - ")]


def real_map(msg: str) -> Tuple[Tuple, Tuple]:
    """(query-mapper result, load-mapper result) of the engine's real functions on a DuckDB error carrying `msg`"""
    import duckdb
    import engine
    engine.install()
    from vtlengine.DataTypes import Date, Integer
    from vtlengine.duckdb_transpiler.io._execution import _map_query_error
    from vtlengine.duckdb_transpiler.io._validation import map_duckdb_error
    from vtlengine.Model import Component, Role
    comps = {"Id_1": Component(name="Id_1", data_type=Integer, role=Role.IDENTIFIER, nullable=False),
             "Me_1": Component(name="Me_1", data_type=Date, role=Role.MEASURE, nullable=True)}

    def cls_code(x):
        import vtlengine.Exceptions as X
        if isinstance(x, X.VTLEngineException):
            kind = engine.classify_error(x)
            return ("Mapped", kind[0], kind[1])
        return ("Crash", type(x).__name__, "")

    err = duckdb.Error(msg)
    try:
        r = _map_query_error(err, "")
        q = ("Unmapped",) if r is err else cls_code(r)
    except Exception as ex:  # the mapper itself failed (e.g. KeyError in str.format)
        q = ("Crash", type(ex).__name__, "")
    try:
        r2 = map_duckdb_error(err, "DS_1", comps)
        l = ("Unmapped",) if r2 is err else cls_code(r2)
    except Exception as ex:
        l = ("Crash", type(ex).__name__, "")
    return q, l


# ------------------------------------------------------------------------------------------- emit
def _res(r: Tuple) -> str:
    if r[0] == "Unmapped":
        return "Unmapped"
    if r[0] == "Mapped":
        return f"(Mapped K{r[1]} {coq_string(r[2] or '')})"
    return f"(MapperCrash {coq_string(r[1])})"


def build() -> Dict[str, Any]:
    import duckdb
    sites = scan_sql() + scan_py()
    mstage, notes = macro_stage_map()
    flags, notes2 = scan_stage_flags()
    conn = duckdb.connect(":memory:")
    lits = []   # (site id, stage, message)
    msgs: Dict[str, None] = {}
    unresolved = []
    try:
        for s in sites:
            sid = f"{s['file']}:{s['line']}" + (f":{s['macro']}" if s["macro"] else f":{s['func']}")
            s["id"] = sid
            if s["parts"] is None:
                unresolved.append(f"{sid}: {s['why']}")
                continue
            stages = origin_stages(s, mstage)
            s["stages"] = stages
            if not stages or "?" in stages:
                unresolved.append(f"{sid}: no origin stage (macro never referenced from the pipeline)" if not stages
                                  else f"{sid}: Python template in a function with unknown stage")
                continue
            for inst in _instances(s["parts"]):
                real = duckdb_message(conn, inst)
                for st in stages:
                    lits.append((sid, st, real))
                for v in variants(real) + variants(inst):
                    msgs[v] = None
    finally:
        conn.close()
    raw = probe_messages() + observed_messages()
    for _, _, m in raw:
        for v in (m, m.lower(), m.upper()):
            msgs[v] = None
    table = [(m, real_map(m)) for m in msgs]
    return {"sites": sites, "lits": lits, "table": table, "flags": flags, "raw": raw, "unresolved": unresolved,
            "notes": notes + notes2, "macro_stages": mstage}


def emit(d: Optional[Dict[str, Any]] = None) -> Dict[str, Any]:
    d = d or build()
    L = ["(* GENERATED by harness/translate/sqlerr.py from /repo's working tree on every run. Do not edit. *)",
         "From Coq Require Import String List. Import ListNotations. Open Scope string_scope.",
         "From VTL Require Import Model.ErrMap.", "",
         "(* every error('…') literal instance with the stage it is raised in: (site, stage, DuckDB message) *)",
         "Definition macro_lits : list (string * stage * string) := ["]
    L.append(";\n".join(f"  ({coq_string(sid)}, {st}, {coq_string(m)})" for sid, st, m in d["lits"]))
    L.append("].\n")
    L.append("(* message |-> (real _map_query_error, real map_duckdb_error) *)")
    L.append("Definition map_table : list (string * (mres * mres)) := [")
    L.append(";\n".join(f"  ({coq_string(m)}, ({_res(q)}, {_res(l)}))" for m, (q, l) in d["table"]))
    L.append("].\n")
    L.append("(* mapper found around the conn.execute calls of each stage (Python ast); None = not classified *)")
    L.append("Definition stage_mapper_code : list (stage * option mapper) := [")
    L.append(";\n".join(f"  ({st}, {'None' if d['flags'][st] is None else 'Some ' + d['flags'][st]})" for st in STAGES
                        if d["flags"].get(st) in (None, "NoMap", "MapQuery", "MapLoad", "MapNormalize")))
    L.append("].\n")
    L.append("(* raw DuckDB messages observed per stage (probes of the installed DuckDB + corpus/C32/messages.json) *)")
    L.append("Definition observed_raw : list (stage * string) := [")
    L.append(";\n".join(f"  ({st}, {coq_string(m)})" for st, _, m in d["raw"] if st in STAGES))
    L.append("].\n")
    write_if_changed(GEN / "ErrLits.v", "\n".join(L))
    return d


def regenerate():
    emit()


if __name__ == "__main__":
    d = emit()
    for s in d["sites"]:
        print(s.get("id"), s.get("stages"), s["parts"])
    print("unresolved:", d["unresolved"])
    print("notes:", d["notes"])
    print("flags:", d["flags"])
    print(len(d["lits"]), "literal instances;", len(d["table"]), "table rows;", len(d["raw"]), "raw messages")
    for st, c, m in d["raw"]:
        print(st, c, m[:100].replace("\n", " | "), "->", real_map(m))
