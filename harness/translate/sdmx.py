"""T-sdmx: the SDMX -> VTL structure mapping, regenerated into Gen/Sdmx.v on every run.

By import: the members of pysdmx's DataType and Role enums (installed pysdmx), VTL_DTYPES_MAPPING / VTL_ROLE_MAPPING of
vtlengine.Utils.  By scanning docs/data_structures.rst: the documented role table (SDMX role, VTL role, nullable) and the
documented type table.  By calling the real `to_vtl_json`: its complete result table over every single-component structure
(every DataType x Role), built as Schema, DataStructureDefinition and Dataflow, with the data type given locally and through
the concept (six variants; the translator checks that they agree and writes the table once)."""
from __future__ import annotations

import re
from typing import Dict, List, Tuple

from common import GEN, REPO, coq_list, coq_string, write_if_changed
from translate.types import rst_tables

ROLE_CTOR = {"DIMENSION": "Dimension", "MEASURE": "Measure", "ATTRIBUTE": "Attribute"}


def mods():
    import engine
    engine.install()
    import importlib
    U = importlib.import_module("vtlengine.Utils")
    H = importlib.import_module("vtlengine.files.sdmx_handler")
    from pysdmx.model import DataType, Role
    return U, H, DataType, Role


def enum_key(k) -> str:
    """key of a mapping dict as the string the code compares with (str-valued enums hash as their value)"""
    return str(k.value) if hasattr(k, "value") else str(k)


def doc_tables() -> Tuple[List[Tuple[str, str, bool]], List[Tuple[str, str]]]:
    """([(SDMX role name, VTL role, nullable)], [(SDMX data type, VTL type)]) from docs/data_structures.rst."""
    tabs = rst_tables(REPO / "docs" / "data_structures.rst")
    roles, types = None, None
    for hdr, rows in tabs:
        h = [c.strip().lower() for c in hdr]
        if h[:2] == ["sdmx role", "vtl role"]:
            roles = []
            for r in rows:
                m = re.search(r"Role\.(\w+)", r[0])
                nul = r[2].strip().strip("`").lower()
                if not m or nul not in ("true", "false"):
                    raise RuntimeError(f"docs/data_structures.rst: role row not understood: {r}")
                roles.append((m.group(1), r[1].strip().strip("`"), nul == "true"))
        elif h[:2] == ["sdmx data type", "vtl type"]:
            types = []
            for r in rows:
                vt = r[1].strip().strip("`")
                cell = r[0]
                names = re.findall(r"``(\w+)``", cell)
                # "``ReportingTimePeriod`` and all reporting period variants (Year, Semester, ...)"
                m = re.search(r"all reporting period variants\s*\(([^)]*)\)", cell)
                if m:
                    names += ["Reporting" + x.strip() for x in m.group(1).split(",") if x.strip()]
                if not names:
                    raise RuntimeError(f"docs/data_structures.rst: type row without type names: {r}")
                types += [(n, vt) for n in names]
    if roles is None or types is None:
        raise RuntimeError("docs/data_structures.rst: the role table or the type table was not found")
    return roles, types


def build_structure(kind: str, comps):
    """comps: [(id, Role member, DataType member, 'local'|'concept')] -> pysdmx object named DS_1"""
    from pysdmx.model import Component, Components, Concept, Role
    from pysdmx.model.dataflow import DataStructureDefinition, Dataflow, Schema
    cl = []
    for cid, role, dt, via in comps:
        kw = {"attachment_level": "O"} if role == Role.ATTRIBUTE else {}
        if via == "local":
            cl.append(Component(id=cid, required=True, role=role, concept=Concept(id=cid), local_dtype=dt, **kw))
        else:
            cl.append(Component(id=cid, required=True, role=role, concept=Concept(id=cid, dtype=dt), **kw))
    cs = Components(cl)
    if kind == "schema":
        return Schema(context="datastructure", agency="VERIF", id="DS_1", components=cs)
    if kind == "dsd":
        return DataStructureDefinition(id="DS_1", agency="VERIF", components=cs)
    if kind == "dataflow":
        return Dataflow(id="DS_1", agency="VERIF", structure=DataStructureDefinition(id="DSD_X", agency="VERIF", components=cs))
    raise ValueError(kind)


def classify(e) -> Tuple[str, str]:
    import vtlengine.Exceptions as X
    if isinstance(e, X.InputValidationException):
        return ("InputValidation", "")
    if isinstance(e, X.VTLEngineException):
        return ("OtherVTL", type(e).__name__)
    if isinstance(e, KeyError):
        k = e.args[0] if e.args else ""
        return ("RawKeyError", enum_key(k))
    return ("Raw", type(e).__name__)


def call_to_vtl_json(H, obj):
    """-> ('Converted', name, [(name, role, type, nullable)]) | (error class, detail)"""
    try:
        r = H.to_vtl_json(obj)
    except Exception as e:  # noqa
        return classify(e)
    ds = r["datasets"]
    if len(ds) != 1 or set(r) != {"datasets"} or set(ds[0]) != {"name", "DataStructure"}:
        raise RuntimeError(f"to_vtl_json returned an unexpected shape: {r}")
    out = []
    for c in ds[0]["DataStructure"]:
        if set(c) != {"name", "role", "type", "nullable"}:
            raise RuntimeError(f"to_vtl_json component with unexpected keys: {c}")
        out.append((c["name"], c["role"], c["type"], bool(c["nullable"])))
    return ("Converted", ds[0]["name"], out)


def singles_table():
    U, H, DataType, Role = mods()
    tab, disagree = [], []
    for dt in DataType:
        for role in Role:
            res = {}
            for kind in ("schema", "dsd", "dataflow"):
                for via in ("local", "concept"):
                    res[(kind, via)] = call_to_vtl_json(H, build_structure(kind, [("C1", role, dt, via)]))
            vals = list(res.values())
            if any(v != vals[0] for v in vals):
                disagree.append((dt.value, role.name, res))
            tab.append(((dt.value, role.name), vals[0]))
    return tab, disagree


def _vcomp(c) -> str:
    return f"mkV {coq_string(c[0])} {coq_string(c[1])} {coq_string(c[2])} {'true' if c[3] else 'false'}"


def coq_outcome(o) -> str:
    if o[0] == "Converted":
        return f"(Converted {coq_list([_vcomp(c) for c in o[2]])})"
    if o[0] == "InputValidation":
        return "InputValidation"
    if o[0] == "RawKeyError":
        return f"(RawKeyErr {coq_string(o[1])})"   # (Coq constructor name avoids the substring "Error": common.coq_eval greps for it)
    return f"(OtherFailure {coq_string(o[0] + ':' + o[1])})"


def emit() -> dict:
    U, H, DataType, Role = mods()
    dtypes = [(d.name, d.value) for d in DataType]
    roles = [(r.name, r.value) for r in Role]
    if any(not isinstance(v, str) for _, v in dtypes):
        raise RuntimeError("pysdmx DataType values are not strings")
    dmap = [(enum_key(k), v) for k, v in U.VTL_DTYPES_MAPPING.items()]
    rmap = [(k.name if hasattr(k, "name") else str(k), v) for k, v in U.VTL_ROLE_MAPPING.items()]
    if any(not isinstance(v, str) for _, v in dmap + rmap):
        raise RuntimeError("a mapping value is not a string")
    doc_roles, doc_types = doc_tables()
    tab, disagree = singles_table()
    L = ["(* GENERATED by harness/translate/sdmx.py from /repo's working tree and the installed pysdmx on every run. Do not edit. *)",
         "From Coq Require Import String List. Import ListNotations.",
         "From VTL Require Import Model.Sdmx.", "Open Scope string_scope.", ""]
    import pysdmx
    L.append(f"(* pysdmx {pysdmx.__version__} *)")
    L.append("(* pysdmx.model.DataType members (values), by import *)")
    L.append("Definition pysdmx_dtypes : list string := " + coq_list([coq_string(v) for _, v in dtypes]) + ".")
    L.append("(* pysdmx.model.Role members (names), by import *)")
    L.append("Definition pysdmx_roles : list string := " + coq_list([coq_string(n) for n, _ in roles]) + ".")
    L.append("(* vtlengine.Utils.VTL_DTYPES_MAPPING, by import *)")
    L.append("Definition code_dtype_map : list (string * string) := " + coq_list([f"({coq_string(k)}, {coq_string(v)})" for k, v in dmap]) + ".")
    L.append("(* vtlengine.Utils.VTL_ROLE_MAPPING, by import (keys = Role member names) *)")
    L.append("Definition code_role_map : list (string * string) := " + coq_list([f"({coq_string(k)}, {coq_string(v)})" for k, v in rmap]) + ".")
    L.append("(* docs/data_structures.rst, role table: (SDMX role, VTL role, nullable) *)")
    L.append("Definition doc_role_table : list (string * (string * bool)) := " +
             coq_list([f"({coq_string(a)}, ({coq_string(b)}, {'true' if c else 'false'}))" for a, b, c in doc_roles]) + ".")
    L.append("(* docs/data_structures.rst, type table *)")
    L.append("Definition doc_dtype_map : list (string * string) := " + coq_list([f"({coq_string(k)}, {coq_string(v)})" for k, v in doc_types]) + ".")
    L.append("")
    L.append("(* the real to_vtl_json on every single-component structure (component id C1): key = (data type, role) *)")
    L.append("Definition singles_tab : list ((string * srole) * outcome) := [")
    L.append(";\n".join(f"  (({coq_string(dt)}, {ROLE_CTOR.get(rn, 'Dimension')}), {coq_outcome(o)})" for (dt, rn), o in tab))
    L.append("].\n")
    write_if_changed(GEN / "Sdmx.v", "\n".join(L))
    return {"dtypes": dtypes, "roles": roles, "dmap": dmap, "rmap": rmap, "doc_roles": doc_roles, "doc_types": doc_types,
            "tab": tab, "disagree": disagree, "unknown_roles": [n for n, _ in roles if n not in ROLE_CTOR]}


def regenerate():
    emit()


if __name__ == "__main__":
    d = emit()
    print(len(d["dtypes"]), "data types;", d["roles"], len(d["dmap"]), "mapped;", d["doc_roles"], len(d["doc_types"]), "documented types;",
          len(d["tab"]), "table rows;", len(d["disagree"]), "variant disagreements")
    print([k for k, o in d["tab"] if o[0] != "Converted"])
