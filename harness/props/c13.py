"""C13 — the dataset load/release schedule is safe and results are selected correctly.

Proof: Props/C13.v (Model/Sched.v, Proofs/SchedP.v): for every topologically sorted statement list with unique outputs, any length.
Tie T-dag (X): the REAL DAGAnalyzer (create_ast + ds_structure) on scripts realising every dependency shape up to the tier's bound,
  compared field by field with the Gallina schedule_of / edges_of / promote_impl; every order networkx produced is validated with
  the proved checker is_topo_order.
Tie T-skel (hooks): the REAL vtlengine.run with the guarded event sink; the real load/exec/release/fetch trace is compared with the
  model's replay, and the property predicates are evaluated on the real trace itself (Python + the proved checker safe_historyb)."""
from __future__ import annotations

import json
from pathlib import Path

import common
import dagtie as T

REPO_TESTS = common.REPO / "tests"


def directed_cases():
    """corners: persistent scalar used inside a clause (before the repair of visit_Start no dependency edge was created and the
    scalar was released before its reader: regression cases), scalar chains, unused inputs, a dataset named like a component"""
    def ds(out, ops, pers=False, clause=None, const=1, plain=False):
        return {"out": out, "pers": pers, "kind": "ds", "ops": ops, "clause": clause, "const": const, "clause_plain": plain}

    def sc(out, ops, pers=False, const=3):
        return {"out": out, "pers": pers, "kind": "sc", "ops": ops, "clause": None, "const": const}
    cases = []
    cases.append(("pers-scalar-clause", [sc("sc_1", [], pers=True), ds("DS_1", ["IN_1"], clause="sc_1")], ["IN_1"]))
    cases.append(("pers-scalar-clause", [sc("sc_1", [], pers=True), ds("DS_1", ["IN_1"], clause="sc_1"), ds("DS_2", ["DS_1", "IN_2"], pers=True)],
                  ["IN_1", "IN_2"]))
    cases.append(("scalar-clause", [sc("sc_1", []), ds("DS_1", ["IN_1"], clause="sc_1")], ["IN_1"]))
    cases.append(("scalar-clause", [sc("sc_1", []), sc("sc_2", ["sc_1"]), ds("DS_1", ["IN_1", "sc_2"], clause="sc_1", pers=True)], ["IN_1"]))
    cases.append(("pers-scalar-top", [sc("sc_1", [], pers=True), ds("DS_1", ["IN_1", "sc_1"])], ["IN_1"]))
    cases.append(("unused-input", [ds("DS_1", ["IN_2"])], ["IN_1", "IN_2", "IN_3"]))
    cases.append(("component-name", [ds("Me_1", ["IN_1"]), ds("DS_1", ["IN_1"], plain=True)], ["IN_1"]))
    return [{"cat": c, "canon": st, "stmts": st, "inputs": ins, "shape": (c, i)} for i, (c, st, ins) in enumerate(cases)]


def run_items(ctx, cases, rops):
    items = []
    for c, rop in zip(cases, rops):
        reads = {s["out"]: T.true_reads(s) for s in c["canon"]}
        items.append({"job": T.run_job_for(c, rop), "rop": rop, "tabled": list(c["inputs"]), "reads": reads,
                      "want": (None if c.get("no_ref") else T.canon_expected(c, rop)), "label": T.script_text(c["stmts"]), "cat": c["cat"], "case": c})
    return items


def report_trace(ctx, st, what):
    """turns the outcome of a trace tie into obligations / violations"""
    ctx.oblige(f"{what}: every job ran (no broken worker / unexpected create_dag count)", not st["broken"], "; ".join(st["broken"][:3]))
    for it, fails, trace in st["predicate_failures"][:20]:
        ctx.violation(f"trace:{it['cat']}:{fails[0].split(' ')[0]}",
                      f"C13 predicate fails on the REAL event trace of run(): {fails[:3]} — script {it['label']!r}",
                      {"script": it["label"], "job": it["job"], "rop": it["rop"], "trace": trace, "failures": fails})
    for it, o in st["failed_runs"][:40]:
        kind, code, msg = o["err"]
        if it["cat"] in ("corpus",):
            continue
        ev = T.normalise_trace(o["events"])
        released = [n for k, n, _ in ev if k == "release"]
        key = f"run-fails:{it['cat']}:{kind}:{code}"
        ctx.violation(key, f"run() of a valid generated script fails with {kind} {code} ({msg[:160]}); events so far {ev}; "
                           f"released before the failing statement: {released} — script {it['label']!r}",
                      {"script": it["label"], "job": it["job"], "rop": it["rop"], "trace": ev, "error": o["err"]})
    ctx.oblige(f"{what}: model replay = real event trace, model returned = run() keys ({st['ok']} runs)", not st["model_mismatch"],
               "; ".join(f"{it['label']!r}: {mm[0]}" for it, mm in st["model_mismatch"][:3]))
    for it, rb in st["result_mismatch"][:10]:
        ctx.violation(f"result:{it['cat']}", f"run() result differs from the value computed from the full script: {rb[0][:300]} — {it['label']!r}",
                      {"script": it["label"], "job": it["job"], "rop": it["rop"], "diff": rb})


def corpus_items(ctx, pool):
    scripts = [s for s in T.corpus_scripts(REPO_TESTS) if s["struct_paths"] and s["dp_paths"]]
    if ctx.tier != "thorough":   # quick: a sample of the candidate files is parsed
        ctx.rng.shuffle(scripts)
        scripts = sorted(scripts[:40], key=lambda x: x["path"])
    splits = pool.map([{"kind": "split", "path": s["path"]} for s in scripts])
    multi = []
    for s, sp in zip(scripts, splits):
        if sp.get("outcome") == "ok" and sum(1 for g in sp["segs"] if g["assign"]) >= 2:
            multi.append(s)
    ctx.cov["corpus_multi_statement_with_data"] = len(multi)
    if ctx.tier != "thorough":
        ctx.rng.shuffle(multi)
        multi = multi[:12]
    items = []
    for i, s in enumerate(sorted(multi, key=lambda x: x["path"])):
        rop = bool(i % 2)
        kw = dict(s["kw"])
        kw["return_only_persistent"] = rop
        items.append({"job": {"kind": "run", "script": Path(s["path"]).read_text(), "struct_paths": s["struct_paths"], "dp_paths": s["dp_paths"], "kw": kw},
                      "rop": rop, "tabled": T.struct_dataset_names(s["struct_paths"]), "reads": None, "want": None,
                      "label": s["path"], "cat": "corpus"})
    return items


def run(ctx):
    ctx.cov["rule"] = ("X: every upper-triangular dependency shape up to N statements (quick N=4 + sampled 5..6, thorough N=6) x persistent masks "
                       "(all for n<=3, sampled beyond) x sampled use of 1..4 global inputs x one sampled textual permutation, plus scripts "
                       "with scalar statements / clause uses / duplicated operands; distinct = (category, shape, script). "
                       "Traces: real run() per case with the event sink, both values of return_only_persistent")
    ok = ctx.prove("C13")
    pool = T.Pool()
    try:
        cases = T.gen_shape_cases(ctx.rng, ctx.tier)
        cases += T.gen_decorated_cases(ctx.rng, 3000 if ctx.tier == "thorough" else 150)
        cases += directed_cases()
        cases += T.gen_localname_cases(ctx.rng, ctx.tier)
        ctx.log(f"X tie: {len(cases)} generated scripts")
        st = T.dag_tie(ctx, pool, cases, "c13dag")
        ctx.cov["exhaustive"] = True
        ctx.cov["dag_tie"] = {k: v for k, v in st.items() if k not in ("mismatches", "spec_vs_impl", "broken")}
        hist = {}
        for c in cases:
            hist[c["cat"]] = hist.get(c["cat"], 0) + 1
        ctx.cov["case_categories"] = hist
        ctx.oblige("T-dag: the real DAGAnalyzer ran on every generated script", not st["broken"], "; ".join(st["broken"][:3]))
        ctx.oblige(f"T-dag: dependencies/vertex/edges/schedule equal the Gallina functions field by field ({st['cases']} scripts)",
                   st["mismatch"] == 0, " | ".join(st["mismatches"][:3]))
        ctx.oblige(f"T-dag: every order produced by networkx passes is_topo_order ({st['orders_validated']} orders)",
                   st["orders_validated"] == st["ok"], "")
        ctx.log(f"X tie: {st['ok']} accepted, {st['cycle']} cycle, {st['redef']} redefinition, {st['mismatch']} mismatches")
        for c in cases[:3]:
            ctx.sample({"script": T.script_text(c["stmts"]), "category": c["cat"]})

        # ---- real traces
        runnable = list(cases)
        directed = {id(c) for c in cases if not c["cat"].startswith("shape") and c["cat"] != "decorated"}
        small = [c for c in runnable if (c["cat"].startswith("shape") and c["shape"][0] <= 3) or id(c) in directed]
        rest = [c for c in runnable if not ((c["cat"].startswith("shape") and c["shape"][0] <= 3) or id(c) in directed)]
        ctx.rng.shuffle(rest)
        budget = 8000 if ctx.tier == "thorough" else 170
        chosen = small + [c for c in rest if not c["cat"].startswith("shape")][:(2000 if ctx.tier == "thorough" else 40)]
        chosen += [c for c in rest if c["cat"].startswith("shape")][:max(0, budget - len(chosen))]
        rops = [bool(i % 2) for i in range(len(chosen))]
        items = run_items(ctx, chosen, rops)
        ctx.log(f"trace tie: {len(items)} real run() calls on generated scripts")
        tr = T.trace_tie(ctx, pool, items, "c13tr")
        ctx.cov["trace_tie"] = {"runs": tr["runs"], "ok": tr["ok"], "errors": tr["errors"]}
        report_trace(ctx, tr, "generated traces")
        ctx.log(f"trace tie: {tr['ok']}/{tr['runs']} runs ok, errors {tr['errors']}, model mismatches {len(tr['model_mismatch'])}, "
                f"predicate failures {len(tr['predicate_failures'])}, result mismatches {len(tr['result_mismatch'])}")

        # ---- corpus traces
        items = corpus_items(ctx, pool)
        ctx.log(f"corpus: {len(items)} multi-statement scripts with data")
        cr = T.trace_tie(ctx, pool, items, "c13co")
        ctx.cov["corpus_trace_tie"] = {"runs": cr["runs"], "ok": cr["ok"], "errors": cr["errors"]}
        report_trace(ctx, cr, "corpus traces")
        for it, o in cr["failed_runs"]:
            if o["err"][0] == "RawDuckDB" and "does not exist" in o["err"][2]:
                ev = T.normalise_trace(o["events"])
                ctx.violation(f"corpus-missing-table:{Path(it['label']).parent.parent.parent.name}/{Path(it['label']).name}",
                              f"run() of corpus script {it['label']} fails with {o['err'][1]}: {o['err'][2][:200]}; events {ev[-6:]}",
                              {"script_path": it["label"], "job": it["job"], "rop": it["rop"], "trace": ev, "error": o["err"]})
        ctx.log(f"corpus: {cr['ok']}/{cr['runs']} runs ok, errors {cr['errors']}, model mismatches {len(cr['model_mismatch'])}, "
                f"predicate failures {len(cr['predicate_failures'])}")
    finally:
        pool.close()
    ctx.trusted.append("T-dag harness (harness/dagtie.py): script generator, numbering of names, the parser of Coq's printed terms; the Java ATN "
                       "front end parsing the generated/corpus text; the event hooks of vtlengine._verif (a `release x` event marks the START of "
                       "x's cleanup, the DROP follows the fetch: adjacent release/fetch pairs are reordered before comparison); DuckDB itself "
                       "(a statement whose table is missing raises CatalogException, which the check treats as an availability failure)")
    ctx.assumptions.append("the statement list given to _ds_usage_analysis is topologically sorted with unique outputs: guaranteed per use by "
                           "validating every networkx order with is_topo_order and by check_overwriting (modelled, C12)")
    ctx.assumptions.append("names read by a statement are those the DAG visitor reports (tie X covers the visitor only on the generated statement "
                           "forms: arithmetic over datasets/scalars and calc clauses); DuckDB reports any other read of a missing table")


def replay(ctx, obj):
    """re-runs the recorded case on the current tree and prints expected vs observed"""
    pool = T.Pool(1)
    try:
        job = obj["job"]
        o = pool.map([job])[0]
        print("script:", obj.get("script") or obj.get("script_path"))
        print("expected: every table a statement reads is in the store when it runs; each result released once after its last reader; "
              "run() returns the selected results")
        if o.get("ok"):
            print("observed: run() ok, keys", sorted(list(o["datasets"]) + list(o["scalars"])))
        else:
            print("observed: run() raises", o.get("err") or o.get("harness_error"))
        print("trace:", T.normalise_trace(o.get("events", [])))
        print(obj.get("what"))
        return 1 if not o.get("ok") or obj.get("failures") else 0
    finally:
        pool.close()
