"""C27 — SDMX structures map to VTL structures as documented.

Tie: T-sdmx (translate/sdmx.py: pysdmx enums, the two mapping dicts, the doc tables, and the complete table of the real
to_vtl_json over every single-component structure, proved equal to the Gallina model inside Coq).
K: real pysdmx Schema / DataStructureDefinition / Dataflow objects of 1-5 components (exhaustive singles, sampled
combinations over every data type and role, data type given locally or through the concept) are passed through the real
`to_vtl_json`, `vtlengine.semantic_analysis(script, data_structures=<object>)`, `vtlengine.run(...)` and `vtlengine.run_sdmx`
and the structure the engine uses — or the input-validation error for an unmappable data type — is compared, component by
component and in order, with the model evaluated by Coq (`engine_to_vtl_json` = the documented to_vtl_json_spec since the
repair of to_vtl_json; a raw KeyError coming back is an unlisted VIOLATION).
pysdmx[xml] is not installed: SDMX-ML files cannot be read here, only in-memory objects are used."""
from __future__ import annotations

from translate import sdmx as T

SCRIPT = "DS_r <- DS_1;"
VALUES = {"String": "a", "Integer": 1, "Number": 1.5, "Boolean": True, "Date": "2020-01-01", "Time_Period": "2020-Q1",
          "Time": "2020-01-01/2020-12-31", "Duration": "A"}


def py_search(ctx, d):
    """the property's predicates evaluated on what the real code returned (independent of the Gallina model)"""
    out = []
    dmap, doc = dict(d["dmap"]), dict(d["doc_types"])
    bad = sorted({dt for (dt, rn), o in d["tab"] if o[0] not in ("Converted", "InputValidation")})
    if bad:
        errs = sorted({o[0] + (":" + o[1] if o[1] else "") for (dt, rn), o in d["tab"] if o[0] not in ("Converted", "InputValidation")})
        out.append(("unmapped-dtype-raw-keyerror",
                    f"pysdmx data types {bad} are not in VTL_DTYPES_MAPPING and to_vtl_json does not reject them with an input-validation "
                    f"error: {errs} escapes (also through semantic_analysis, run and run_sdmx)",
                    {"dtypes": bad, "role": "MEASURE", "kind": "schema", "expected": "InputValidationException", "observed": errs}))
    for _, dt in d["dtypes"]:
        if dmap.get(dt) != doc.get(dt):
            out.append((f"mapping-vs-doc:{dt}", f"SDMX data type {dt}: VTL_DTYPES_MAPPING gives {dmap.get(dt)}, docs/data_structures.rst gives {doc.get(dt)}",
                        {"dtypes": [dt], "role": "MEASURE", "kind": "schema", "expected": doc.get(dt), "observed": dmap.get(dt)}))
    rmap = dict(d["rmap"])
    for name, vrole, nullable in d["doc_roles"]:
        if rmap.get(name) != vrole or nullable != (name != "DIMENSION"):
            out.append((f"role-vs-doc:{name}", f"role {name}: code maps to {rmap.get(name)} / nullable={name != 'DIMENSION'}, doc says {vrole} / {nullable}",
                        {"role": name}))
    for (dt, rn), o in d["tab"]:
        if o[0] == "Converted":
            comps = o[2]
            if len(comps) != 1 or comps[0][0] != "C1" or comps[0][3] != (rn != "DIMENSION") or o[1] != "DS_1":
                out.append((f"single-shape:{dt}:{rn}", f"to_vtl_json of the single component (C1, {rn}, {dt}) returned {o}", {"dtypes": [dt], "role": rn}))
    return out


def coq_comp(c):
    from common import coq_string
    return f"mkS {coq_string(c[0])} {T.ROLE_CTOR[c[1].name]} {coq_string(c[2].value)}"


def model_outcome(v):
    """parsed Coq term -> ('Converted', [(name, role, type, nullable)]) | ('InputValidation',) | ('RawKeyError', k)"""
    if isinstance(v, tuple) and v[0] == "Converted":
        return ("Converted", [(c["vc_name"][1], c["vc_role"][1], c["vc_type"][1], bool(c["vc_nullable"])) for c in v[1]])
    if v == "InputValidation":
        return ("InputValidation",)
    if isinstance(v, tuple) and v[0] == "RawKeyErr":
        return ("RawKeyError", v[1][1])
    return ("?", v)


def engine_struct_error(e):
    k, detail = T.classify(e)
    return (k, detail) if k == "RawKeyError" else (k,) if k == "InputValidation" else ("Other", k, detail, str(e)[:200])


def run(ctx):
    import common
    from common import coq_eval, coq_list
    d = T.emit()
    ctx.oblige(f"T-sdmx: pysdmx enums ({len(d['dtypes'])} data types, {len(d['roles'])} roles), mapping dicts, doc tables and the table of the real "
               f"to_vtl_json ({len(d['tab'])} single-component structures x 6 variants) extracted", True)
    ctx.oblige("T-sdmx: to_vtl_json gives the same result for Schema / DataStructureDefinition / Dataflow and local / concept data types",
               not d["disagree"], str(d["disagree"][:2]))
    ctx.oblige("T-sdmx: every pysdmx Role is one of the three modelled roles", not d["unknown_roles"], str(d["unknown_roles"]))
    for (dt, rn), o in d["tab"]:
        for kind in ("schema", "dsd", "dataflow"):
            for via in ("local", "concept"):
                ctx.count(("single", dt, rn, kind, via))
    ctx.cov["pysdmx_dtypes"] = len(d["dtypes"])
    ctx.cov["mapped_dtypes"] = len(d["dmap"])
    ctx.cov["documented_dtypes"] = len(d["doc_types"])
    ok = ctx.prove("C27")
    found = py_search(ctx, d)

    # ------------------------------------------------------------------ K
    import engine
    engine.install(need_parser=True)
    import pandas as pd
    import vtlengine
    from pysdmx.io.pd import PandasDataset
    from pysdmx.model import DataType, Role
    from vtlengine.DataTypes import SCALAR_TYPES
    H = T.mods()[1]
    rng = ctx.rng
    quick = ctx.tier == "quick"
    dts, roles = list(DataType), list(Role)
    unmapped = [dt for dt in dts if dt.value not in dict(d["dmap"])]
    cases = []  # (kind, [(id, role, dtype, via)], which apis)
    for dt in dts:                      # exhaustive singles through semantic_analysis, every structure kind
        for role in roles:
            for kind in ("schema", "dsd", "dataflow"):
                cases.append((kind, [("C1", role, dt, rng.choice(("local", "concept")))], ("to_vtl_json", "semantic")))
    n_combo = 250 if quick else 4000
    n_run = 50 if quick else 600
    for i in range(n_combo):
        n = rng.randint(1, 5)
        comps = []
        for j in range(n):
            # unmapped types are rare in a uniform draw: give them a fixed share so that rejection paths are exercised
            dt = rng.choice(unmapped) if (unmapped and rng.random() < 0.06) else rng.choice(dts)
            comps.append((f"C{j + 1}", rng.choice(roles), dt, rng.choice(("local", "concept"))))
        rng.shuffle(comps)
        kind = rng.choice(("schema", "dsd", "dataflow"))
        apis = ["to_vtl_json", "semantic"]
        if i < n_run:
            apis.append("run")
            kind = ("schema", "dsd", "dataflow")[i % 3]
            if kind == "schema":
                apis.append("run_sdmx")
        cases.append((kind, comps, tuple(apis)))
    # model
    exprs = [f"engine_to_vtl_json {coq_list([coq_comp(c) for c in comps])}" for _, comps, _ in cases]
    header = ("From Coq Require Import String List. Import ListNotations.\nFrom VTL Require Import Model.Sdmx Gen.Sdmx Props.C27.\n"
              "Open Scope string_scope.\n")
    mvals = [model_outcome(v) for v in coq_eval(header, exprs, "c27case", shard=400)]
    jtype = {k: v.__name__ for k, v in SCALAR_TYPES.items()}

    def as_classes(comps):
        return [(n, r, jtype.get(t, t), nl) for n, r, t, nl in comps]

    mismatches, raw_hits = [], []
    hist = {"n_components": {}, "kinds": {}, "apis": {}, "model_outcomes": {}}
    for (kind, comps, apis), mv in zip(cases, mvals):
        hist["n_components"][len(comps)] = hist["n_components"].get(len(comps), 0) + 1
        hist["kinds"][kind] = hist["kinds"].get(kind, 0) + 1
        hist["model_outcomes"][mv[0]] = hist["model_outcomes"].get(mv[0], 0) + 1
        desc = {"kind": kind, "components": [(c[0], c[1].name, c[2].value, c[3]) for c in comps]}
        obj = T.build_structure(kind, comps)
        for api in apis:
            hist["apis"][api] = hist["apis"].get(api, 0) + 1
            ctx.count((api, kind, tuple((c[0], c[1].name, c[2].value, c[3]) for c in comps)))
            try:
                if api == "to_vtl_json":
                    r = H.to_vtl_json(obj)
                    got = ("Converted", [(c["name"], c["role"], c["type"], bool(c["nullable"])) for c in r["datasets"][0]["DataStructure"]])
                    if r["datasets"][0]["name"] != "DS_1":
                        mismatches.append((api, desc, f"dataset name {r['datasets'][0]['name']}"))
                elif api == "semantic":
                    r = vtlengine.semantic_analysis(SCRIPT, obj)
                    got = ("Classes", engine.canon_dataset(r["DS_r"])["comps"])
                elif api == "run":
                    if mv[0] == "Converted":
                        row = {n: [VALUES[t]] for n, _, t, _ in mv[1]}
                    else:
                        row = {c[0]: ["a"] for c in comps}
                    r = vtlengine.run(SCRIPT, obj, {"DS_1": pd.DataFrame(row)})
                    got = ("Classes", engine.canon_dataset(r["DS_r"])["comps"])
                else:
                    data = pd.DataFrame({c[0]: pd.Series([], dtype=object) for c in comps})
                    r = vtlengine.run_sdmx(SCRIPT, [PandasDataset(structure=obj, data=data)])
                    got = ("Classes", engine.canon_dataset(r["DS_r"])["comps"])
            except Exception as e:  # noqa
                got = engine_struct_error(e)
            if mv[0] == "Converted":
                want = ("Converted", mv[1]) if api == "to_vtl_json" else ("Classes", [tuple(x) for x in as_classes(mv[1])])
                g = (got[0], [tuple(x) for x in got[1]]) if got[0] in ("Converted", "Classes") else got
                if g != want:
                    mismatches.append((api, desc, f"model {want}, engine {g}"))
            else:
                if tuple(got) != tuple(mv):
                    mismatches.append((api, desc, f"model {mv}, engine {got}"))
                elif mv[0] == "RawKeyError":
                    raw_hits.append((api, desc, mv[1]))
    ctx.cov["rule"] = ("exhaustive: every pysdmx DataType x Role as a single-component Schema/DSD/Dataflow (local and concept data type) through "
                       "to_vtl_json and semantic_analysis; sampled 1-5 component structures through to_vtl_json, semantic_analysis, run, run_sdmx; "
                       "distinct = (api, kind, component list)")
    ctx.cov["exhaustive"] = True
    ctx.cov["k_histograms"] = hist
    ctx.cov["raw_keyerror_cases_by_api"] = {a: sum(1 for x in raw_hits if x[0] == a) for a in ("to_vtl_json", "semantic", "run", "run_sdmx")}
    ctx.cov["structures_rejected_with_input_validation"] = hist["model_outcomes"].get("InputValidation", 0)
    for c in cases[:2] + cases[-2:]:
        ctx.sample({"kind": c[0], "components": [(x[0], x[1].name, x[2].value, x[3]) for x in c[1]], "apis": c[2]})
    ctx.oblige(f"K: the structure used by to_vtl_json / semantic_analysis / run / run_sdmx equals the model on {len(cases)} structures "
               f"({sum(hist['apis'].values())} API calls)", not mismatches, "; ".join(f"{a} {b}: {c}" for a, b, c in mismatches[:3]))
    for a, b, c in mismatches[:10]:
        ctx.violation(f"model-mismatch:{a}:{b['kind']}:{'/'.join(x[2] + '@' + x[1] for x in b['components'])}",
                      f"engine and model disagree through {a} on {b}: {c}", {"api": a, **b, "detail": c})
    if raw_hits and not any(k == "unmapped-dtype-raw-keyerror" for k, _, _ in found):
        a, b, k = raw_hits[0]
        found.append(("unmapped-dtype-raw-keyerror", f"raw KeyError({k}) escapes {a} for {b}", {"api": a, **b}))
    for key, what, rep in found[:25]:
        ctx.violation(key, what, rep)
    ctx.log(f"K: {len(cases)} structures, {sum(hist['apis'].values())} API calls ({hist['apis']}), model outcomes {hist['model_outcomes']}, "
            f"{len(mismatches)} mismatches, raw KeyError observed {len(raw_hits)} times; property search: {[k for k, _, _ in found]}")
    ctx.trusted.append("T-sdmx translator (harness/translate/sdmx.py): import of pysdmx's DataType/Role and of the two mapping dicts, rst scanner of "
                       "docs/data_structures.rst (incl. the expansion of 'all reporting period variants (Year, ...)' to ReportingYear, ...), the real "
                       "to_vtl_json called on single-component structures; pysdmx's own object model (Component.dtype, Components.dimensions/...)")
    ctx.assumptions.append("SDMX-ML / SDMX-JSON structure FILES are not exercised (pysdmx[xml] is not installed); load_sdmx_structure reaches to_vtl_json "
                           "with the DataStructureDefinition objects pysdmx reads, which is the object path covered here")
    ctx.assumptions.append("run_sdmx is driven with empty data frames (pysdmx's PandasDataset converts data by SDMX type before the engine sees it)")


def replay(ctx, obj):
    import engine
    engine.install(need_parser=True)
    import vtlengine
    from pysdmx.model import DataType, Role
    H = T.mods()[1]
    byval = {d.value: d for d in DataType}
    if "components" in obj:
        comps = [(c[0], Role[c[1]], byval[c[2]], c[3]) for c in obj["components"]]
    else:
        comps = [(f"C{i + 1}", Role[obj.get("role", "MEASURE")], byval[dt], "local") for i, dt in enumerate(obj.get("dtypes", []))]
        comps = [("ID", Role.DIMENSION, DataType.INTEGER, "local")] + comps
    st = T.build_structure(obj.get("kind", "schema"), comps)
    print("expected:", obj.get("expected", obj.get("detail")))
    for name, f in (("to_vtl_json", lambda: H.to_vtl_json(st)), ("semantic_analysis", lambda: vtlengine.semantic_analysis(SCRIPT, st))):
        try:
            print(name, "->", f())
        except Exception as e:  # noqa
            print(name, "raises", type(e).__name__, e)
    return 1
