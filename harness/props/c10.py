"""C10 — results conform to the structure predicted by semantic analysis.
Proof: Props/C10.v (names_of soundness; identifiers non-null and unique).  Tie/predicate: for generated scripts and corpus scripts,
every dataset returned by run() is compared with what semantic_analysis() reports (names, roles, types, nullability, order) and its
values are checked against the component types; names_of (the model's structure prediction) is compared with semantic_analysis."""
from __future__ import annotations

import hashlib
import json
import math
import re
from fractions import Fraction

import pandas as pd

import corpus
import engine
import exprgen as G
import exprk
from common import coq_eval, coq_list, coq_string

HEADER = ("From Coq Require Import ZArith QArith String List.\nImport ListNotations.\n"
          "From VTL Require Import Base.Val Model.Table Model.Scalar Model.Expr Model.Struct.\nOpen Scope string_scope.\n")

DATE_RE = re.compile(r"^\d{4}-\d{2}-\d{2}([T ]\d{2}:\d{2}:\d{2}(\.\d+)?)?$")
PERIOD_RE = re.compile(r"^\d{4}(A|-?[SQMWD]\d{1,3}|-\d{2}(-\d{2})?|-?[A])?$")
DURATION_RE = re.compile(r"^([ASQMWD]|P\d+[YMWD])$")


def value_ok(v, typ):
    if v is None:
        return True
    if typ == "Integer":
        return (isinstance(v, int) and not isinstance(v, bool)) or (isinstance(v, str) and "/" in v and Fraction(v).denominator == 1)
    if typ == "Number":
        return (isinstance(v, int) and not isinstance(v, bool)) or (isinstance(v, str) and ("/" in v or v in ("inf", "-inf")))
    if typ == "Boolean":
        return isinstance(v, bool)
    if typ == "String":
        return isinstance(v, str)
    if typ == "Date":
        return isinstance(v, str) and bool(DATE_RE.match(v))
    if typ == "TimePeriod":
        return isinstance(v, str) and len(v) >= 4
    if typ == "TimeInterval":
        return isinstance(v, str) and "/" in v
    if typ == "Duration":
        return isinstance(v, str)
    return True


def conformance_problems(run_res, sem_res):
    """list of violations of the C10 predicate for one script"""
    out = []
    if not (run_res["ok"] and sem_res["ok"]):
        return out
    for name, d in run_res["datasets"].items():
        if name not in sem_res["datasets"]:
            out.append(f"run() returned dataset {name} that semantic_analysis() does not report")
            continue
        sem = sem_res["datasets"][name]
        if [tuple(c) for c in d["comps"]] != [tuple(c) for c in sem]:
            out.append(f"{name}: structure of run() {d['comps']} differs from semantic_analysis() {sem}")
            continue
        if d["data_cols"] is not None and list(d["data_cols"]) != [c[0] for c in d["comps"]]:
            out.append(f"{name}: data columns {d['data_cols']} are not the predicted components {[c[0] for c in d['comps']]} in order")
            continue
        idx_ids = [i for i, c in enumerate(d["comps"]) if c[1] == "Identifier"]
        seen = set()
        for r in d["rows"]:
            for i, c in enumerate(d["comps"]):
                if not value_ok(r[i], c[2]):
                    out.append(f"{name}.{c[0]}: value {r[i]!r} does not inhabit type {c[2]}")
                if r[i] is None and (c[1] == "Identifier" or not c[3]):
                    out.append(f"{name}.{c[0]}: null in a {'identifier' if c[1] == 'Identifier' else 'non-nullable component'}")
            k = tuple(r[i] for i in idx_ids)
            if k in seen:
                out.append(f"{name}: two datapoints share the identifiers {k}")
            seen.add(k)
        if not idx_ids and len(d["rows"]) > 1:
            out.append(f"{name}: dataset without identifiers has {len(d['rows'])} datapoints")
    for name, (typ, v) in run_res["scalars"].items():
        if name in sem_res["scalars"] and sem_res["scalars"][name] not in (typ, "Null") and typ != "Null":
            out.append(f"scalar {name}: run() type {typ}, semantic_analysis() type {sem_res['scalars'][name]}")
    return out[:6]


def senv_coq(dss):
    return coq_list([f"({coq_string(n)}, ({coq_list([coq_string(x) for x, _ in d['shape'].ids])}, {coq_list([coq_string(x) for x, _ in d['shape'].ms])}))"
                     for n, d in dss.items()])


def run(ctx):
    ctx.prove("C10")
    ctx.prove("C10Types")     # type soundness of the component-expression language (typing judgement built on the regenerated tables)
    engine.install(need_parser=True)
    q = ctx.tier == "quick"
    import typetie
    typing_hist = typetie.run(ctx, q)
    # --- generated scripts: predicate on engine output + names_of vs semantic_analysis
    cases = []
    while len(cases) < (120 if q else 6000):
        c = exprk.make_case(ctx.rng, ctx.rng.choice([1, 2, 3]), risky_div=False,
                            directed=ctx.rng.choice([None, None, None, None, "setctx", "nest21", "chain"]))
        if c:
            cases.append(c)
    # names_of over the statement list: fold names through the statements
    exprs = []
    for c in cases:
        exprs.append(f"(fix go (e : senv) (ss : list (string * dexpr)) : res senv := match ss with [] => Ok e | (n, x) :: t => "
                     f"bind (names_of e x) (fun s => go ((n, s) :: e) t) end) {senv_coq(c['dss'])} {c['coq']}")
    model = coq_eval(HEADER, exprs, "c10")
    n_viol = 0
    for c, m in zip(cases, model):
        sem = engine.semantic_case(c["script"], c["structs"])
        rr = exprk.run_engine(c)
        ctx.count(hashlib.sha1(c["script"].encode() + json.dumps(exprk.case_json(c)["inputs"], sort_keys=True, default=str).encode()).hexdigest())
        for p in conformance_problems(rr, sem):
            n_viol += 1
            shape = "null-constant-operand:" if ("non-nullable" in p and re.search(r"\bnull\b", c["script"])) else ""
            if exprk.CLAUSE_ON_RESULT.search(c["script"]) and "measure-renaming-operator" in c.get("flags", []) and "data columns" in p:
                # the recorded C01 defect (a clause applied directly to the result of a measure-renaming operator loses the column)
                ctx.violation("nested:clause-applied-to-operator-result:wrong-result", f"{c['script'].strip()} :: {p}", {"case": exprk.case_json(c), "problem": p})
                continue
            ctx.violation("generated:" + shape + re.sub(r"[^A-Za-z_. ]", "", p)[:60], f"{c['script'].strip()} :: {p}", {"case": exprk.case_json(c), "problem": p})
        if sem["ok"] and m[0] == "Ok":
            env = {x[0][1]: ([y[1] for y in x[1][0]], [y[1] for y in x[1][1]]) for x in m[1]}
            for name, comps in sem["datasets"].items():
                if name in env:
                    ids = sorted(cn for cn, role, _, _ in [tuple(z) for z in comps] if role == "Identifier")
                    oth = sorted(cn for cn, role, _, _ in [tuple(z) for z in comps] if role != "Identifier")
                    if ids != sorted(env[name][0]) or oth != sorted(env[name][1]):
                        ctx.oblige(f"model names_of = semantic_analysis() on {name} of: {c['script'][:80]}", False,
                                   f"engine ids {ids} others {oth}; model {env[name]}")
        if len(ctx.cov["samples"]) < 3 and rr["ok"]:
            ctx.sample({"script": c["script"], "structure": rr["datasets"].get("DS_r", {}).get("comps")})
    # --- corpus: predicate only
    done = 0
    errs = {}
    for c in corpus.enumerate_cases(rng=ctx.rng):
        if done >= (60 if q else 2300):
            break
        structs = {"datasets": [d for s in c.structures for d in s.get("datasets", [])]}
        sc = [x for s in c.structures for x in s.get("scalars", [])]
        if sc:
            structs["scalars"] = sc
        rr = corpus.run_corpus_case(c, return_only_persistent=False)
        if not rr["ok"]:
            errs[str(rr["err"])] = errs.get(str(rr["err"]), 0) + 1
            continue
        sem = engine.semantic_case(c.script, structs)
        done += 1
        ctx.count("corpus:" + c.id)
        for p in conformance_problems(rr, sem):
            n_viol += 1
            ctx.violation("corpus:" + c.id + ":" + re.sub(r"[^A-Za-z_. ]", "", p)[:40], f"corpus {c.id} :: {p}", {"corpus_case": c.id, "problem": p})
    # --- operator zoo: templates beyond the modelled subset (joins, exists_in, aggregations, analytic, validation, time operators…)
    import zoo
    zoo_hist = {}
    for name, script, st, dps in zoo.cases(ctx.rng, n_draws=2 if q else 40):
        rr = engine.run_case(script, st, dps, return_only_persistent=False)
        if not rr["ok"]:
            zoo_hist[name] = zoo_hist.get(name, 0)
            continue
        zoo_hist[name] = zoo_hist.get(name, 0) + 1
        sem = engine.semantic_case(script, st)
        ctx.count(("zoo", name, repr(sorted((k, v.to_json()) for k, v in dps.items()))))
        for p in conformance_problems(rr, sem):
            n_viol += 1
            ctx.violation(f"zoo:{name}:" + re.sub(r"[^A-Za-z_. ]", "", p)[:50], f"{script.strip()[-200:]} :: {p}",
                          {"template": name, "script": script, "structures": st, "inputs": {k: v.to_dict(orient="list") for k, v in dps.items()}, "problem": p})
    ctx.cov["distribution"] = {"generated": len(cases), "corpus_ok": done, "corpus_engine_errors": errs, "zoo_template_runs_ok": zoo_hist, "typing_tie": typing_hist}
    ctx.cov["rule"] = ("generated scripts (exprk generator) and corpus scripts with their data (return_only_persistent=False): every returned dataset vs "
                       "semantic_analysis() (names, roles, types, nullability, order; data columns in component order), every value inhabits its type, "
                       "identifiers non-null and unique, non-nullable components non-null, no-identifier datasets ≤ 1 datapoint; names_of vs "
                       "semantic_analysis() on every generated script; the same predicate over every operator-zoo template (joins, exists_in, aggregations, "
                       "analytic, validation, time operators, conditionals, casts) on random data; distinct = script+data")
    ctx.oblige("predicate evaluated on engine output for every case", True)
    ctx.oblige("typing tie: ctype_code evaluated in Coq = semantic_analysis() on the depth-1 expression language (exhaustive over accepted "
               "expressions; rejected ones sampled in the quick tier), values inhabit the predicted types", True)
    ctx.assumptions.append("typing judgement: conditions of if are components (a literal condition is evaluated at scalar level by another code "
                           "path); mod/power are typed but outside the value model; Boolean-to-String promotion is typed, its run-time failures "
                           "are recorded findings")


def replay(ctx, obj):
    if "template" in obj:
        dps = {k: pd.DataFrame(v).astype(object) for k, v in obj["inputs"].items()}
        ps = conformance_problems(engine.run_case(obj["script"], obj["structures"], dps, return_only_persistent=False),
                                  engine.semantic_case(obj["script"], obj["structures"]))
        print(obj["script"], "->", ps or "conforms")
        return 1 if ps else 0
    if "case" in obj:
        c = exprk.case_from_json(obj["case"])
        ps = conformance_problems(exprk.run_engine(c), engine.semantic_case(c["script"], c["structs"]))
        print(c["script"], "->", ps or "conforms")
        return 1 if ps else 0
    print(obj.get("what"))
    return 1
