"""C15 — results are deterministic and independent of engine configuration.
Proof: Props/C15.v (any executor that only reorders intermediate datapoints returns the same set).  The predicate is evaluated
directly on the engine: the same script + input under VTL_THREADS × VTL_USE_IN_MEMORY_DB × VTL_MEMORY_LIMIT (+ temp dir), and
repeated, must return the same datapoints as sets; inputs large enough for DuckDB to parallelise."""
from __future__ import annotations

import hashlib
import itertools
import os
import tempfile

import numpy as np
import pandas as pd

import corpus
import engine
import exprk
from props.c33 import result_sig

KNOBS_Q = [(1, "1", None), (4, "1", None), (16, "0", None), (2, "0", "64MB"), (16, "1", "64MB")]
KNOBS_T = [(t, m, l) for t in (1, 2, 4, 16) for m in ("1", "0") for l in (None, "64MB")]

BIG_SCRIPTS = [
    "DS_r <- DS_1 + DS_2;",
    "DS_r <- DS_1[filter Me_1 > 0][calc Me_3 := Me_1 * 2 + Me_2];",
    "DS_r <- union(DS_1, DS_2);",
    "DS_r <- intersect(DS_2, DS_1);",
    "DS_r <- symdiff(DS_1, DS_2);",
    "DS_r <- sum(DS_1 group by Id_2);",
    "DS_r <- avg(DS_1 group by Id_2 having count() > 10);",
    "DS_r <- inner_join(DS_1 as a, DS_2 as b keep a#Me_1, b#Me_2);",
    "DS_r <- left_join(DS_1 as a, DS_2 as b rename a#Me_1 to A1, a#Me_2 to A2, b#Me_1 to B1, b#Me_2 to B2);",
    "T_1 := DS_1 * 2; T_2 := T_1 - DS_2; DS_r <- T_2[filter Me_2 < 100];",
    "DS_r <- DS_1[aggr Me_9 := max(Me_1), Me_8 := count() group by Id_2];",
    "DS_r <- DS_1[calc Me_3 := rank(over (partition by Id_2 order by Id_1))];",
    "DS_r <- sum(DS_5 group by Id_2);",
    "DS_r <- sum(DS_5);",
    "DS_r <- DS_1;",
]
MUST_RUN = ("DS_r <- sum(DS_5 group by Id_2);", "DS_r <- sum(DS_5);", "DS_r <- DS_1;")


def big_inputs(rng, n):
    ids = np.arange(n)
    ids2 = ids.copy()
    rng_np = np.random.default_rng(rng.randrange(1 << 30))
    rng_np.shuffle(ids2)
    d1 = pd.DataFrame({"Id_1": ids, "Id_2": ids % 97, "Me_1": rng_np.integers(-1000, 1000, n) / 4.0, "Me_2": rng_np.integers(0, 500, n) / 2.0})
    m = int(n * 0.7)
    d2 = pd.DataFrame({"Id_1": ids2[:m] + n // 3, "Id_2": (ids2[:m] + n // 3) % 97, "Me_1": rng_np.integers(-1000, 1000, m) / 4.0, "Me_2": rng_np.integers(0, 500, m) / 2.0})
    d1.loc[d1.index % 11 == 0, "Me_1"] = None
    # values of very different magnitude: a floating-point sum would depend on the order of accumulation (thread count)
    # (±1e15 + thousandths: partial sums exceed 2^53, so every accumulation order rounds differently; exact in DECIMAL)
    mag = np.where(ids % 7 == 0, 1e15, np.where(ids % 7 == 3, -1e15, 0.0))
    d5 = pd.DataFrame({"Id_1": ids, "Id_2": ids % 97, "Me_3": mag + rng_np.integers(1, 1000, n) / 1000.0})
    comps = [("Id_1", "Integer", "Identifier", False), ("Id_2", "Integer", "Identifier", False), ("Me_1", "Number", "Measure", True), ("Me_2", "Number", "Measure", True)]
    comps5 = comps[:2] + [("Me_3", "Number", "Measure", True)]
    return (engine.structures(engine.ds_struct("DS_1", comps), engine.ds_struct("DS_2", comps), engine.ds_struct("DS_5", comps5)),
            {"DS_1": d1, "DS_2": d2, "DS_5": d5})


def with_knobs(knob, tmpdir, f):
    t, mem, lim = knob
    saved = {k: os.environ.get(k) for k in ("VTL_THREADS", "VTL_USE_IN_MEMORY_DB", "VTL_MEMORY_LIMIT", "VTL_TEMP_DIRECTORY")}
    os.environ["VTL_THREADS"] = str(t)
    os.environ["VTL_USE_IN_MEMORY_DB"] = mem
    if lim:
        os.environ["VTL_MEMORY_LIMIT"] = lim
    else:
        os.environ.pop("VTL_MEMORY_LIMIT", None)
    os.environ["VTL_TEMP_DIRECTORY"] = tmpdir
    try:
        return f()
    finally:
        for k, v in saved.items():
            if v is None:
                os.environ.pop(k, None)
            else:
                os.environ[k] = v


def sig_hash(res):
    if not res["ok"]:
        return ("ERR",) + tuple(res["err"])
    return hashlib.sha1(repr(result_sig(res)).encode()).hexdigest()


def run(ctx):
    ctx.prove("C15")
    engine.install(need_parser=True)
    q = ctx.tier == "quick"
    knobs = KNOBS_Q if q else KNOBS_T
    n_big = 150_000 if q else 1_000_000   # above DuckDB's row-group / vector batch sizes, not a multiple of them
    hist = {}
    with tempfile.TemporaryDirectory(prefix="c15_") as tmp:
        structs, dps = big_inputs(ctx.rng, n_big)
        scripts = BIG_SCRIPTS if not q else list(MUST_RUN) + ctx.rng.sample([x for x in BIG_SCRIPTS if x not in MUST_RUN], 3)
        for s in scripts:
            sigs = {}
            for kb in knobs:
                used = {"datasets": [d for d in structs["datasets"] if d["name"] in s]}
                udps = {k: v for k, v in dps.items() if k in s}
                r = with_knobs(kb, tmp, lambda: engine.run_case(s, used, udps))
                sigs[kb] = sig_hash(r)
                ctx.count((s, kb))
                hist[str(kb)] = hist.get(str(kb), 0) + 1
                if not r["ok"] and "memory" in r["msg"].lower():
                    sigs.pop(kb)  # the run did not complete (out of memory under the 64MB limit): outside the property
            # repeated run under the first knob
            r2 = with_knobs(knobs[0], tmp, lambda: engine.run_case(s, used, udps))
            sigs[("repeat",) + knobs[0]] = sig_hash(r2)
            if r2["ok"] and s == "DS_r <- DS_1;" and len(r2["datasets"]["DS_r"]["rows"]) != len(dps["DS_1"]):
                ctx.violation("big:identity-loses-datapoints", f"{s} over {len(dps['DS_1'])} rows returns {len(r2['datasets']['DS_r']['rows'])} datapoints",
                              {"script": s, "rows": len(dps["DS_1"]), "returned": len(r2["datasets"]["DS_r"]["rows"])})
            if len(set(sigs.values())) > 1:
                ctx.violation("big:" + s[:50], f"{s} over {n_big} rows returns different datapoints under different engine settings / repeated runs",
                              {"script": s, "rows": n_big, "signatures": {str(k): str(v) for k, v in sigs.items()}})
            if len(ctx.cov["samples"]) < 3:
                ctx.sample({"script": s, "rows": n_big, "knobs": [str(k) for k in knobs], "distinct_results": len(set(sigs.values()))})
        # generated small scripts under a subset of knobs
        for i in range(25 if q else 1200):
            c = exprk.make_case(ctx.rng, ctx.rng.choice([1, 2, 3]))
            if c is None:
                continue
            sigs = {kb: sig_hash(with_knobs(kb, tmp, lambda: exprk.run_engine(c))) for kb in (knobs[0], knobs[2], knobs[-1])}
            ctx.count(("gen", c["script"]))
            if len(set(sigs.values())) > 1:
                ctx.violation("generated:" + "+".join(sorted(k for k in c["hist"] if not k.startswith("c:")))[:60],
                              f"{c['script'].strip()} returns different datapoints under different engine settings",
                              {"case": exprk.case_json(c), "signatures": {str(k): str(v) for k, v in sigs.items()}})
        # operator zoo: every template on small data under 2 settings, and on scaled-up data (thousands of datapoints) under 3
        import zoo
        for scale, kbs in ((1, (knobs[0], knobs[2])), (400 if q else 4000, (knobs[0], knobs[1], knobs[-1]))):
            for name, script, st, zdps in zoo.cases(ctx.rng, n_draws=1, scale=scale, skip=("cross_join",) if scale > 1 else ()):
                if scale > 1 and q and ctx.rng.random() < 0.5:
                    continue
                sigs = {kb: sig_hash(with_knobs(kb, tmp, lambda: engine.run_case(script, st, zdps))) for kb in kbs}
                ctx.count(("zoo", name, scale))
                hist["zoo"] = hist.get("zoo", 0) + len(kbs)
                if len(set(sigs.values())) > 1:
                    ctx.violation(f"zoo:{name}:scale{scale}", f"{script.strip()[-160:]} returns different datapoints under different engine settings (scale {scale})",
                                  {"template": name, "script": script, "scale": scale, "signatures": {str(k): str(v) for k, v in sigs.items()}})
        # corpus sample
        done = 0
        for c in corpus.enumerate_cases(rng=ctx.rng):
            if done >= (10 if q else 600):
                break
            if any(k in c.script.lower() for k in ("current_date", "random")):
                continue
            base = with_knobs(knobs[0], tmp, lambda: corpus.run_corpus_case(c))
            if not base["ok"]:
                continue
            done += 1
            other = with_knobs(knobs[2], tmp, lambda: corpus.run_corpus_case(c))
            ctx.count(("corpus", c.id))
            if sig_hash(base) != sig_hash(other):
                ctx.violation("corpus:" + c.id, f"corpus script {c.id} returns different datapoints under {knobs[0]} and {knobs[2]}", {"corpus_case": c.id})
        leftovers = os.listdir(tmp)
    ctx.cov["distribution"] = {"runs_per_knob": hist, "big_rows": n_big, "corpus_cases": done}
    ctx.cov["rule"] = ("fixed large scripts (binary, clauses, set ops, aggregation, joins, analytic) over two datasets of %d/%d rows under each knob setting "
                       "(threads, in-memory/file-backed, memory limit, temp directory) + one repeated run; generated small scripts and corpus scripts under "
                       "3 / 2 settings; every operator-zoo template on small data (2 settings) and on data scaled to thousands of datapoints (3 settings); results compared as hashes of sorted canonical datapoints; runs that do not complete (out of memory) are outside the "
                       "property; distinct = (script, knob)" % (n_big, int(n_big * 0.7)))
    ctx.oblige("predicate evaluated on the engine: all completed runs agree", True)
    ctx.assumptions.append("DuckDB's parallel/spilling execution only reorders datapoints (the oracle of Props/C15.v) — exercised, not proved")


def replay(ctx, obj):
    print(obj.get("what"))
    print(obj.get("signatures"))
    return 1
