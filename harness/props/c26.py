"""C26 — every VTL error raised carries a catalogued code and renders its message.

Tie: T-errors (static scan of all raise sites + import of the catalogue, regenerated into Gen/Errors.v each run).
Proof: Props/C26.v.  Search on failure: construct the exception of each failing site with the real classes.
Dynamic part: constructions observed while provoking errors through the API are matched against the scanned sites."""
from __future__ import annotations

import importlib
import sys
import traceback

from translate import errors as T


def py_site_failures(sites, cat):
    bad = []
    for s in sites:
        if s["codes"] is None or s["splat"] or not s["codes"]:
            bad.append((s, None, "unresolved: " + (s["why"] or "** splat")))
            continue
        for c in s["codes"]:
            if c not in cat:
                bad.append((s, c, f"code {c} is not in centralised_messages"))
                continue
            missing = [f[1] for f in cat[c] if f[0] == "F" and f[1] not in s["kwargs"]]
            if missing:
                bad.append((s, c, f"placeholders {missing} of {c} not supplied (kwargs {s['kwargs']})"))
    return bad


def construct_real(cls_name, code, kwargs):
    import engine
    engine.install()
    exc_mod = importlib.import_module("vtlengine.Exceptions")
    cls = getattr(exc_mod, cls_name)
    kw = {k: "x" for k in kwargs}
    try:
        e = cls(code=code, **kw) if cls_name == "InputValidationException" else cls(code, **kw)
        return True, str(e)
    except Exception as ex:  # KeyError / IndexError from format
        return False, f"{type(ex).__name__}: {ex}"


def dynamic_observations(ctx, sites):
    """Provokes real errors through code paths that need no parser and records every construction of a coded
    exception (class, code, caller file:line); each must be a scanned site carrying that code."""
    import engine
    engine.install()
    exc_mod = importlib.import_module("vtlengine.Exceptions")
    seen = []
    originals = {}
    for name in T.coded_classes():
        cls = getattr(exc_mod, name)
        originals[name] = cls.__init__

        def make(orig, name):
            def init(self, *a, **k):
                fr = sys._getframe(1)
                code = k.get("code") if name == "InputValidationException" else (a[0] if a else k.get("code"))
                if name == "InputValidationException" and code is None and len(a) >= 4:
                    code = a[3]
                seen.append((name, code, fr.f_code.co_filename, fr.f_lineno))
                return orig(self, *a, **k)
            return init
        cls.__init__ = make(cls.__init__, name)
    try:
        from provoke import provoke_errors
        n = provoke_errors(ctx)
    finally:
        for name, o in originals.items():
            getattr(exc_mod, name).__init__ = o
    by_file = {}
    for s in sites:
        by_file.setdefault(s["file"], []).append(s)
    matched = 0
    src = str(T.SRC) + "/"
    for name, code, fn, ln in seen:
        if code is None or not fn.startswith(src):
            continue
        rel = fn[len(src):]
        cands = [s for s in by_file.get(rel, []) if s["cls"] == name and s["codes"] and code in s["codes"]
                 and abs(s["line"] - ln) <= 12]
        ctx.count(("dyn", rel, ln, code))
        if cands:
            matched += 1
        else:
            ctx.oblige(f"scanner covers observed construction {name}({code}) at {rel}:{ln}", False,
                       "an exception was constructed at run time at a place the static scan does not list with that code")
    ctx.cov["dynamic_constructions_observed"] = len(seen)
    ctx.cov["dynamic_constructions_matched_to_sites"] = matched
    ctx.log(f"dynamic: {n} provocations, {len(seen)} constructions, {matched} matched to scanned sites")


def run(ctx):
    sites, cat = T.scan()
    raw = T.catalogue_raw()
    odd = T.template_oddities(raw)
    ctx.oblige("T-errors: catalogue templates use only plain named fields (model of str.format is exact)", not odd,
               "; ".join(odd[:5]))
    T.emit(sites, cat)
    ctx.cov["sites"] = len(sites)
    ctx.cov["codes_in_catalogue"] = len(cat)
    ctx.cov["exhaustive"] = True
    ctx.cov["rule"] = ("every Call of a coded VTL exception class in src/vtlengine/**/*.py (Python ast walk; classes = those whose "
                       "__init__ indexes centralised_messages[code]); distinct = (file, line, code)")
    for s in sites:
        for c in (s["codes"] or ["?"]):
            ctx.count((s["file"], s["line"], c))
    for s in sites[:3] + sites[200:202]:
        ctx.sample({k: s[k] for k in ("file", "line", "cls", "codes", "kwargs")})
    ok = ctx.prove("C26")
    bad = py_site_failures(sites, cat)
    if bad or not ok:
        for s, c, why in bad[:20]:
            if c is None:
                ctx.violation(f"site:{s['file']}:{s['cls']}:unresolved", f"{s['file']}:{s['line']} {s['cls']}: {why}",
                              {"site": s, "theorem": "C26_all_sites_ok"}, found_input=False)
                continue
            good, msg = construct_real(s["cls"], c, s["kwargs"])
            ctx.violation(f"site:{s['file']}:{s['cls']}:{c}",
                          f"{s['file']}:{s['line']} {s['cls']}({c!r}, {', '.join(s['kwargs'])}): {why}; real construction -> {msg}",
                          {"site": s, "code": c, "construct_ok": good, "construct_result": msg,
                           "replay": "construct the exception with the listed keyword names"},
                          found_input=not good)
    if ctx.tier == "thorough" or True:
        try:
            dynamic_observations(ctx, sites)
        except Exception as e:
            traceback.print_exc()
            ctx.oblige("dynamic observation of raised errors ran", False, f"{type(e).__name__}: {e}")
    ctx.trusted.append("T-errors translator (harness/translate/errors.py): Python ast walk over src/vtlengine, literal/IfExp/f-string "
                       "code resolution, fail-closed on aliases, splats and non-literal codes; catalogue by import")
    ctx.assumptions.append("argument values are rendered by str.format without raising (plain {name} fields only — checked each run)")


def replay(ctx, obj):
    s = obj.get("site")
    if s and obj.get("code"):
        good, msg = construct_real(s["cls"], obj["code"], s["kwargs"])
        print("expected: exception constructs; observed:", "constructs" if good else "FAILS", msg)
        return 0 if good else 1
    print("replay names a broken obligation only:", obj.get("what"))
    return 1
