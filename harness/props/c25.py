"""C25 — generate_sdmx produces a TransformationScheme equivalent to the script.

Proof: Props/C25.v (items <-> assignments bijection for spec and implementation; the regenerated script is the script — spec;
refuted for the implementation with the viral-propagation witness; partial without viral definitions).
Tie K (real engine, through the parser front end), for corpus scripts, directed scripts and generated scripts:
  M  the abstract script (children of the AST returned by create_ast: kind, name, persistence) is given to
     Codec.scheme_of_script_impl / scheme_of_script (vm_compute) and compared with the scheme generate_sdmx returns: transformation
     ids, result names, persistence, order; number of rulesets / operators; what the specification keeps and the code drops;
  P  the property itself on the engine: one transformation per assignment (same name, persistence, order); every ruleset /
     operator definition and every transformation's full_expression re-parse to the original statement (AST equality modulo
     positions); run(scheme) = run(script) on generated data / test-suite data."""
from __future__ import annotations

import hashlib
import json
import re
from pathlib import Path
from typing import Any, Dict, List, Optional, Tuple

import scriptgen_codec as G
from common import CORPUS, coq_eval
from props import c24 as P24

K_VIRAL = "generate_sdmx:drops-viral-propagation"


def abstract_script(ast) -> List[Tuple[str, str, Optional[bool]]]:
    from vtlengine import AST
    from vtlengine.AST.ASTString import _format_reserved_word
    out = []
    for ch in ast.children:
        # an assignment's name is the result name as ASTString renders it (quoted when it needs quotes): what ast_to_sdmx stores in
        # Transformation.result since /repo 65c4527
        if isinstance(ch, AST.PersistentAssignment):
            out.append(("assign", _format_reserved_word(ch.left.value), True))
        elif isinstance(ch, AST.Assignment):
            out.append(("assign", _format_reserved_word(ch.left.value), False))
        elif isinstance(ch, AST.DPRuleset):
            out.append(("dp", ch.name, None))
        elif isinstance(ch, AST.HRuleset):
            out.append(("hr", ch.name, None))
        elif isinstance(ch, AST.Operator):
            out.append(("op", ch.op, None))
        elif isinstance(ch, AST.ViralPropagationDef):
            out.append(("viral", ch.name, None))
        else:
            out.append(("other", type(ch).__name__, None))
    return out


def coq_script(abs_) -> str:
    items = []
    for kind, name, pers in abs_:
        n = G.coq_bytes(name.encode("utf-8"))
        if kind == "assign":
            items.append(f"SAssign (of_N {n}) {'true' if pers else 'false'} []")
        elif kind == "dp":
            items.append(f"SRuleset RDatapoint (of_N {n}) []")
        elif kind == "hr":
            items.append(f"SRuleset RHierarchical (of_N {n}) []")
        elif kind == "op":
            items.append(f"SOperator (of_N {n}) []")
        elif kind == "viral":
            items.append(f"SViral (of_N {n}) []")
    return "[" + "; ".join(items) + "]"


MODEL_EXPR = ("(let s := {s} in let ci := scheme_of_script_impl s in let cs := scheme_of_script s in "
              "(map (fun t => (N.of_nat (t_id t), to_N (t_result t), t_persistent t)) (sc_items ci), "
              "map (fun r => (N.of_nat (r_id r), to_N (r_name r), match r_kind r with RDatapoint => true | RHierarchical => false end)) (sc_rulesets ci), "
              "map (fun u => (N.of_nat (u_id u), to_N (u_name u))) (sc_udos ci), "
              "N.of_nat (length (sc_virals ci)), N.of_nat (length (sc_virals cs))))")


def engine_scheme(script):
    import vtlengine
    ts = vtlengine.generate_sdmx(script, "MD", "VERIF")
    items = [(t.id, t.result, bool(t.is_persistent), t.expression, t.full_expression) for t in ts.items]
    rs = [(r.id, r.name, r.ruleset_type, r.ruleset_definition) for sch in ts.ruleset_schemes for r in sch.items]
    ud = [(u.id, u.name, u.operator_definition) for sch in ts.user_defined_operator_schemes for u in sch.items]
    return ts, items, rs, ud


def rekey(k: str) -> str:
    return "generate_sdmx:" + k.split(":", 1)[1] if k.startswith("prettify:") else k


def check_structure(script: str, reserved):
    """P on one script.  Returns None (script does not parse), or dict(problems=[(key, what)], abs=…, eng=…, ts=…)"""
    from vtlengine.API import create_ast
    try:
        ast = create_ast(script)
    except Exception:  # noqa
        return None
    abs_ = abstract_script(ast)
    stm = [G.canon_ast(c) for c in ast.children]
    out: Dict[str, Any] = {"abs": abs_, "problems": [], "eng": None, "ts": None}
    try:
        ts, items, rs, ud = engine_scheme(script)
    except Exception as e:  # noqa
        site = P24.raise_site(e)
        if isinstance(e, IndexError) and site == "_handle_literal":
            key = "generate_sdmx:float-literal:repr-without-dot"
        else:
            key = f"generate_sdmx:raises:{type(e).__name__}:{site}"
        out["problems"].append((key, f"generate_sdmx raises {type(e).__name__}: {str(e)[:160]}"))
        return out
    out["eng"] = (items, rs, ud)
    out["ts"] = ts
    assigns = [(n, p) for k, n, p in abs_ if k == "assign"]
    got = [(r, p) for _, r, p, _, _ in items]
    if got != assigns:
        out["problems"].append(("generate_sdmx:items-differ-from-assignments", f"transformations {got[:5]} vs assignments {assigns[:5]}"))
    if [i for i, *_ in items] != [f"T{j + 1}" for j in range(len(items))]:
        out["problems"].append(("generate_sdmx:item-ids", f"ids {[i for i, *_ in items][:6]}"))
    n_viral = sum(1 for k, *_ in abs_ if k == "viral")
    if n_viral:
        out["problems"].append((K_VIRAL, f"the script has {n_viral} `define viral propagation` statement(s) "
                                         f"{[n for k, n, _ in abs_ if k == 'viral']}; the scheme has no item for them"))
    # definitions and expressions re-parse to the original statements
    orig_by = {}
    for (k, n, p), c in zip(abs_, stm):
        orig_by.setdefault(k if k != "hr" and k != "dp" else "rs", []).append(c)

    def reparse(text, orig, what):
        try:
            a2 = create_ast(text)
        except Exception as e:  # noqa
            names = P24.nonplain_names([orig], reserved)
            fc = [c for c in P24.float_causes([orig]) if not c.endswith("integral-rendered-as-integer")]
            msg = str(e).split("\n")[0][:160]
            m = re.search(r"(?:mismatched input|extraneous input|missing \w+ at|no viable alternative at input) '([^']*)'", msg)
            tok = (m.group(1) if m else "?").split(" ")[-1]
            if names:
                return [("generate_sdmx:quoted-identifier:quotes-dropped", f"{what}: names {names[:3]} lose their quotes: {msg}")]
            if fc:
                return [(rekey(c), f"{what} does not parse: {msg}") for c in fc]
            left = orig.get("left") if isinstance(orig.get("left"), dict) else {}
            if what.startswith("transformation") and tok == left.get("value") and (tok in reserved or tok in ("true", "false")):
                return [("generate_sdmx:result-name-reserved-word-unquoted", f"{what}: the result name {tok!r} is a reserved word and "
                         f"Transformation.result / full_expression carry it without quotes: {msg}")]
            if tok in ("true", "false"):
                return [("generate_sdmx:reserved-word-unquoted:boolean-keyword", f"{what} does not parse: {msg}")]
            if tok in reserved:
                found = {n.get("_") for n in G.walk(orig) for f, v in n.items()
                         if f not in ("_", "op") and ((isinstance(v, str) and v == tok) or (isinstance(v, list) and tok in [x for x in v if isinstance(x, str)]))}
                prio = ["RenameNode", "DPRIdentifier", "DPValidation"]
                where = next((c for c in prio if c in found), None)
                if where:
                    return [(f"generate_sdmx:reserved-word-unquoted:{where}", f"{what} does not parse: {msg}")]
            return [(f"generate_sdmx:text-not-parseable:{tok if re.match(r'^[A-Za-z_]+$', tok) else 'other'}", f"{what} does not parse: {msg}: {text[:120]!r}")]
        ch = [G.canon_ast(c) for c in a2.children]
        if len(ch) != 1:
            return [("generate_sdmx:text-is-not-one-statement", f"{what} parses to {len(ch)} statements")]
        if ch[0] != orig:
            key, w = P24.classify_diff([orig], [ch[0]])
            fc = P24.float_causes([orig])
            if key.startswith("prettify:ast-differs") and fc:
                return [(rekey(c), f"{what}: {w}") for c in fc]
            return [(rekey(key), f"{what}: {w}")]
        return []
    if len(rs) == len(orig_by.get("rs", [])):
        for (rid, rname, rtype, rdef), o in zip(rs, orig_by.get("rs", [])):
            out["problems"] += reparse(rdef, o, f"ruleset {rid}")
            want = "datapoint" if o["_"] == "DPRuleset" else "hierarchical"
            if rtype != want:
                out["problems"].append(("generate_sdmx:ruleset-type", f"{rid}: {rtype} for a {want} ruleset"))
    else:
        out["problems"].append(("generate_sdmx:rulesets-count", f"{len(rs)} ruleset items for {len(orig_by.get('rs', []))} definitions"))
    if len(ud) == len(orig_by.get("op", [])):
        for (uid, uname, udef), o in zip(ud, orig_by.get("op", [])):
            out["problems"] += reparse(udef, o, f"operator {uid}")
    else:
        out["problems"].append(("generate_sdmx:operators-count", f"{len(ud)} operator items for {len(orig_by.get('op', []))} definitions"))
    if got == assigns:
        for (tid, r, p, expr, full), o in zip(items, orig_by.get("assign", [])):
            out["problems"] += reparse(full, o, f"transformation {tid}")
    # dedupe
    seen, uniq = set(), []
    for k, w in out["problems"]:
        if k not in seen:
            seen.add(k)
            uniq.append((k, w))
    out["problems"] = uniq
    return out


def model_compare(ctx, checked, tag):
    """M: scheme_of_script_impl (Coq) = generate_sdmx (engine) on the abstract scripts"""
    cases = [(s, r) for s, r in checked if r is not None and r["eng"] is not None and not any(k == "other" for k, *_ in r["abs"])]
    exprs = [MODEL_EXPR.format(s=coq_script(r["abs"])) for _, r in cases]
    res = coq_eval(G.HEADER, exprs, f"c25_{tag}", shard=max(150, len(exprs) // 16 + 1))
    bad = 0
    for (src, r), m in zip(cases, res):
        m_items, m_rs, m_ud, m_vi, m_vs = m
        items, rs, ud = r["eng"]
        e_items = [(int(i[1:]), res_.encode("utf-8"), p) for i, res_, p, _, _ in items]
        mm_items = [(int(a), G.py_bytes(b), bool(c)) for a, b, c in m_items]
        e_rs = [(int(i[1:]), t == "datapoint") for i, _, t, _ in rs]
        mm_rs = [(int(a), bool(c)) for a, b, c in m_rs]
        e_ud = [int(i[3:]) for i, _, _ in ud]
        mm_ud = [int(a) for a, b in m_ud]
        ok = e_items == mm_items and e_rs == mm_rs and e_ud == mm_ud and int(m_vi) == 0
        n_viral = sum(1 for k, *_ in r["abs"] if k == "viral")
        ok = ok and int(m_vs) == n_viral
        if not ok:
            bad += 1
            ctx.oblige(f"M: scheme_of_script_impl = generate_sdmx ({str(src)[:60]})", False,
                       f"items model {mm_items[:4]} engine {e_items[:4]}; rulesets {mm_rs} / {e_rs}; operators {mm_ud} / {e_ud}")
    ctx.oblige(f"M: Codec.scheme_of_script_impl agrees with generate_sdmx on {len(cases)} scripts ({tag})", bad == 0, f"{bad} differ")
    ctx.cov["model_compared_scripts"] = ctx.cov.get("model_compared_scripts", 0) + len(cases)


def run_equal_scheme(script, ts, structs, data, **kw):
    import engine
    r1 = engine.run_case(script, structs, data, return_only_persistent=False, **kw)
    r2 = engine.run_case(ts, structs, data, return_only_persistent=False, **kw)
    if r1["ok"] != r2["ok"]:
        return False, f"run(script) -> {'ok' if r1['ok'] else r1['err']}; run(scheme) -> {'ok' if r2['ok'] else (r2['err'], r2['msg'][:140])}", r1["ok"]
    if not r1["ok"]:
        return (r1["err"] == r2["err"]), f"errors {r1['err']} vs {r2['err']}", False
    if r1["datasets"] != r2["datasets"] or r1["scalars"] != r2["scalars"]:
        for k in r1["datasets"]:
            if r1["datasets"][k] != r2["datasets"].get(k):
                a, b = r1["datasets"][k], r2["datasets"].get(k)
                return False, f"dataset {k}: {str(a['rows'][:2])[:150]} vs {str(b and b['rows'][:2])[:150]}", True
        return False, f"scalars {r1['scalars']} vs {r2['scalars']}", True
    return True, "", True


def directed_cases():
    import pandas as pd
    import engine
    base = P24.directed_cases()
    comps = [("Id_1", "Integer", "Identifier", False), ("Id_2", "Integer", "Identifier", False), ("Me_1", "Number", "Measure", True),
             ("VAt_1", "String", "Viral Attribute", True)]
    structs = engine.structures(engine.ds_struct("DS_1", comps))
    df = pd.DataFrame({"Id_1": pd.Series([1, 1, 2], dtype="object"), "Id_2": pd.Series([1, 2, 1], dtype="object"),
                       "Me_1": pd.Series([10.0, 20.0, 30.0], dtype="object"), "VAt_1": pd.Series(["A", "A", "B"], dtype="object")})
    viral = [
        "define viral propagation VP1 (variable VAt_1) is aggregate max end viral propagation;\nDS_r <- DS_1[aggr Me_3 := sum(Me_1) group by Id_1];",
        'define viral propagation VP2 (variable VAt_1) is when "A" then "A"; when "B" then "B"; else "X" end viral propagation;\nDS_r <- DS_1[aggr Me_3 := sum(Me_1) group by Id_1];',
    ]
    return base + [{"script": s, "structs": structs, "data": {"DS_1": df}} for s in viral]


def save_corpus(rep):
    d = CORPUS / "C25"
    d.mkdir(parents=True, exist_ok=True)
    obj = {k: v for k, v in rep.items() if k in ("script", "path", "kind", "structs", "data")}
    h = hashlib.sha1(json.dumps(obj, sort_keys=True, default=str).encode()).hexdigest()[:10]
    (d / f"{h}.json").write_text(json.dumps(obj, indent=1, default=str))


def run(ctx):
    import engine
    engine.install(need_parser=True)
    fkeys = Path(__file__).resolve().parents[2] / "findings.d" / "C25.json"
    known = {f["key"] for f in json.loads(fkeys.read_text()).get("findings", [])} if fkeys.exists() else set()
    ctx.prove("C25")
    quick = ctx.tier == "quick"
    reserved = P24.reserved_words()
    by_key: Dict[str, List[Tuple[str, dict]]] = {}

    def add(key, what, rep):
        by_key.setdefault(key, []).append((what, rep))

    checked = []
    # ---- past failures
    past = sorted((CORPUS / "C25").glob("*.json")) if (CORPUS / "C25").exists() else []
    for f in past:
        obj = json.loads(f.read_text())
        script = G.read_script(Path(obj["path"])) if obj.get("path") and Path(obj["path"]).exists() else obj.get("script")
        if script:
            r = check_structure(script, reserved)
            for k, w in (r or {}).get("problems", []):
                add(k, w, obj)
    ctx.cov["corpus_past_failures"] = len(past)
    # ---- corpus
    paths = G.stratified_corpus(260) if quick else G.corpus_scripts()      # quick: fixed stratified sample, independent of the seed
    n_parse = n_ok = n_assign = 0
    for p in paths:
        try:
            script = G.read_script(p)
        except Exception:  # noqa
            continue
        r = check_structure(script, reserved)
        if r is None:
            continue
        n_parse += 1
        n_assign += sum(1 for k, *_ in r["abs"] if k == "assign")
        ctx.count(("corpus", str(p)))
        checked.append((p, r))
        if not r["problems"]:
            n_ok += 1
        for k, w in r["problems"]:
            add(k, w, {"path": str(p), "kind": "corpus"})
    ctx.cov["corpus_scripts_checked"] = n_parse
    ctx.cov["corpus_scripts_ok"] = n_ok
    ctx.cov["corpus_assignments"] = n_assign
    ctx.log(f"P: corpus {n_parse} scripts, {n_ok} fully ok")
    # ---- null-position and reserved-word templates (structural part only)
    words = sorted(w for w in reserved if re.match(r"^[a-z_]+$", w))
    if quick:
        words = ctx.rng.sample(words, 6)
    n_t = 0
    for s_ in list(P24.NULL_TEMPLATES) + [t.replace("{w}", w) for w in words for t in P24.RESERVED_TEMPLATES]:
        r = check_structure(s_, reserved)
        if r is None:
            continue
        n_t += 1
        ctx.count(("template", s_))
        checked.append((s_[:60], r))
        for k, w in r["problems"]:
            add(k, w, {"script": s_, "kind": "template"})
    ctx.cov["template_scripts"] = n_t
    # ---- directed + generated, with run equivalence
    n_gen = 25 if quick else 1200
    directed = directed_cases()
    n_run = n_run_ok = 0
    hist: Dict[str, int] = {}
    for i in range(-len(directed), n_gen):
        c = directed[i] if i < 0 else G.gen_script_case(ctx.rng, wide_literals=(i % 4 == 0))
        for k, v in c.get("hist", {"directed": 1}).items():
            hist[k] = hist.get(k, 0) + v
        r = check_structure(c["script"], reserved)
        if r is None:
            ctx.oblige("generator: generated script parses", False, c["script"][:200])
            continue
        ctx.count(("gen", i))
        checked.append((c["script"][:60], r))
        rep = {"script": c["script"], "structs": c["structs"], "data": P24.data_obj(c["data"]), "kind": "generated" if i >= 0 else "directed"}
        for k, w in r["problems"]:
            add(k, w, rep)
        if r["ts"] is None or not r["eng"][0]:
            continue
        same, why, _ = run_equal_scheme(c["script"], r["ts"], c["structs"], c["data"])
        n_run += 1
        n_run_ok += same
        if not same:
            cause = next((k for k, _ in r["problems"]), "generate_sdmx:run-result-differs:structure-ok")
            add(cause, f"run(scheme) differs from run(script): {why}", rep)
        if 0 <= i < 2:
            ctx.sample({"script": c["script"], "items": [(t[0], t[1], t[2], t[3]) for t in r["eng"][0]]})
    ctx.cov["generated_scripts"] = n_gen
    ctx.cov["directed_scripts"] = len(directed)
    ctx.cov["runs_compared"] = n_run
    ctx.cov["runs_equal"] = n_run_ok
    ctx.cov["generated_template_histogram"] = hist
    # ---- test-suite scripts with data
    n_suite = 8 if quick else 300
    sp = G.stratified_corpus()          # fixed order (seed-independent)
    done = eq = 0
    for pth in sp:
        if done >= n_suite:
            break
        c = G.suite_case(pth)
        if c is None or not c["data"] or sum(Path(f).stat().st_size for f in c["data"].values()) > 20000:
            continue
        r = check_structure(c["script"], reserved)
        if r is None or r["ts"] is None or not r["eng"][0]:
            continue
        kw = {"value_domains": c["value_domains"]} if c.get("value_domains") else {}
        same, why, orig_ok = run_equal_scheme(c["script"], r["ts"], c["structs"], c["data"], **kw)
        if not orig_ok and same:
            continue
        done += 1
        eq += same
        ctx.count(("suite-run", str(pth)))
        if not same:
            cause = next((k for k, _ in r["problems"]), "generate_sdmx:run-result-differs:structure-ok")
            add(cause, f"run(scheme) differs from run(script): {why}", {"path": str(pth), "kind": "suite-run"})
    ctx.cov["suite_runs_compared"] = done
    ctx.cov["suite_runs_equal"] = eq
    model_compare(ctx, checked, "all")
    for key, lst in sorted(by_key.items()):
        what, rep = lst[0]
        rep = dict(rep)
        rep["other_examples"] = [(x[1].get("path") or x[1].get("script", "")[:80]) for x in lst[1:8]]
        src = rep.get("path") or repr(rep.get("script", "")[:200])
        ctx.violation(key, f"{what} [{len(lst)} script(s), first: {src}]", rep)
        if key not in known:
            save_corpus(rep)
    ctx.cov["failure_classes"] = {k: len(v) for k, v in by_key.items()}
    import time as _t
    ctx.cov["python_cpu_seconds"] = round(_t.process_time(), 1)
    ctx.cov["rule"] = ("one evaluated case = one script whose scheme is generated, compared item by item with the AST's assignments, whose "
                       "definitions and full expressions are re-parsed and compared as ASTs (+ run(scheme) vs run(script) where data exists); "
                       "distinct = script path / generated index")
    ctx.trusted.append("the parser stand-in (Java ANTLR interpreter of the repo's serialized ATN); pysdmx generate_vtl_script / model validation "
                       "are exercised through run(), not modelled beyond the order rulesets, operators, transformations")
    ctx.assumptions.append("expression and definition TEXTS are compared by re-parsing with the real grammar (correspondence only, no model of ASTString)")


def replay(ctx, obj):
    import engine
    engine.install(need_parser=True)
    script = obj.get("script")
    if obj.get("path"):
        script = G.read_script(Path(obj["path"]))
    if not script:
        print("replay names a broken obligation only:", obj.get("what"))
        return 1
    r = check_structure(script, P24.reserved_words())
    print("script:", script[:400])
    bad = list((r or {}).get("problems", []))
    if r and r["eng"]:
        print("transformations:", [(t[0], t[1], t[2], t[3][:60]) for t in r["eng"][0]], "rulesets:", [x[:3] for x in r["eng"][1]], "operators:", [x[:2] for x in r["eng"][2]])
    if r and r["ts"] is not None and r["eng"][0] and obj.get("structs") and obj.get("data"):
        import pandas as pd
        data = {k: pd.DataFrame({c: pd.Series(v, dtype="object") for c, v in d.items()}) for k, d in obj["data"].items()}
        same, why, _ = run_equal_scheme(script, r["ts"], obj["structs"], data)
        if not same:
            bad.append(("run", why))
    print("expected: one transformation per assignment, definitions kept and re-parseable, same results; observed:", bad if bad else "HOLDS")
    return 1 if bad else 0
