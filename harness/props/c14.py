"""C14 — writing results to an output folder preserves them exactly.

Proof: Props/C14.v (csv_roundtrip for ALL tables, scalar_file_exact + refutation).
Tie K (real engine): generated scripts/data and test-suite scripts with data are run three times — in memory, with an output
folder as CSV, with an output folder as Parquet — for both return_only_persistent settings.  The CSV bytes are decoded BY THE
COQ DECODER (Codec.decode_csv_N, vm_compute) and compared with the in-memory result; the Coq ENCODER applied to the decoded
table must give back the very bytes DuckDB wrote (the writer model is the writer); `_scalars.csv` must equal the model's
scalars_file of the returned scalars byte for byte.  Parquet is read back with pandas/pyarrow (partial: no Parquet codec model).
"""
from __future__ import annotations

import json
import math
import os
import shutil
import tempfile
import time
from decimal import Decimal
from fractions import Fraction
from pathlib import Path
from typing import Any, Dict, List, Optional, Tuple

import scriptgen_codec as G
from common import CORPUS, coq_eval

K_SCALAR_NULL_EMPTY = "scalars-file:empty-string-indistinguishable-from-null"
K_SCALAR_DATE_TIME = "output-folder:date-scalar-with-time:returned-format-differs-from-in-memory-run"
K_NUMBER_ULP = "output-folder:number:in-memory-float-one-ulp-off-the-decimal-written"


# ------------------------------------------------------------------------------------------------ engine side
def _is_null(v) -> bool:
    import pandas as pd
    if v is None:
        return True
    try:
        if v is pd.NA or v is pd.NaT:
            return True
    except Exception:
        pass
    return isinstance(v, float) and math.isnan(v)


def run_engine(case, rop: bool, folder: Optional[str] = None, fmt: str = "csv"):
    import engine
    engine.install(need_parser=True)
    import copy
    import vtlengine
    kw = dict(return_only_persistent=rop)
    if folder is not None:
        kw.update(output_folder=folder, output_format=fmt)
    if case.get("value_domains"):
        kw["value_domains"] = case["value_domains"]
    data = {k: (v.copy() if hasattr(v, "copy") else v) for k, v in case["data"].items()}
    try:
        return vtlengine.run(case["script"], copy.deepcopy(case["structs"]), data, **kw), None
    except Exception as e:  # noqa
        return None, e


def canon_mem_cell(v, typ: str):
    """canonical in-memory value: None | ('s', str) | ('q', Fraction, is_float) | ('b', bool)"""
    import numpy as np
    if _is_null(v):
        return None
    if typ in ("Integer", "Number"):
        if isinstance(v, (float, np.floating)):
            return ("q", Fraction(float(v)), True)    # float64 column (Number, or nullable BIGINT fetched as float64)
        if isinstance(v, Decimal):
            return ("q", Fraction(v), False)
        return ("q", Fraction(int(v)), False)
    if typ == "Boolean":
        return ("b", bool(v))
    return ("s", str(v))


def canon_text_cell(b: Optional[bytes], typ: str, mem_float: bool):
    """canonical value of a CSV cell given the column's VTL type; numbers as the exact rational of the text, or of the float64
    nearest to it when the in-memory column is float64"""
    if b is None:
        return None
    t = b.decode("utf-8")
    if typ in ("Integer", "Number"):
        try:
            d = Decimal(t)
        except Exception:
            return ("?", t)
        return ("q", Fraction(float(d)), True) if mem_float else ("q", Fraction(d), False)
    if typ == "Boolean":
        if t not in ("true", "false"):
            return ("?", t)
        return ("b", t == "true")
    return ("s", t)


def canon_pq_cell(v, typ: str, mem_float: bool):
    if _is_null(v):
        return None
    if typ in ("Integer", "Number"):
        if isinstance(v, float):
            return ("q", Fraction(v), True)
        f = Fraction(v) if isinstance(v, (Decimal, int)) else Fraction(str(v))
        return ("q", Fraction(float(f)), True) if mem_float else ("q", f, False)
    if typ == "Boolean":
        return ("b", bool(v))
    return ("s", str(v))


def ulp_close(a, b) -> bool:
    """two numeric cells whose float64 values are at most one ulp apart"""
    if not (isinstance(a, tuple) and isinstance(b, tuple) and a[0] == "q" and b[0] == "q"):
        return False
    x, y = float(a[1]), float(b[1])
    return x == y or abs(x - y) <= math.ulp(max(abs(x), abs(y)))


def sort_rows(rows):
    return sorted(rows, key=lambda r: tuple((x is None, (x[0], float(x[1])) if x is not None and x[0] == 'q' else (str(x[0]), 0.0) if x is not None else ('', 0.0), repr(x)) for x in r))


def mem_table(ds) -> Tuple[List[str], List[str], List[tuple]]:
    cols = list(ds.data.columns)
    types = [ds.components[c].data_type.__name__ if c in ds.components else "String" for c in cols]
    types = [{"TimePeriod": "Time_Period", "TimeInterval": "Time"}.get(t, t) for t in types]
    rows = [tuple(canon_mem_cell(v, t) for v, t in zip(rec, types)) for rec in ds.data.itertuples(index=False, name=None)]
    return cols, types, rows


def scalar_text(v) -> Optional[str]:
    return None if v is None else str(v)


# ------------------------------------------------------------------------------------------------ one case, all runs
def evaluate_case(case, rop: bool, tmp: Path):
    """runs the three variants and returns a record with everything needed for the Coq evaluation and the comparison"""
    from vtlengine.Model import Dataset, Scalar
    rec: Dict[str, Any] = {"rop": rop, "problems": [], "files": {}, "scalars_file": None}
    mem, err = run_engine(case, rop)
    if err is not None:
        rec["skip"] = f"{type(err).__name__}: {str(err)[:120]}"
        return rec
    rec["mem"] = mem
    for fmt in ("csv", "parquet"):
        d = tmp / f"{fmt}_{int(rop)}"
        if d.exists():
            shutil.rmtree(d)
        d.mkdir(parents=True)
        res, err = run_engine(case, rop, str(d), fmt)
        if err is not None:
            rec["problems"].append(("run-with-folder-raises", f"{fmt}: in-memory run succeeds but run(output_folder) raises {type(err).__name__}: {str(err)[:200]}"))
            continue
        rec[fmt] = res
        names_mem, names_f = sorted(mem), sorted(res)
        if names_mem != names_f:
            rec["problems"].append(("returned-names-differ", f"{fmt}: returned {names_f} vs in-memory {names_mem}"))
        expected_files = sorted([f"{k}.{fmt}" for k, v in res.items() if isinstance(v, Dataset)] +
                                (["_scalars.csv"] if any(isinstance(v, Scalar) for v in res.values()) else []))
        got_files = sorted(os.listdir(d))
        if expected_files != got_files:
            rec["problems"].append(("file-set", f"{fmt}: files {got_files}, expected one per returned dataset {expected_files}"))
        for k, v in res.items():
            if isinstance(v, Dataset) and v.data is not None:
                rec["problems"].append(("data-not-none", f"{fmt}: returned dataset {k} carries in-memory data"))
        rec["files"][fmt] = {f: (d / f).read_bytes() for f in got_files if not f.endswith(".parquet")}
        if fmt == "parquet":
            import pyarrow.parquet as pq
            rec["pq"] = {}
            for f in got_files:
                if f.endswith(".parquet"):
                    tb = pq.read_table(d / f)
                    rec["pq"][f[:-8]] = (list(tb.column_names),
                                         list(zip(*[tb.column(c).to_pylist() for c in tb.column_names])) if tb.num_columns else [])
        shutil.rmtree(d, ignore_errors=True)
    return rec


def compare_dataset(name, ds_mem, header: List[bytes], rows, what: str, cell_fn) -> Optional[Tuple[str, str]]:
    """None when equal, else (kind, message); kind 'ulp' = only Number cells differ, each by at most one float64 ulp"""
    cols, types, mrows = mem_table(ds_mem)
    hdr = [h.decode("utf-8") if isinstance(h, bytes) else h for h in header]
    if hdr != cols:
        return ("content", f"{what} {name}: columns {hdr} vs in-memory {cols}")
    if any(len(r) != len(cols) for r in rows):
        return ("content", f"{what} {name}: a row has {set(len(r) for r in rows)} cells for {len(cols)} columns")
    isf = [any(c is not None and c[0] == "q" and c[2] for c in (r[i] for r in mrows)) for i in range(len(cols))]
    frows = [tuple(cell_fn(c, t, k) for c, t, k in zip(r, types, isf)) for r in rows]
    a, b = sort_rows(frows), sort_rows(mrows)
    if a != b:
        only_f = [r for r in a if r not in b]
        only_m = [r for r in b if r not in a]
        if len(only_f) == len(only_m) and all(all(x == y or ulp_close(x, y) for x, y in zip(rf, rm)) for rf, rm in zip(only_f, only_m)):
            cell = next(((x, y) for rf, rm in zip(only_f, only_m) for x, y in zip(rf, rm) if x != y), None)
            return ("ulp", f"{what} {name}: a Number cell is {float(cell[0][1])!r} in the file but {float(cell[1][1])!r} in memory (one ulp apart)")
        return ("content", f"{what} {name}: rows differ; only in file {only_f[:2]}; only in memory {only_m[:2]}")
    return None


def balanced_eval(exprs, sizes, tag):
    """coq_eval with the expressions dealt over <= 16 shards of similar total size (results returned in the original order)"""
    n = len(exprs)
    if n == 0:
        return []
    k = max(1, min(16, n, sum(sizes) // 3000 + 1))      # few processes for little data: coqc start-up dominates
    order = sorted(range(n), key=lambda i: -sizes[i])
    bins = [[] for _ in range(k)]
    for j, i in enumerate(order):
        r, q = divmod(j, k)
        bins[q if r % 2 == 0 else k - 1 - q].append(i)
    shard = max(len(b) for b in bins)
    perm, padded = [], []
    for b in bins:
        for i in b:
            perm.append(i)
            padded.append(exprs[i])
        for _ in range(shard - len(b)):          # pad with a repeat of a small expression so that shards align with bins
            perm.append(None)
            padded.append(exprs[order[-1]])
    res = coq_eval(G.HEADER, padded, tag, shard=shard)
    out = [None] * n
    for i, v in zip(perm, res):
        if i is not None:
            out[i] = v
    return out


def check_records(ctx, cases_recs, tag: str):
    """Coq-decodes every CSV of every record, compares, reports.  cases_recs: [(case, rec)]"""
    from vtlengine.Model import Dataset, Scalar
    import pandas as pd
    blobs: List[bytes] = []          # distinct file contents (the two rop settings / formats often write identical files)
    blob_id: Dict[bytes, int] = {}
    index = []
    for ci, (case, rec) in enumerate(cases_recs):
        for fmt, files in rec.get("files", {}).items():
            for fn, b in files.items():
                if b not in blob_id:
                    blob_id[b] = len(blobs)
                    blobs.append(b)
                index.append((ci, fmt, fn, blob_id[b]))
    t0 = time.time()
    decoded = balanced_eval([f"decode_csv_N {G.coq_bytes(b)}" for b in blobs], [len(b) for b in blobs], f"c14_{tag}_dec")
    tables = [G.py_table(v) for v in decoded]
    # the writer model is the writer: encode(decode(bytes)) = bytes, for the DuckDB-written files
    ds_idx = sorted({i for (ci, fmt, fn, i) in index if fn != "_scalars.csv" and tables[i] is not None})
    reenc = balanced_eval([f"encode_csv_N {G.coq_table(tables[i])}" for i in ds_idx], [len(blobs[i]) for i in ds_idx], f"c14_{tag}_enc")
    n_bytes_equal = 0
    for i, v in zip(ds_idx, reenc):
        same = G.py_bytes(v) == blobs[i]
        n_bytes_equal += same
        if not same:
            ctx.oblige(f"K: encode_csv model reproduces the bytes DuckDB wrote ({tag} #{i})", False,
                       f"file {blobs[i][:200]!r} vs model {G.py_bytes(v)[:200]!r}")
    ctx.cov["csv_files_model_bytes_equal"] = ctx.cov.get("csv_files_model_bytes_equal", 0) + n_bytes_equal
    # scalars: model bytes
    sc_exprs, sc_idx, seen_sc = [], [], set()
    for (ci, fmt, fn, i) in index:
        if fn == "_scalars.csv":
            rec = cases_recs[ci][1]
            res = rec[fmt]
            l = [(k, scalar_text(v.value)) for k, v in res.items() if isinstance(v, Scalar)]
            e = "scalars_file_N " + "[" + "; ".join(
                f"({G.coq_bytes(k.encode())}, {'None' if t is None else '(Some ' + G.coq_bytes(t.encode()) + ')'})" for k, t in l) + "]"
            if (e, i) in seen_sc:
                continue
            seen_sc.add((e, i))
            sc_exprs.append(e)
            sc_idx.append(i)
    sc_model = balanced_eval(sc_exprs, [len(e) for e in sc_exprs], f"c14_{tag}_sc")
    ctx.cov["coq_seconds"] = round(ctx.cov.get("coq_seconds", 0) + time.time() - t0, 1)
    ctx.cov["csv_bytes_decoded_by_coq"] = ctx.cov.get("csv_bytes_decoded_by_coq", 0) + sum(len(b) for b in blobs)
    for i, v in zip(sc_idx, sc_model):
        same = G.py_bytes(v) == blobs[i]
        if not same:
            ctx.oblige(f"K: scalars_file model = bytes written by save_scalars_duckdb ({tag} #{i})", False,
                       f"file {blobs[i][:200]!r} vs model {G.py_bytes(v)[:200]!r}")
    ctx.cov["scalar_files_model_bytes_equal"] = ctx.cov.get("scalar_files_model_bytes_equal", 0) + \
        sum(1 for i, v in zip(sc_idx, sc_model) if G.py_bytes(v) == blobs[i])

    by_case: Dict[int, Dict[Tuple[str, str], int]] = {}
    for (ci, fmt, fn, i) in index:
        by_case.setdefault(ci, {})[(fmt, fn)] = i
    n_viol = 0
    for ci, (case, rec) in enumerate(cases_recs):
        if "skip" in rec:
            continue
        mem = rec["mem"]
        problems = list(rec["problems"])
        for fmt in ("csv", "parquet"):
            if fmt not in rec:
                continue
            res = rec[fmt]
            for name, v in mem.items():
                if isinstance(v, Dataset):
                    ctx.count((tag, ci, rec["rop"], fmt, name))
                    if fmt == "csv":
                        i = by_case.get(ci, {}).get(("csv", f"{name}.csv"))
                        if i is None:
                            problems.append(("file-missing", f"csv: no file for dataset {name}"))
                            continue
                        t = tables[i]
                        if t is None or not t:
                            problems.append(("csv-not-decodable", f"{name}.csv is not decodable by the reader: {blobs[i][:120]!r}"))
                            continue
                        msg = compare_dataset(name, v, [c if c is not None else b"" for c in t[0]], t[1:], "csv", canon_text_cell)
                        if msg:
                            problems.append((K_NUMBER_ULP if msg[0] == "ulp" else "csv-content", msg[1]))
                    else:
                        if name not in rec.get("pq", {}):
                            problems.append(("file-missing", f"parquet: no file for dataset {name}"))
                            continue
                        pcols, prow = rec["pq"][name]
                        msg = compare_dataset(name, v, pcols, prow, "parquet", canon_pq_cell)
                        if msg:
                            problems.append((K_NUMBER_ULP if msg[0] == "ulp" else "parquet-content", msg[1]))
            # scalars
            scal_f = {k: v for k, v in res.items() if isinstance(v, Scalar)}
            scal_m = {k: v for k, v in mem.items() if isinstance(v, Scalar)}
            if scal_f:
                i = by_case.get(ci, {}).get((fmt, "_scalars.csv"))
                if i is None:
                    problems.append(("file-missing", f"{fmt}: no _scalars.csv for scalars {sorted(scal_f)}"))
                else:
                    t = tables[i]
                    exact = [[b"name", b"value"]] + [[k.encode(), None if scal_f[k].value is None else str(scal_f[k].value).encode()]
                                                     for k in sorted(scal_f)]
                    readable = [[b"name", b"value"]] + [[k.encode(), (str(scal_f[k].value).encode() or None) if scal_f[k].value is not None else None]
                                                        for k in sorted(scal_f)]
                    ctx.count((tag, ci, rec["rop"], fmt, "_scalars"))
                    if t != readable:
                        problems.append(("scalars-content", f"{fmt}: _scalars.csv decodes to {t} but the run returned {exact}"))
                    elif t != exact:
                        empties = [k for k in scal_f if scal_f[k].value == ""]
                        problems.append((K_SCALAR_NULL_EMPTY, f"_scalars.csv writes the empty-string scalar(s) {empties} as an empty field, "
                                         f"exactly as it writes a null scalar: file {blobs[i]!r}, returned {[(k, scal_f[k].value) for k in sorted(scal_f)]}"))
            for k in scal_m:
                if k in scal_f:
                    a, b = scal_m[k].value, scal_f[k].value
                    same = (_is_null(a) and _is_null(b)) or (type(a) == type(b) and a == b) or \
                           (isinstance(a, (int, float)) and isinstance(b, (int, float)) and not isinstance(a, bool) and float(a) == float(b))
                    if not same:
                        key = K_SCALAR_DATE_TIME if scal_m[k].data_type.__name__ == "Date" else "output-folder:scalar-value-differs"
                        problems.append((key, f"{fmt}: scalar {k} is {b!r} when an output folder is given but {a!r} without"))
        seen = set()
        for key, msg in problems:
            if key in seen:
                continue
            seen.add(key)
            n_viol += 1
            stable = key if key.startswith(("scalars-file:", "output-folder:")) else f"output-folder:{key}"
            reported = ctx.cov.setdefault("problem_keys_seen", {})
            reported[stable] = reported.get(stable, 0) + 1
            if reported[stable] > 3:
                continue            # the first three inputs of a key are reported (and kept in the corpus); the rest are counted
            ctx.violation(stable, msg, replay_obj(case, rec["rop"], stable))
            if stable not in (K_SCALAR_NULL_EMPTY, K_SCALAR_DATE_TIME, K_NUMBER_ULP):
                save_corpus(case, rec["rop"], stable)
    return n_viol


def replay_obj(case, rop, key):
    return {"script": case["script"], "structs": case["structs"], "rop": rop, "key": key,
            "data": {k: (v.astype(object).where(v.notna(), None).to_dict("list") if hasattr(v, "to_dict") else str(v))
                     for k, v in case["data"].items()},
            "value_domains": [str(x) for x in case.get("value_domains") or []] or None}


def case_from_obj(obj):
    import pandas as pd
    data = {}
    for k, v in obj["data"].items():
        data[k] = Path(v) if isinstance(v, str) else pd.DataFrame({c: pd.Series(vals, dtype="object") for c, vals in v.items()})
    return {"script": obj["script"], "structs": obj["structs"], "data": data,
            "value_domains": [Path(x) for x in obj["value_domains"]] if obj.get("value_domains") else None}


def save_corpus(case, rop, key):
    import hashlib
    d = CORPUS / "C14"
    d.mkdir(parents=True, exist_ok=True)
    obj = replay_obj(case, rop, key)
    h = hashlib.sha1(json.dumps(obj, sort_keys=True, default=str).encode()).hexdigest()[:10]
    (d / f"{h}.json").write_text(json.dumps(obj, indent=1, default=str))


# ------------------------------------------------------------------------------------------------ writer rule on DuckDB itself
def duckdb_writer_rule(ctx):
    """X: the quoting rule of Codec.needs_quote_duck against DuckDB's COPY on every code point 1..0x2FF alone / leading / trailing /
    in the middle, plus NULL / empty string / header quoting; decoded by the Coq reader."""
    import duckdb
    import pandas as pd
    vals = [chr(i) for i in range(1, 0x300)] + ["a" + chr(i) for i in range(1, 128)] + [chr(i) + "a" for i in range(1, 128)] + \
           ["a" + chr(i) + "b" for i in range(1, 128)] + ["", " ", "  a  ", '""', "a\r\nb", "#", "x,y\"z\n#"]
    con = duckdb.connect()
    df = pd.DataFrame({"i": range(len(vals)), "s": vals, "n": [None] * len(vals)})  # noqa: F841
    con.register("t", df)
    d = tempfile.mkdtemp(prefix="c14w_")
    try:
        con.execute(f"COPY (SELECT s AS \"a,b\", CAST(n AS VARCHAR) AS \"q\"\"q\", s AS \" c#\" FROM t ORDER BY i) TO '{d}/x.csv' WITH (HEADER true, DELIMITER ',')")
        raw = Path(d, "x.csv").read_bytes()
    finally:
        con.close()
        shutil.rmtree(d, ignore_errors=True)
    want = [[b"a,b", b'q"q', b" c#"]] + [[v.encode(), None, v.encode()] for v in vals]
    got = coq_eval(G.HEADER, [f"decode_csv_N {G.coq_bytes(raw)}"], "c14_rule_dec")[0]
    t = G.py_table(got)
    ok_dec = t == want
    ctx.oblige("X: Coq reader recovers DuckDB's file for every code point 1..0x2FF in 4 positions, NULL, '' and quoted header names", ok_dec,
               "" if ok_dec else f"first differing row: {next(((a, b) for a, b in zip(t or [], want) if a != b), None)}")
    enc = coq_eval(G.HEADER, [f"encode_csv_N {G.coq_table(want)}"], "c14_rule_enc")[0]
    ok_enc = G.py_bytes(enc) == raw
    if not ok_enc:
        mb = G.py_bytes(enc)
        pos = next((i for i, (x, y) in enumerate(zip(mb, raw)) if x != y), min(len(mb), len(raw)))
        ctx.oblige("X: Codec.encode_csv = DuckDB COPY bytes on the quoting-rule table", False, f"first difference at byte {pos}: model {mb[pos-10:pos+10]!r} duckdb {raw[pos-10:pos+10]!r}")
    else:
        ctx.oblige("X: Codec.encode_csv = DuckDB COPY bytes on the quoting-rule table (every code point 1..0x2FF x 4 positions)", True)
    for v in vals:
        ctx.count(("rule", v))
    ctx.cov["writer_rule_strings"] = len(vals)


# ------------------------------------------------------------------------------------------------ run / replay
def suite_cases(ctx, n):
    paths = G.stratified_corpus()       # fixed order (seed-independent)
    out = []
    for p in paths:
        c = G.suite_case(p)
        if c is None or not c["data"]:
            continue
        if sum(Path(f).stat().st_size for f in c["data"].values()) > (6000 if ctx.tier == "quick" else 60000):
            continue
        out.append(c)
        if len(out) >= n:
            break
    return out


def directed_cases():
    import pandas as pd
    import engine
    structs = engine.structures(engine.ds_struct("DS_1", [("Id_1", "Integer", "Identifier", False), ("Me_1", "String", "Measure", True),
                                                          ("Me_2", "Number", "Measure", True)]))
    df = pd.DataFrame({"Id_1": pd.Series([1, 2, 3], dtype="object"), "Me_1": pd.Series(["a,b", None, ""], dtype="object"),
                       "Me_2": pd.Series([0.5, None, 1234.5678], dtype="object")})
    scripts = [
        "'DS.r' <- DS_1;\n'DS.q' <- DS_1[filter Id_1 > 1];\n'DS' <- DS_1[keep Me_1];\n'sc.x' <- 1;\n'sc.y' <- \"a,b\";\n",
        "'a.b.c' <- DS_1;\n'a.b.d' := DS_1[keep Me_2];\n'a.b' <- DS_1[filter Id_1 > 5];\n'out.csv' <- DS_1;\n'out.parquet' <- DS_1[keep Me_1];\n",
        "'my result' <- DS_1;\n'sum' <- DS_1[keep Me_2];\n'1st' := DS_1;\n'résultat.é' <- DS_1;\n'trail.' <- DS_1;\n'.hidden' <- DS_1;\n'sc x' <- 2.5;\n'value' <- true;\n",
    ]
    return [{"script": s_, "structs": structs, "data": {"DS_1": df}} for s_ in scripts]


def run(ctx):
    import engine
    engine.install(need_parser=True)
    ctx.prove("C14")
    duckdb_writer_rule(ctx)
    n_gen = 22 if ctx.tier == "quick" else 600
    n_suite = 10 if ctx.tier == "quick" else 250
    tmp = Path(tempfile.mkdtemp(prefix="c14_"))
    hist: Dict[str, int] = {}
    t_engine = 0.0
    try:
        recs = []           # (case, rec) of every stream; Coq is invoked once per chunk of 400 cases
        chunk_no = [0]

        def flush(force=False):
            if recs and (force or len(recs) >= 800):
                check_records(ctx, list(recs), f"k{chunk_no[0]}")
                chunk_no[0] += 1
                recs.clear()

        # 1. corpus of past failures first
        past = 0
        if (CORPUS / "C14").exists():
            for f in sorted((CORPUS / "C14").glob("*.json")):
                obj = json.loads(f.read_text())
                case = case_from_obj(obj)
                recs.append((case, evaluate_case(case, obj["rop"], tmp / f"p{past}")))
                past += 1
        ctx.cov["corpus_past_failures"] = past
        # 2. directed (result / scalar names that need quotes: they become file names), then generated
        directed = directed_cases()
        skipped = 0
        for i in range(-len(directed), n_gen):
            case = directed[i] if i < 0 else G.gen_data_case(ctx.rng)
            hist["quoted-result-names"] = hist.get("quoted-result-names", 0) + case["script"].count("'") // 2
            for t in set(c["type"] for c in case["structs"]["datasets"][0]["DataStructure"]):
                hist[t] = hist.get(t, 0) + 1
            hist["rows=%d" % len(case["data"]["DS_1"])] = hist.get("rows=%d" % len(case["data"]["DS_1"]), 0) + 1
            for rop in (True, False):
                t0 = time.time()
                rec = evaluate_case(case, rop, tmp / f"g{i}_{int(rop)}")
                t_engine += time.time() - t0
                if "skip" in rec:
                    skipped += 1
                    if skipped <= 3:
                        ctx.log("generated case fails in memory:", rec["skip"], "| script:", case["script"][:120].replace("\n", " "))
                    continue
                recs.append((case, rec))
            if 0 <= i < 3:
                ctx.sample({"script": case["script"], "rows": case["data"]["DS_1"].head(3).to_dict("list")})
            flush()
        ctx.cov["generated_cases"] = n_gen
        ctx.cov["directed_cases"] = len(directed)
        ctx.cov["generated_skipped_engine_error"] = skipped
        ctx.oblige("generator: at most 20% of the generated cases fail on the plain in-memory run", skipped <= 0.2 * 2 * n_gen,
                   f"{skipped} of {2 * (n_gen + len(directed))} runs raised")
        # 3. test-suite scripts with data
        sc = suite_cases(ctx, n_suite)
        n_ok = n_skip = 0
        for i, case in enumerate(sc):
            for rop in (True, False):
                t0 = time.time()
                rec = evaluate_case(case, rop, tmp / f"s{i}_{int(rop)}")
                t_engine += time.time() - t0
                if "skip" in rec:
                    n_skip += 1
                    continue
                n_ok += 1
                recs.append((case, rec))
            flush()
        flush(force=True)
        ctx.cov["suite_scripts_with_data"] = len(sc)
        ctx.cov["suite_runs_compared"] = n_ok
        ctx.cov["suite_runs_skipped_engine_error"] = n_skip
    finally:
        shutil.rmtree(tmp, ignore_errors=True)
    ctx.cov["engine_seconds"] = round(t_engine, 1)
    ctx.cov["input_distribution"] = hist
    import time as _t
    ctx.cov["python_cpu_seconds"] = round(_t.process_time(), 1)
    ctx.cov["rule"] = ("one evaluated case = one returned dataset (or the scalar file) of one run variant (csv|parquet x return_only_persistent) "
                       "compared with the in-memory run of the same script/data; distinct = (case, variant, result name); plus every string of "
                       "the writer-rule table")
    ctx.trusted.append("DuckDB 1.5.5 COPY and Python csv.writer are only observed: their rules (Codec.v a/b) are re-checked on every run "
                       "(code points 1..0x2FF in four positions; every file written in this run re-encoded by the model byte for byte)")
    ctx.trusted.append("Parquet files are read back with pyarrow: no Parquet codec model (partial)")
    ctx.assumptions.append("Number cells are compared as the float64 the in-memory result holds (float(DECIMAL text) = in-memory float, exact "
                           "rationals); nullable BIGINT columns that pandas holds as float64 are compared at that precision")
    ctx.assumptions.append("bytes 0x00 are not generated (VTL strings cannot carry NUL through the DataFrame loader)")


def replay(ctx, obj):
    import engine
    engine.install(need_parser=True)
    if "script" not in obj:
        print("replay names a broken obligation only:", obj.get("what"))
        return 1
    case = case_from_obj(obj)
    tmp = Path(tempfile.mkdtemp(prefix="c14r_"))
    try:
        rec = evaluate_case(case, obj["rop"], tmp)
        if "skip" in rec:
            print("engine error on the in-memory run:", rec["skip"])
            return 1
        before = ctx.n_viol + len(ctx.known_hits)
        n = check_records(ctx, [(case, rec)], "replay")
        print("expected: files = in-memory result, scalar file = returned scalars; observed:", "AGREE" if n == 0 else f"{n} difference(s)")
        print(obj.get("what"))
        return 1 if n else 0
    finally:
        shutil.rmtree(tmp, ignore_errors=True)
