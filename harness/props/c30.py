"""C30 — numeric precision settings are applied and validated as documented.

Tie: T-conf (translate/config.py: constants + documented ranges + the complete table of the real set_decimal_config, proved
equal to Model.Config.set_decimal_config_spec — the documented function — inside Coq) and K through the real engine: every setting -5..45 of each of the
two variables (exhaustive), each in a FRESH subprocess and in sequence within ONE process (the decimal globals are sticky),
plus sampled joint settings; under each setting `DS_a <- DS_1 + DS_2; DS_s <- DS_1 - DS_2;` is run through vtlengine.run with
generated Number inputs (all configured digits, half-way rounding cases, values beyond the precision; DataFrame and CSV path)
and compared — outcome class, error code, exact decimal results — with the model evaluated by Coq (`binop_case`).

Every engine run happens in a subprocess (`--worker`): the harness process never touches the decimal globals."""
from __future__ import annotations

import json
import math
import os
import subprocess
import sys
import tempfile
from concurrent.futures import ThreadPoolExecutor
from fractions import Fraction
from pathlib import Path

WVAR, SVAR = "VTL_DUCKDB_DECIMAL_WIDTH", "OUTPUT_NUMBER_SIGNIFICANT_DIGITS"
LO, HI = -5, 45
ULP_TOL = 4  # |returned float - exact decimal| <= 4 ulp: "up to the conversion of returned values to floating point" (DuckDB DECIMAL->DOUBLE is not correctly rounded; 2.09 ulp observed in 27k thorough cases)


# ================================================================================================ worker (subprocess)
def _worker():
    import engine
    engine.install(need_parser=True)
    import pandas as pd
    from vtlengine.duckdb_transpiler.Config import config as C
    comps = [("Id_1", "Integer", "Identifier", False), ("Me_1", "Number", "Measure", True)]
    S = engine.structures(engine.ds_struct("DS_1", comps), engine.ds_struct("DS_2", comps))
    job = json.loads(sys.stdin.read())
    tmp = Path(tempfile.mkdtemp(prefix="c30_"))
    out = []

    def conv(x):
        return float(x[1]) if isinstance(x, list) and x[0] == "float" else x

    def raw_run(rows, ops, path):
        """as one_run but returns the float values exactly (hex)"""
        import vtlengine
        ids = [r[0] for r in rows]
        a = [conv(r[1]) for r in rows]
        b = [conv(r[2]) for r in rows]
        if path == "csv":
            dp = {}
            for name, col in (("DS_1", a), ("DS_2", b)):
                p = tmp / f"{name}.csv"
                p.write_text("Id_1,Me_1\n" + "".join(f"{i},{v}\n" for i, v in zip(ids, col)))
                dp[name] = p
        else:
            dp = {"DS_1": pd.DataFrame({"Id_1": ids, "Me_1": pd.Series(a, dtype=object)}),
                  "DS_2": pd.DataFrame({"Id_1": ids, "Me_1": pd.Series(b, dtype=object)})}
        names = {"+": "DS_a", "-": "DS_s"}
        script = " ".join(f"{names[o]} <- DS_1 {o} DS_2;" for o in ops)
        try:
            res = vtlengine.run(script, S, dp)
        except Exception as e:  # noqa
            kind, code = engine.classify_error(e)
            return {"ok": False, "err": [kind, code], "msg": str(e)[:300], "globals": [C.DECIMAL_WIDTH, C.DECIMAL_SCALE]}
        vals = {}
        for o in ops:
            df = res[names[o]].data
            vals[o] = {}
            for i, x in zip(df["Id_1"].tolist(), df["Me_1"].tolist()):
                vals[o][str(int(i))] = None if x is None or (isinstance(x, float) and math.isnan(x)) else float(x).hex()
        return {"ok": True, "vals": vals, "dtype": str(res[names[ops[0]]].data["Me_1"].dtype),
                "globals": [C.DECIMAL_WIDTH, C.DECIMAL_SCALE]}

    for step in job["steps"]:
        for var in (WVAR, SVAR):
            os.environ.pop(var, None)
        for k, v in step["env"].items():
            os.environ[k] = str(v)
        runs = []
        for r in step["runs"]:
            runs.append(raw_run(r["rows"], r["ops"], r.get("path", "df")))
        out.append({"runs": runs})
    import shutil
    shutil.rmtree(tmp, ignore_errors=True)
    print("C30WORKER" + json.dumps(out))


def spawn(steps, timeout=600):
    env = dict(os.environ)
    env.pop(WVAR, None)
    env.pop(SVAR, None)
    for attempt in (0, 1):  # one retry: /repo may be in the middle of a checkout by a concurrent job (ImportError at start-up)
        p = subprocess.run([sys.executable, "-u", os.path.abspath(__file__), "--worker"], input=json.dumps({"steps": steps}),
                           capture_output=True, text=True, timeout=timeout, env=env)
        for line in p.stdout.splitlines():
            if line.startswith("C30WORKER"):
                return json.loads(line[len("C30WORKER"):])
        if attempt == 0 and "ImportError" in p.stderr:
            import time
            time.sleep(10)
            continue
        break
    raise RuntimeError(f"C30 worker failed rc={p.returncode}: {p.stdout[-500:]} {p.stderr[-1500:]}")


# ================================================================================================ generation
def dstr(m: int, e: int) -> str:
    s = str(abs(m)).rjust(e + 1, "0")
    return ("-" if m < 0 else "") + (s[:-e] + "." + s[-e:] if e else s)


def gen_pairs(rng, w: int, s: int, n_random: int, lite: bool = False):
    """[(tag, (m1,e1), (m2,e2))] for an accepted DECIMAL(w,s).  lite: one pair of each kind, one rejected input."""
    P = []
    ten = 10
    full = ten ** w - 1
    sg = lambda x: 1 if x >= 0 else -1  # noqa: E731
    small = lambda: (rng.randint(-999, 999), rng.randint(0, min(s, 3)))  # noqa: E731
    # values needing all configured digits
    for sign in ((rng.choice((1, -1)),) if lite else (1, -1)):
        P.append(("full", (sign * (full - rng.randint(0, 9)), s), small()))
    if not lite:
        P.append(("full", (full - rng.randint(0, 10 ** min(w - 1, 6)), s), (-(full - rng.randint(0, 10 ** min(w - 1, 6))), s)))
        P.append(("full-sum", (full, s), (full, s)))
    # half-way cases at the last kept decimal, and their neighbours (few significant digits: float identification is exact)
    for _ in range(1 if lite else 4):
        k = rng.randint(0, 10 ** 6) * rng.choice((1, -1))
        j = rng.randint(0, 10 ** 6) * rng.choice((1, -1))
        P.append(("half", (k * 10 + 5 * sg(k), s + 1), (j * 10 + 5 * sg(j), s + 1)))
        P.append(("near-half", (k * 100 + 49 * sg(k), s + 2), (j * 100 + 51 * sg(j), s + 2)))
        if not lite:
            P.append(("half-long", (k * 10 ** 4 + 5000 * sg(k), s + 4), (j * 10 ** 6 + 499999 * sg(j), s + 6)))
    # beyond the precision: one more integer digit / rounds up into one more digit / just below that
    top = ten ** (w - s)
    one = (1, 0) if w > s else (1, 1)
    beyond = [("beyond", (top, 0), one), ("beyond", one, (-top * rng.randint(1, 9), 0)),
              ("beyond-round", (top * ten ** (s + 1) - 5, s + 1), (0, 0)), ("beyond-round", (0, 0), (-(top * ten ** (s + 1) - 5), s + 1))]
    if lite:
        P.append(rng.choice(beyond))
    else:
        P.append(beyond[rng.randint(0, 1)])
        P.append(beyond[rng.randint(2, 3)])
    P.append(("just-fits", (top * ten ** (s + 3) - 501, s + 3), (-(top * ten ** (s + 3) - 501), s + 3)))
    # random magnitudes and scales (inputs with up to w-s integer digits: accepted; the rejected ones are the `beyond` cases)
    for _ in range(n_random):
        def rv():
            e = rng.randint(0, s + 3)
            d = rng.randint(1, max(1, w - s + e))
            return (rng.choice((1, -1)) * rng.randint(10 ** (d - 1), 10 ** d - 1), e)
        P.append(("random", rv(), rv()))
    for _ in range(1 if lite else max(2, n_random // 3)):
        def sv():
            return (rng.randint(-10 ** 9, 10 ** 9) if w - s >= 9 else rng.randint(-10 ** (w - s) + 1, 10 ** (w - s) - 1), rng.randint(0, s))
        P.append(("short", sv(), sv()))
    P.append(("zero", (0, 0), (0, 3)))
    return P


def sci_pairs(rng, w: int, s: int, n: int, allow_float: bool):
    """operands in exponent notation: 1-3 mantissa digits (0-2 of them decimals), exponents from far below the scale up to
    small positive ones"""
    P = []
    for _ in range(n):
        as_float = allow_float and rng.random() < 0.5   # one form per pair: a column is either all floats or all text

        def sv():
            M = rng.choice((1, -1)) * rng.choice([rng.randint(1, 9), rng.randint(10, 99), rng.randint(100, 999), 5, 49, 51, 9])
            d = rng.randint(0, len(str(abs(M))) - 1) if rng.random() < 0.7 else 0
            x = rng.choice([-(s + rng.randint(1, 25)), -(s + 1), -s, -(s - 1), -(s + 2), -rng.randint(0, s), rng.randint(0, max(0, min(3, w - s - 4)))])
            if as_float:
                return float_lit(float(f"{dstr(M, d)}e{x}"))
            return ("sci", M, d, x, "text")
        P.append(("sci-float" if as_float else "sci", sv(), sv()))
    return P


def float_lit(v: float):
    """the literal DuckDB sees for a Python float of a DataFrame: its shortest repr (CAST(double AS VARCHAR))"""
    from decimal import Decimal
    r = repr(v)
    sign, digits, exp = Decimal(r).as_tuple()
    m = int("".join(map(str, digits))) * (-1 if sign else 1)
    if "e" in r:
        d = len(digits) - 1
        return ("sci", m, d, exp + d, "float")
    return ("plain", m * 10 ** exp, 0, "float") if exp >= 0 else ("plain", m, -exp, "float")


def lit_value(op) -> Fraction:
    if op[0] == "plain":
        return Fraction(op[1]) / Fraction(10) ** op[2]
    return Fraction(op[1]) * Fraction(10) ** (op[3] - op[2])


def lit_raw(op):
    """what is handed to the engine: decimal text, exponent-notation text, or a Python float"""
    if op[-1] == "float":
        return ["float", float(lit_value(op))]
    return dstr(op[1], op[2]) if op[0] == "plain" else f"{dstr(op[1], op[2])}e{op[3]}"


def lit_coq(op) -> str:
    from common import coq_z
    if op[0] == "plain":
        return f"(Plain {coq_z(op[1])} {coq_z(op[2])})"
    # a float of a DataFrame column (FSci) and text in exponent notation (Sci) take different paths in the engine
    return f"({'FSci' if op[-1] == 'float' else 'Sci'} {coq_z(op[1])} {coq_z(op[2])} {coq_z(op[3])})"


FLOATS = [1.5, -2.25, 0.1, 123456.789, -0.000125, 3.0, 0.5, 1e-4]


# ================================================================================================ model side (Coq)
def oz(v):
    from common import coq_z
    return "None" if v is None else f"(Some {coq_z(v)})"


HEADER = ("From Coq Require Import ZArith List. Import ListNotations.\n"
          "From VTL Require Import Model.Config Gen.Config Props.C30.\nOpen Scope Z_scope.\n")


def outcome_term(o):
    from common import coq_z
    if o == "RawBinder":
        return "RawBinder"
    if o[0] == "CfgRejected":
        return f"(CfgRejected {o[1]})"
    return f"(CfgOk {coq_z(o[1])} {coq_z(o[2])})"


def case_expr(sub, oterm, a, b, f="engine_load"):
    return f"binop_case_lit {f} {'true' if sub else 'false'} {oterm} {lit_coq(a)} {lit_coq(b)}"


# ================================================================================================ comparison
def classify_engine(run):
    """engine run -> ('CfgRejected', var) | 'RawBinder' | 'LoadReject' | 'Overflow' | ('Other', kind, code) | 'OK'"""
    if run["ok"]:
        return "OK"
    kind, code = run["err"]
    msg = run.get("msg", "")
    if kind == "Runtime" and code == "0-4-1-1":
        return ("CfgRejected", "VarScale" if SVAR in msg else "VarWidth" if WVAR in msg else "?")
    if kind == "RawDuckDB" and code == "BinderException" and "DECIMAL type" in msg:
        return "RawBinder"
    if kind == "DataLoad" and code == "0-3-1-6":
        return "LoadReject"
    if kind == "RawDuckDB" and code == "OutOfRangeException" and "Overflow" in msg:
        return "Overflow"
    if kind == "Runtime" and code == "2-1-1-1" and "Overflow" in msg:
        return "OverflowVTL"   # the DuckDB overflow surfaced as the catalogued VTL runtime error
    return ("Other", kind, code)


def float_close(hexv, v, s):
    """(ok, exact, ulps): returned float vs the exact decimal v / 10^s"""
    if hexv is None:
        return False, False, None
    r = float.fromhex(hexv)
    qf = v / 10 ** s if v else 0.0
    if r == qf:
        return True, True, 0.0
    q = Fraction(v, 10 ** s)
    ulps = float(min(abs(Fraction(r) - q) / Fraction(math.ulp(qf)), Fraction(10 ** 9)))
    return ulps <= ULP_TOL, False, ulps


# ================================================================================================ the check
class Plan:
    """One engine process: a list of steps (env + runs); the model outcome of every step and row."""

    def __init__(self, name, fresh):
        self.name, self.fresh = name, fresh
        self.steps = []  # {env, ew, es, pairs:[(tag,a,b)], path}


def run(ctx):
    import common
    from common import coq_eval, coq_list
    from translate import config as T

    d = T.emit()
    ctx.oblige("T-conf: constants, documented ranges and the function table of set_decimal_config extracted "
               f"({d['n_calls']} calls of the real function, {len(d['priors'])} prior states)", True)
    ctx.cov["table_rows_with_both_variables_set_stored_per_prior"] = len(d["rows_not_shared"])
    for g in d["priors"]:
        for key in d["full"][g]:
            ctx.count(("tab", g, key))
    doc = d["doc"]
    ctx.cov["constants"] = d["consts"]
    ctx.cov["documented_ranges"] = doc
    ok = ctx.prove("C30")
    if not ok:
        ctx.log("proof build failed; the K part still runs against the last built model if available")

    def in_doc(var, v):
        r = doc[var]
        return v is None or v == r["disable"] or r["lo"] <= v <= r["hi"]

    quick = ctx.tier == "quick"
    rng = ctx.rng
    n_random = 4 if quick else 20

    # ------------------------------------------------------------------ plans (corpus first)
    plans = []
    cdir = common.CORPUS / "C30"
    for f in sorted(cdir.glob("*.json")) if cdir.exists() else []:
        cj = json.loads(f.read_text())
        p = Plan("corpus:" + f.stem, False)
        p.steps = [{"ew": stp.get("ew"), "es": stp.get("es"), "path": stp.get("path", "df"),
                    "given": [(t, tuple(a), tuple(b)) for t, a, b in stp.get("pairs", [])]} for stp in cj["steps"]]
        plans.append(p)
    ctx.cov["corpus_plans"] = len(plans)
    joint = set()
    n_joint = 6 if quick else 600
    while len(joint) < n_joint:
        joint.add((rng.randint(LO, HI), rng.randint(LO, HI)))
    for cw, cs in [(6, 6), (38, 15), (-1, -1), (15, 15), (14, 15), (6, 10), (10, 10), (39, 6), (38, 16), (5, 5)]:
        joint.add((cw, cs))
    p = Plan("fresh:unset", True)
    p.steps = [{"ew": None, "es": None, "path": "df"}, {"ew": None, "es": None, "path": "csv"}]
    plans.append(p)
    if quick:
        # quick: every setting -5..45 of each variable still goes through run(), but several settings share one worker process
        # (16 processes, each setting followed by a run with the variables unset, which is where stickiness would show);
        # a fresh process of its own only for a few boundary settings.  thorough: a fresh process for every setting as well.
        for var, ks in (("w", (-1, 5, 6, 10, 38, 39, 45)), ("s", (-1, 5, 6, 15, 16))):
            for k in ks:
                p = Plan(f"fresh:{var}={k}", True)
                ew, es = (k, None) if var == "w" else (None, k)
                p.steps = [{"ew": ew, "es": es, "path": "df", "max_singles": 3}, {"ew": ew, "es": es, "path": "csv", "max_singles": 1}]
                plans.append(p)
        for var in ("w", "s"):
            ks = list(range(LO, HI + 1))
            rng.shuffle(ks)
            n_chunks = 8
            for ci_ in range(n_chunks):
                p = Plan(f"sequence:{var}:chunk{ci_}", False)
                for k in ks[ci_::n_chunks]:
                    ew, es = (k, None) if var == "w" else (None, k)
                    p.steps.append({"ew": ew, "es": es, "path": "df" if k % 2 else "csv", "rich": True, "max_singles": 2})
                    p.steps.append({"ew": None, "es": None, "path": "df", "max_singles": 0})
                plans.append(p)
        p = Plan("sequence:joint", False)
        for (jw, js) in sorted(joint):
            p.steps.append({"ew": jw, "es": js, "path": rng.choice(("df", "csv")), "max_singles": 1})
        plans.append(p)
    else:
        for var in ("w", "s"):
            for k in range(LO, HI + 1):
                p = Plan(f"fresh:{var}={k}", True)
                ew, es = (k, None) if var == "w" else (None, k)
                p.steps = [{"ew": ew, "es": es, "path": "df", "max_singles": 8}, {"ew": ew, "es": es, "path": "csv", "max_singles": 4}]
                plans.append(p)
        for (jw, js) in sorted(joint):
            p = Plan(f"fresh:w={jw},s={js}", True)
            p.steps = [{"ew": jw, "es": js, "path": rng.choice(("df", "csv")), "max_singles": 6}]
            plans.append(p)
        for var in ("w", "s"):
            p = Plan(f"sequence:{var}", False)
            for k in range(LO, HI + 1):
                ew, es = (k, None) if var == "w" else (None, k)
                p.steps.append({"ew": ew, "es": es, "path": "df", "max_singles": 3})
                p.steps.append({"ew": None, "es": None, "path": "df", "max_singles": 1})
            plans.append(p)
    for i in range(1 if quick else 8):
        p = Plan(f"sequence:random{i}", False)
        for _ in range(30 if quick else 120):
            ew = rng.choice([None, None, rng.randint(LO, HI), rng.choice([6, 10, 20, 28, 38, -1, 39, 45, 5])])
            es = rng.choice([None, None, rng.randint(LO, HI), rng.choice([6, 10, 15, -1, 5, 16])])
            p.steps.append({"ew": ew, "es": es, "path": rng.choice(("df", "csv")), "max_singles": 1 if quick else 3})
        plans.append(p)

    if os.environ.get("VERIF_C30_EVERY"):   # development aid: keep the corpus and every n-th plan
        n_ = int(os.environ["VERIF_C30_EVERY"])
        plans = [p for i, p in enumerate(plans) if p.name.startswith("corpus:") or i % n_ == 0]
    # ------------------------------------------------------------------ model: configuration outcome of every step
    seq_exprs = [f"run_sequence engine_config D0 {coq_list([f'({oz(st['ew'])}, {oz(st['es'])})' for st in p.steps])}" for p in plans]
    outs = coq_eval(HEADER, seq_exprs, "c30seq", shard=60)
    st_exprs = [f"run_sequence_states engine_config D0 {coq_list([f'({oz(st['ew'])}, {oz(st['es'])})' for st in p.steps])}" for p in plans]
    states = coq_eval(HEADER, st_exprs, "c30st", shard=60)
    spec_outs = outs  # since the repair of set_decimal_config the tied model IS the documented function
    for p, o, s_, so in zip(plans, outs, states, spec_outs):
        for st, oo, ss, sso in zip(p.steps, o, s_, so):
            st["model"] = oo if isinstance(oo, tuple) else oo  # ('CfgOk', w, s) | ('CfgRejected', 'VarX') | 'RawBinder'
            st["model_state"] = list(ss)
            st["spec"] = sso

    # ------------------------------------------------------------------ cases per step, model outcome per case
    exprs, index, spec_exprs2, spec_index = [], [], [], []
    for pi, p in enumerate(plans):
        for si, st in enumerate(p.steps):
            m = st["model"]
            if isinstance(m, tuple) and m[0] == "CfgOk":
                w, s = m[1], m[2]
                lite = not st.get("rich", p.fresh and si == 0)
                if st.get("given"):
                    pairs = list(st["given"])
                    st["pairs"] = pairs
                    for ci, (tag, a, b) in enumerate(pairs):
                        for sub in (False, True):
                            exprs.append(case_expr(sub, outcome_term(m), a, b))
                            index.append((pi, si, ci, sub))
                            if a[0] == "sci" or b[0] == "sci":
                                spec_exprs2.append(case_expr(sub, outcome_term(m), a, b, "documented_load"))
                                spec_index.append((pi, si, ci, sub))
                    continue
                pairs = [(t, ("plain", a[0], a[1], "text"), ("plain", b[0], b[1], "text")) for t, a, b in gen_pairs(rng, w, s, 1 if lite else n_random, lite=lite)]
                pairs += sci_pairs(rng, w, s, 1 if lite else 4, allow_float=st["path"] == "df")
                if p.name == "fresh:unset":
                    zero = ("plain", 0, 0, "float" if st["path"] == "df" else "text")
                    for v in (5e-30, -7e-20, 9e-12, 4.9e-12, 6.5e-05):
                        fl = float_lit(v)
                        pairs.append(("sci-directed", fl if st["path"] == "df" else fl[:-1] + ("text",), zero))
                if st["path"] == "df" and not lite and p.fresh:
                    for _ in range(2):
                        pairs.append(("float", float_lit(rng.choice(FLOATS)), float_lit(rng.choice(FLOATS))))
            else:
                pairs = [("probe", ("plain", 15, 1, "text"), ("plain", 225, 2, "text"))]
            st["pairs"] = pairs
            for ci, (tag, a, b) in enumerate(pairs):
                for sub in (False, True):
                    exprs.append(case_expr(sub, outcome_term(m), a, b))
                    index.append((pi, si, ci, sub))
                    if a[0] == "sci" or b[0] == "sci":
                        spec_exprs2.append(case_expr(sub, outcome_term(m), a, b, "documented_load"))
                        spec_index.append((pi, si, ci, sub))
    ctx.log(f"K: {len(plans)} engine processes, {sum(len(p.steps) for p in plans)} run() configurations, {len(exprs)} model cases")
    vals = coq_eval(HEADER, exprs, "c30case", shard=500)
    model_case = {}
    for key, v in zip(index, vals):
        model_case[key] = v
    spec_case = dict(zip(spec_index, coq_eval(HEADER, spec_exprs2, "c30spec2", shard=500)))

    # ------------------------------------------------------------------ engine jobs
    def job_for(pi, p):
        steps = []
        for si, st in enumerate(p.steps):
            env = {}
            if st["ew"] is not None:
                env[WVAR] = st["ew"]
            if st["es"] is not None:
                env[SVAR] = st["es"]
            batch, fbatch, singles = [], [], []
            for ci, (tag, a, b) in enumerate(st["pairs"]):
                ra, rb = lit_raw(a), lit_raw(b)
                ma, ms = model_case[(pi, si, ci, False)], model_case[(pi, si, ci, True)]
                fine = lambda x: isinstance(x, tuple) and x[0] == "OValue"  # noqa: E731
                if fine(ma) and fine(ms):
                    isf = isinstance(ra, list), isinstance(rb, list)
                    if isf[0] != isf[1]:
                        raise RuntimeError(f"generator bug: a pair mixes a float and a text operand: {a} {b}")
                    (fbatch if isf[0] else batch).append((ci, ra, rb))
                else:
                    ops = []
                    # an op whose model outcome is a value can share a run with nothing else that fails
                    if ma == ms or not (fine(ma) or fine(ms)):
                        singles.append({"rows": [(ci, ra, rb)], "ops": ["+", "-"], "path": st["path"], "ci": ci})
                    else:
                        singles.append({"rows": [(ci, ra, rb)], "ops": ["+"], "path": st["path"], "ci": ci})
                        singles.append({"rows": [(ci, ra, rb)], "ops": ["-"], "path": st["path"], "ci": ci})
            # volume control: every non-value outcome needs its own run(); keep a few per configuration
            cap = st.get("max_singles", 3)
            if not batch and not fbatch:
                cap = max(cap, 1)
            kept, seen_ci = [], []
            for sg_ in singles:
                if sg_["ci"] not in seen_ci:
                    if len(seen_ci) >= cap:
                        continue
                    seen_ci.append(sg_["ci"])
                kept.append(sg_)
            singles = kept
            runs = []
            for bt in (batch, fbatch):
                if bt:
                    runs.append({"rows": bt, "ops": ["+", "-"], "path": st["path"], "ci": None})
            runs += singles
            st["runs"] = runs
            steps.append({"env": env, "runs": [{k: v for k, v in r.items() if k != "ci"} for r in runs]})
        return steps

    jobs = [job_for(pi, p) for pi, p in enumerate(plans)]
    with ThreadPoolExecutor(max_workers=common.NCPU) as ex:
        results = list(ex.map(lambda j: spawn(j, timeout=900), jobs))
    transient = ("AttributeError", "ImportError", "ModuleNotFoundError", "SyntaxError", "NameError", "IndentationError")
    redone = 0
    for i, res in enumerate(results):
        if any((not er["ok"]) and er["err"][0] == "RawPython" and er["err"][1] in transient for sres in res for er in sres["runs"]):
            results[i] = spawn(jobs[i], timeout=900)   # /repo was being rewritten by a concurrent job while the worker imported it
            redone += 1
    ctx.cov["plans_rerun_after_import_level_error"] = redone
    ctx.log(f"K: engine runs done ({redone} plans re-run after an import-level error)")

    # ------------------------------------------------------------------ compare
    mismatches = []
    findings = {}
    hist = {"CfgOk": 0, "CfgRejected": 0, "RawBinder": 0}
    tags = {}
    n_exact = n_ulp = n_loadrej = n_over = 0
    max_ulps = 0.0
    fresh_outcome = {}
    n_silent = [0]

    def note(key, what, rep):
        """keeps one example per finding key: the first one, replaced by a later one only if that runs under the default environment"""
        simple = all(not stp["env"] for stp in rep.get("steps", [{"env": 1}]))
        if key not in findings or (simple and not findings[key][3]):
            findings[key] = [what, rep, findings[key][2] if key in findings else 0, simple]
        findings[key][2] += 1

    for pi, (p, res) in enumerate(zip(plans, results)):
        prev_env = None
        for si, (st, sres) in enumerate(zip(p.steps, res)):
            m = st["model"]
            mcls = m if isinstance(m, str) else m[0]
            hist[mcls] = hist.get(mcls, 0) + 1
            envd = {"width": st["ew"], "scale": st["es"]}
            step_classes = set()
            for r, er in zip(st["runs"], sres["runs"]):
                ecls = classify_engine(er)
                rows = r["rows"]
                # configuration-level expectation
                if mcls != "CfgOk":
                    want = ("CfgRejected", m[1]) if mcls == "CfgRejected" else "RawBinder"
                    ctx.count(("cfg", st["ew"], st["es"], tuple(st["model_state"]), mcls))
                    step_classes.add(ecls if isinstance(ecls, str) else ecls[0])
                    if ecls != want:
                        mismatches.append((p.name, si, envd, f"model {want}, engine {ecls} {er.get('msg', '')[:120]}"))
                    continue
                w, s = m[1], m[2]
                for (ci, ra, rb) in rows:
                    tag = st["pairs"][ci][0]
                    for op in r["ops"]:
                        sub = op == "-"
                        mc = model_case[(pi, si, ci, sub)]
                        tags[tag] = tags.get(tag, 0) + 1
                        ctx.count(("case", w, s, tag, str(ra), str(rb), op))
                        if isinstance(mc, tuple) and mc[0] == "OValue":
                            step_classes.add("OK")
                            if ecls != "OK":
                                mismatches.append((p.name, si, envd, f"{ra} {op} {rb}: model value {mc[2]}/10^{mc[1]}, engine {ecls} {er.get('msg', '')[:160]}"))
                                continue
                            okc, exact, ulps = float_close(er["vals"][op].get(str(ci)), mc[2], mc[1])
                            if exact:
                                n_exact += 1
                            elif okc:
                                n_ulp += 1
                                max_ulps = max(max_ulps, ulps)
                            sc = spec_case.get((pi, si, ci, sub))
                            if okc and sc is not None and sc != mc and isinstance(sc, tuple) and sc[0] == "OValue":
                                note("exponent-notation-text-mishandled",
                                     f"under DECIMAL({w},{s}) TEXT in exponent notation ({r['path']} path) is not stored rounded to {s} decimals: "
                                     f"{ra} {op} {rb} returns {float.fromhex(er['vals'][op][str(ci)])!r}, exact decimal arithmetic at scale {s} gives "
                                     f"{sc[2]}/10^{s} (DuckDB's VARCHAR->DECIMAL cast rounds on the leading mantissa digit when more digits are dropped "
                                     f"than the mantissa has; floating-point columns no longer take that path)",
                                     {"steps": [{"env": {k: v for k, v in ((WVAR, st['ew']), (SVAR, st['es'])) if v is not None},
                                                 "runs": [{"rows": [[ci, ra, rb]], "ops": [op], "path": r["path"]}]}],
                                      "expected": f"{sc[2]}/10^{s}", "observed": float.fromhex(er['vals'][op][str(ci)])})
                            if not okc or (abs(mc[2]) < 2 ** 53 and not exact):
                                mismatches.append((p.name, si, envd, f"{ra} {op} {rb} under DECIMAL({w},{s}): model {mc[2]}/10^{mc[1]}, engine "
                                                   f"{er['vals'][op].get(str(ci))} ({ulps} ulp)"))
                        elif mc == "OLoadReject":
                            n_loadrej += 1
                            step_classes.add("OK")
                            sc = spec_case.get((pi, si, ci, sub))
                            if ecls == "LoadReject" and isinstance(sc, tuple) and sc[0] == "OValue":
                                note("exponent-notation-text-mishandled",
                                     f"under DECIMAL({w},{s}) TEXT in exponent notation ({r['path']} path) that fits the precision is rejected: {ra} {op} {rb} raises "
                                     f"DataLoadError 0-3-1-6 ({er['msg'][-120:]}); exact decimal arithmetic at scale {s} gives {sc[2]}/10^{s} (DuckDB's "
                                     f"VARCHAR->DECIMAL cast demands that the mantissa alone fits w-s integer digits)",
                                     {"steps": [{"env": {k: v for k, v in ((WVAR, st['ew']), (SVAR, st['es'])) if v is not None},
                                                 "runs": [{"rows": [[ci, ra, rb]], "ops": [op], "path": r["path"]}]}],
                                      "expected": f"{sc[2]}/10^{s}", "observed": er["err"]})
                            if ecls != "LoadReject":
                                mismatches.append((p.name, si, envd, f"{ra} {op} {rb} under DECIMAL({w},{s}): model rejects the input, engine {ecls} "
                                                   f"{er.get('vals', er.get('msg'))}"))
                        elif mc == "OOverflow":
                            n_over += 1
                            step_classes.add("OK")
                            if ecls == "Overflow":
                                note("sum-overflow-raw-duckdb",
                                     f"under DECIMAL({w},{s}) ({WVAR}={st['ew']}, {SVAR}={st['es']}) {ra} {op} {rb}: both inputs are accepted, the exact result "
                                     f"needs {w + 1} digits; DuckDB does not widen the result type at widths 18 and 38 and run() lets a raw "
                                     f"duckdb.OutOfRangeException escape ({er['msg'][:90]}) instead of a result or a VTL error",
                                     {"steps": [{"env": {k: v for k, v in ((WVAR, st['ew']), (SVAR, st['es'])) if v is not None},
                                                 "runs": [{"rows": [[ci, ra, rb]], "ops": [op], "path": r["path"]}]}],
                                      "expected": "a VTL error (RunTimeError) or the exact sum", "observed": er["err"]})
                            elif ecls not in ("OK", "OverflowVTL"):
                                mismatches.append((p.name, si, envd, f"{ra} {op} {rb}: model overflow, engine {ecls} {er.get('msg', '')[:120]}"))
                            elif ecls == "OK":
                                mismatches.append((p.name, si, envd, f"{ra} {op} {rb}: model overflow, engine returned {er['vals']}"))
                        else:
                            mismatches.append((p.name, si, envd, f"unexpected model outcome {mc}"))
                # state of the module globals after the run
            for er in sres["runs"][-1:]:
                if er["globals"] != st["model_state"]:
                    mismatches.append((p.name, si, envd, f"module globals after the run {er['globals']}, model {st['model_state']}"))
            # ---------------- the property itself on the engine's behaviour (independent of the faithful model)
            # configuration-level class of the step: every run() of the step meets the same configuration
            ecl = None
            classes = [classify_engine(er) for er in sres["runs"]]
            for c_ in classes:
                if c_ == "RawBinder" or (isinstance(c_, tuple) and c_[0] in ("CfgRejected", "Other")):
                    ecl = c_
                    break
            if ecl is None and classes:
                ecl = "OK"
            key_env = (st["ew"], st["es"])
            documented = in_doc(WVAR, st["ew"]) and in_doc(SVAR, st["es"])
            if True:
                if p.fresh and si == 0:
                    fresh_outcome[key_env] = ecl if not (ecl in ("OK", "LoadReject", "Overflow", "OverflowVTL")) else "ACCEPTED"
                rep_steps = [{"env": {k: v for k, v in ((WVAR, st['ew']), (SVAR, st['es'])) if v is not None},
                              "runs": [{"rows": [[0, "1.5", "2.25"]], "ops": ["+"], "path": "df"}]}]
                if not documented and not (isinstance(ecl, tuple) and ecl[0] == "CfgRejected"):
                    kind = "width-above-38-raw-duckdb" if (st["ew"] or 0) > doc[WVAR]["hi"] and ecl == "RawBinder" else f"out-of-range-not-rejected:{ecl}"
                    note(kind, f"{WVAR}={st['ew']} {SVAR}={st['es']} is outside the documented ranges but run() does not raise the documented "
                               f"configuration error 0-4-1-1: {ecl} {sres['runs'][0].get('msg', '')[:110]}",
                         {"steps": rep_steps, "expected": "RunTimeError 0-4-1-1", "observed": str(ecl)})
                ew_eff = doc[WVAR]["default"] if st["ew"] is None else doc[WVAR]["disable_means"] if st["ew"] == doc[WVAR]["disable"] else st["ew"]
                es_eff = doc[SVAR]["default"] if st["es"] is None else doc[SVAR]["disable_means"] if st["es"] == doc[SVAR]["disable"] else st["es"]
                # a width below the scale cannot be a DECIMAL type: there the configuration error (naming the width) is the right answer
                if documented and ew_eff < es_eff and ecl == ("CfgRejected", "VarWidth"):
                    pass
                elif documented and (ecl == "RawBinder" or (isinstance(ecl, tuple) and ecl[0] in ("CfgRejected", "Other"))):
                    kind = "width-below-scale-raw-duckdb" if ew_eff < es_eff and ecl == "RawBinder" else f"documented-setting-fails:{ecl}"
                    note(kind, f"{WVAR}={st['ew']} {SVAR}={st['es']} are both inside their documented ranges (effective DECIMAL({ew_eff},{es_eff})) but "
                               f"run() fails with {ecl}: {sres['runs'][0].get('msg', '')[:110]} — neither the documented configuration error nor a result",
                         {"steps": rep_steps, "expected": "accepted, or RunTimeError 0-4-1-1", "observed": str(ecl)})
            st["engine_class"] = ecl if not (ecl in ("OK", "LoadReject", "Overflow", "OverflowVTL")) else "ACCEPTED"
            if si == 0:   # the first run() of any worker process is a run in a fresh process
                fresh_outcome.setdefault(key_env, st["engine_class"])
            if not p.fresh:
                sp = st["spec"]
                if (mcls == "CfgOk" and isinstance(sp, tuple) and sp[0] == "CfgOk" and tuple(sp[1:]) != tuple(m[1:]) and st["engine_class"] == "ACCEPTED"
                        and sres["runs"] and sres["runs"][-1]["globals"] == [m[1], m[2]] and not any(x[0] == p.name and x[1] == si for x in mismatches)):
                    n_silent[0] += 1
                    prev = p.steps[si - 1] if si else None
                    note("sticky-decimal-globals",
                         f"the precision used by run() depends on earlier runs in the process: with {WVAR}={st['ew']} {SVAR}={st['es']} the documentation gives "
                         f"DECIMAL({sp[1]},{sp[2]}), but after a run with {WVAR}={prev and prev['ew']} {SVAR}={prev and prev['es']} the engine loads, rounds and "
                         f"rejects Numbers as DECIMAL({m[1]},{m[2]}) (the values generated for that type behave as the model predicts)",
                         {"steps": [{"env": {k: v for k, v in ((WVAR, q['ew']), (SVAR, q['es'])) if v is not None},
                                     "runs": [{"rows": [[0, "1.5", "2.25"]], "ops": ["+"], "path": "df"}]} for q in ([prev] if prev else []) + [st]],
                          "expected": f"globals after the last run = ({sp[1]}, {sp[2]})", "observed": f"({m[1]}, {m[2]})"})
    # history independence: a step of a sequence must behave as the same environment does in a fresh process
    for p in plans:
        if p.fresh:
            continue
        for si, st in enumerate(p.steps):
            key_env = (st["ew"], st["es"])
            if key_env in fresh_outcome and fresh_outcome[key_env] != st.get("engine_class"):
                prev = p.steps[si - 1] if si else None
                envs = []
                for q in ([prev] if prev else []) + [st]:
                    envs.append({"env": {k: v for k, v in ((WVAR, q['ew']), (SVAR, q['es'])) if v is not None},
                                 "runs": [{"rows": [[0, "1.5", "2.25"]], "ops": ["+"], "path": "df"}]})
                note("sticky-decimal-globals",
                     f"the outcome of run() depends on earlier runs in the process: with {WVAR}={st['ew']} {SVAR}={st['es']} a fresh process gives "
                     f"{fresh_outcome[key_env]}, but after a run with {WVAR}={prev and prev['ew']} {SVAR}={prev and prev['es']} the same environment gives "
                     f"{st.get('engine_class')} (set_decimal_config uses the current module globals as defaults and assigns them before validating)",
                     {"steps": envs, "expected": str(fresh_outcome[key_env]), "observed": str(st.get("engine_class"))})
    # model-free: one environment, one outcome — wherever in whichever process it was run
    by_env = {}
    for p in plans:
        for si, st in enumerate(p.steps):
            by_env.setdefault((st["ew"], st["es"]), {}).setdefault(str(st.get("engine_class")), (p.name, si))
    ctx.cov["distinct_environments_run"] = len(by_env)
    for env_, classes_ in by_env.items():
        if len(classes_) > 1:
            (c1, (p1, s1)), (c2, (p2, s2)) = list(classes_.items())[:2]
            note("sticky-decimal-globals",
                 f"the outcome of run() with {WVAR}={env_[0]} {SVAR}={env_[1]} depends on what ran before in the process: {c1} in {p1} step {s1}, "
                 f"{c2} in {p2} step {s2}",
                 {"steps": [{"env": {k: v for k, v in ((WVAR, env_[0]), (SVAR, env_[1])) if v is not None},
                             "runs": [{"rows": [[0, "1.5", "2.25"]], "ops": ["+"], "path": "df"}]}], "expected": c1, "observed": c2})
    # precision stickiness that does not change the outcome class is visible through the globals: covered by the model comparison above

    ctx.cov["rule"] = ("exhaustive: every integer -5..45 (and unset) of each variable through run(), each followed by a run with the variables unset in the "
                       "same process (quick: settings share 16 worker processes + fresh processes for boundary settings; thorough: a fresh process per "
                       "setting AND one long in-process sequence per variable); sampled joint settings; "
                       "distinct = (configuration, prior globals, outcome) / (DECIMAL(w,s), value pair, operator)")
    ctx.cov["exhaustive"] = True
    ctx.cov["configuration_outcomes_model"] = hist
    ctx.cov["case_tags"] = tags
    ctx.cov["results_float_exact"] = n_exact
    ctx.cov["results_within_ulp_tolerance"] = {"n": n_ulp, "max_ulps": round(max_ulps, 3), "tolerance": ULP_TOL}
    ctx.cov["inputs_rejected_as_beyond_precision"] = n_loadrej
    ctx.cov["overflow_cases_at_widths_18_38"] = n_over
    ctx.cov["engine_processes"] = len(plans)
    ctx.cov["sequence_steps_silently_using_an_earlier_precision"] = n_silent[0]
    for pmm in mismatches[:3]:
        ctx.sample({"mismatch": pmm})
    for p in plans[:2]:
        ctx.sample({"plan": p.name, "env": [p.steps[0]["ew"], p.steps[0]["es"]], "model": p.steps[0]["model"],
                    "pairs": [(t, str(a), str(b)) for t, a, b in p.steps[0]["pairs"][:4]]})
    ctx.oblige(f"K: engine agrees with the faithful model on every configuration, value and module-global state "
               f"({sum(len(p.steps) for p in plans)} configurations, {len(exprs)} cases)", not mismatches,
               "; ".join(f"{a}#{b} {c}: {d_}" for a, b, c, d_ in mismatches[:4]))
    for a, b, c, d_ in mismatches[:10]:
        ctx.violation(f"model-mismatch:{a}:{b}", f"engine and faithful model disagree in {a} step {b} env {c}: {d_}",
                      {"plan": a, "step": b, "env": c, "detail": d_})
    for key, (what, rep, n, _simple) in sorted(findings.items()):
        ctx.log(f"finding {key}: {n} occurrences; first: {what[:200]}")
        ctx.violation(key, what, rep)
    ctx.log(f"K: exact {n_exact}, within {ULP_TOL} ulp {n_ulp} (max {max_ulps:.2f}), load rejections {n_loadrej}, overflow {n_over}, "
            f"mismatches {len(mismatches)}, findings {sorted(findings)}")
    ctx.trusted.append("T-conf translator (harness/translate/config.py): import of the constants, rst scanner of docs/environment_variables.rst, "
                       "the real set_decimal_config called under patched os.environ / module globals; the table compression (both-set rows "
                       "checked identical across priors in Python, written once)")
    ctx.trusted.append("DuckDB's DECIMAL(w,s) well-formedness rule (1<=w<=38, 0<=s<=w), string->DECIMAL rounding and the DECIMAL(min(38,w+1),s) "
                       "result type of + and - are observed through run(), not derived from DuckDB's source")
    ctx.assumptions.append(f"returned Numbers are float64: a result is accepted when it is within {ULP_TOL} ulp of the exact decimal (exact equality is "
                           "required when the scaled integer of the exact result is below 2^53, where DuckDB's DECIMAL->DOUBLE conversion is exact)")
    ctx.assumptions.append("settings are integers; non-integer strings in the two variables are outside the quantifier of C30")


def replay(ctx, obj):
    steps = obj.get("steps")
    if not steps:
        print(obj.get("what"))
        return 1
    res = spawn(steps)
    print("expected:", obj.get("expected"))
    for st, r in zip(steps, res):
        for run_, er in zip(st["runs"], r["runs"]):
            print("env", st["env"], "rows", run_["rows"], "ops", run_["ops"], "->",
                  ({"ok": True, "vals": {o: {k: float.fromhex(v) if v else None for k, v in d.items()} for o, d in er["vals"].items()}} if er["ok"]
                   else {"err": er["err"], "msg": er["msg"][:200]}), "globals after:", er["globals"])
    print("observed when recorded:", obj.get("observed"))
    return 1


if __name__ == "__main__" and "--worker" in sys.argv:
    _worker()
