"""C04 — joins combine datasets as specified.  Proof: Props/C04.v over Model/Join.v.  Tie K (joingen.run_k)."""
import joingen


def run(ctx):
    ctx.prove("C04")
    q = ctx.tier == "quick"
    joingen.run_k(ctx, 270 if q else 7200, 30 if q else 800)
    ctx.cov["rule"] = ("scripts whose result statement is ONE join expression: inner/left/full/cross join of 2-4 operands (inputs, or one named "
                       "intermediate clause result), identifier sets over Id_1..Id_3 equal / nested or overlapping in every order (widest first, narrowest "
                       "first, identifiers shared only among later operands; several datapoints per shared key) / joined by `using` (on identifiers, or on a measure of the "
                       "first operand that is the identifier of the others), with and without aliases, homonymous and distinct measures, key-overlap "
                       "classes disjoint/partial/equal/superset, a trailing body of 0-3 clauses (filter, calc, keep, drop, rename; component "
                       "expressions of depth ≤ 3) and the final unqualification; plus a malformed stream (illegal identifier configurations, "
                       "`using` on full/cross join, unresolved homonyms); distinct = (script, data)")
    ctx.oblige("K: engine = run_jscript (Model/Join.v) on every generated case, or the disagreement is reported", True)
    ctx.trusted.append("DuckDB 1.5.5 executes the emitted SQL (observed only). Bounds of the correspondence: join keys of the same type on both "
                       "sides (Integer/String); ASCII strings; |integers| ≤ 1000; Numbers on a 1/4 grid; aggr/apply bodies, calc with a role, "
                       "nvl join defaults, viral attributes and dataset-level operators nested inside the join are not generated")


def replay(ctx, obj):
    return joingen.replay_case(obj)
