"""C07 — validation and hierarchy operators report exactly the failing datapoints.
Proof: Props/C07.v over Model/Validation.v.  Tie K: validgen cases run on the engine and under vm_compute in the model;
the property predicate is also evaluated on engine output alone.  thorough: + the upstream validation corpus (model-free)."""
import hashlib
import json
import re

import engine
import validgen as VG
from common import CORPUS


# ---------------------------------------------------------------- classification of a disagreement into a STABLE key
def classify(c, er, dis, dis_spec):
    """dis = disagreement with the engine-faithful model (…_impl), dis_spec = with the manual's reading.  Returns (key, what) or None.
    Keys of defects repaired in /repo (leading sign, alias, single identifier, phantom row) are kept: were one of them to come back, the
    violation carries its recognisable key (it is no longer a known finding, so the check fails)."""
    k = c["kind"]
    other_ids = [n for n, _ in c["ds"]["DS_1"]["ids"] if n != "Id_2"] if k in ("chk_h", "hier") else None
    if not er["ok"]:
        kind, code = er["err"]
        msg = er["msg"]
        if k in ("chk_h", "hier") and "HRUnOp" in msg and "has no attribute" in msg and any(r["right"][0][0] for r in c["rules"]):
            return ("hierarchical-rule:leading-sign:AttributeError",
                    "a hierarchical rule whose right side starts with a sign (`A = - B`, `A = + B + C`) raises AttributeError: 'HRUnOp' object has no "
                    "attribute 'value' (Interpreter.visit_HRBinOp) for check_hierarchy and hierarchy")
        if k == "hier" and not other_ids and "syntax error at or near \"1\"" in msg:
            return ("hierarchy:code-item-is-the-only-identifier:sql-syntax-error",
                    "hierarchy() over a dataset whose only identifier is the rule component emits `LEFT JOIN … USING (1=1)` — DuckDB parser error (2-1-1-1)")
        m = re.search(r'Binder Error: Referenced column "([^"]+)" not found', msg)
        if k == "dp" and m and any(a == m.group(1) for _, a in c["sig"]):
            return ("check_datapoint:alias-unresolved-in-nested-operator:binder-error",
                    "a datapoint rule using a signature ALIAS inside between / round(x,n) / if-then-else … (nodes that fall back to the general "
                    "visitor) fails with DuckDB Binder Error: _dp_signature is stashed but never read by visit_VarID")
        return None
    if dis is None and dis_spec is not None:
        if k == "hier" and c.get("imode") == "dataset":
            return ("hierarchy:input-mode-dataset-evaluated-as-rule",
                    "hierarchy(... dataset): right-side items computed by other rules take the COMPUTED value; input mode `dataset` is ignored")
    if dis is not None and k == "chk_h" and not other_ids:
        items = {r["left"] for r in c["rules"]} | {it for r in c["rules"] for _, it in r["right"]}
        if not any(row[0][-1] in items for row in c["ds"]["DS_1"]["rows"]):
            return ("check_hierarchy:code-item-is-the-only-identifier:phantom-row-on-empty-pivot",
                    "check_hierarchy over a dataset whose only identifier is the rule component and that holds none of the ruleset's items returns "
                    "one all-null row per rule in `all`/`all_measures` (ungrouped aggregate over no rows)")
    return None


def judge(ctx, c, er, m_impl, m_spec, shrinkable=True):
    """compares one case; reports violations; returns True when something was reported"""
    notes = VG.normalise(c, er)
    dis = VG.compare(er, m_impl)
    dis_spec = VG.compare(er, m_spec) if m_spec is not None else dis
    reported = False
    script = VG.script_of(c).split("DS_invalid")[0].split("DS_computed")[0].strip()
    replay = {"case": c, "disagreement_with_engine_faithful_model": dis, "disagreement_with_manual_model": dis_spec}
    for key, what in notes:
        ctx.violation(key, f"{what} :: {script}", replay)
        reported = True
    cl = classify(c, er, dis, dis_spec)
    if cl is not None:
        ctx.violation(cl[0], f"{cl[1]} :: {script} :: {dis or dis_spec}", replay)
        reported = True
    elif dis is not None:
        raw = (not er["ok"]) and er["err"][0] in ("RawDuckDB", "RawPython")
        key = f"{c['kind']}:" + (f"raw-{er['err'][1]}" if raw else f"error-{er['err'][1]}" if not er["ok"] else "wrong-result") + \
              (f":{c.get('mode') or 'default'}" if c["kind"] in ("chk_h", "hier") else "")
        ctx.violation(key, f"{script} :: {dis}", replay)
        reported = True
    for key, what in VG.predicates(c, er):
        ctx.violation(key, f"property predicate on engine output: {what} :: {script}", replay)
        reported = True
    return reported, dis, cl


def _run_one(c):
    er = VG.run_engine(c)
    er.pop("exc", None)
    return er


def engine_results(cases, workers=8):
    """engine runs in forked worker processes (each starts its own parser helper and DuckDB connections); sequential fallback"""
    if workers > 1 and len(cases) > 8:
        try:
            import multiprocessing as mp
            with mp.get_context("fork").Pool(workers) as pool:
                return pool.map(_run_one, cases, chunksize=4)
        except Exception as e:  # pragma: no cover
            print(f"[C07] worker pool unavailable ({type(e).__name__}: {e}); running sequentially", flush=True)
    return [_run_one(c) for c in cases]


def run_cases(ctx, cases, tag, store=True):
    ers = engine_results(cases)
    m_impl = VG.eval_model(cases, tag + "_impl", impl=True)
    two = [i for i, c in enumerate(cases) if c["kind"] == "hier" and c.get("imode") == "dataset"]
    m_spec_l = VG.eval_model([cases[i] for i in two], tag + "_spec", impl=False) if two else []
    m_spec = dict(zip(two, m_spec_l))
    hist = {}
    errs = {}
    n_dis = 0
    for i, c in enumerate(cases):
        for hk, hv in VG.describe(c).items():
            hist.setdefault(hk, {})
            hist[hk][hv] = hist[hk].get(hv, 0) + 1
        er = ers[i]
        if not er["ok"]:
            errs[str(er["err"])] = errs.get(str(er["err"]), 0) + 1
        ctx.count(VG.case_id(c))
        if len(ctx.cov["samples"]) < 6 and er["ok"]:
            ctx.sample({"script": VG.script_of(c).split("DS_invalid")[0].split("DS_computed")[0], "data": {n: d["rows"][:6] for n, d in c["ds"].items()},
                        "engine_DS_r": er["datasets"]["DS_r"]["rows"][:4]})
        reported, dis, cl = judge(ctx, c, er, m_impl[i], m_spec.get(i, m_impl[i]))
        if dis is not None and cl is None:
            n_dis += 1
            if store and n_dis <= 3:
                def still_bad(cc):
                    mm = VG.eval_model([cc], tag + "_shr", impl=True)[0]
                    e2 = VG.run_engine(cc)
                    VG.normalise(cc, e2)
                    return VG.compare(e2, mm) is not None and classify(cc, e2, VG.compare(e2, mm), None) is None
                try:
                    small = VG.shrink(c, still_bad)
                except Exception:
                    small = c
                d = CORPUS / "C07"
                d.mkdir(parents=True, exist_ok=True)
                (d / (VG.case_id(small)[:10] + ".json")).write_text(json.dumps(small, sort_keys=True))
    return hist, errs, n_dis


def corpus_cases():
    d = CORPUS / "C07"
    return [json.loads(p.read_text()) for p in sorted(d.glob("*.json"))] if d.exists() else []


# ---------------------------------------------------------------- upstream corpus, model-free predicates (thorough)
_OUT_WORDS = ("all_measures", "invalid", "all")
_CALL = re.compile(r"\b(check_datapoint|check_hierarchy|check)\s*\(")


def set_output(script: str, out: str) -> str:
    """rewrites the output option of every validation operator call of the script"""
    res, pos = [], 0
    while True:
        m = _CALL.search(script, pos)
        if not m:
            res.append(script[pos:])
            return "".join(res)
        i, depth = m.end(), 1
        while i < len(script) and depth:
            depth += {"(": 1, ")": -1}.get(script[i], 0)
            i += 1
        if depth:
            res.append(script[pos:])
            return "".join(res)
        inner = script[m.end():i - 1].rstrip()
        for w in _OUT_WORDS:
            if re.search(r"(?<![A-Za-z0-9_])" + w + "$", inner):
                inner = inner[:-len(w)].rstrip()
                break
        o = "all" if (m.group(1) == "check" and out == "all_measures") else out
        res.append(script[pos:m.end()] + inner + " " + o + ")")
        pos = i


def _tab(d):
    names = [x[0] for x in d["comps"]]
    idn = [x[0] for x in d["comps"] if x[1] == "Identifier"]
    rows = [dict(zip(names, r)) for r in d["rows"]]
    return names, idn, {tuple(r[q] for q in idn): r for r in rows}, len(rows)


def upstream(ctx, limit):
    import corpus
    cs = corpus.enumerate_cases(dirs=["tests/DatapointRulesets/", "tests/Hierarchical/", "tests/Validation/", "tests/ReferenceManual/"])
    n = ok = checked = 0
    for c in cs:
        if not _CALL.search(c.script):
            continue
        if limit and n >= limit:
            break
        n += 1
        runs = {}
        for out in ("invalid", "all", "all_measures"):
            c2 = corpus.Case(c.id, set_output(c.script, out), c.structures, c.datapoints)
            runs[out] = corpus.run_corpus_case(c2, return_only_persistent=False)
        ctx.count("upstream:" + c.id)
        if not all(r["ok"] for r in runs.values()):
            continue
        ok += 1
        for name, dall in runs["all"]["datasets"].items():
            names, idn, a_by, na = _tab(dall)
            if "bool_var" not in names:
                continue
            checked += 1
            rep = {"corpus_case": c.id, "dataset": name}
            if len(a_by) != na:
                ctx.violation("upstream-corpus:duplicate-keys", f"{c.id} {name}: duplicate identifier keys in `all`", rep)
            if "errorcode" in names and "errorlevel" in names:
                bad = [k for k, r in a_by.items() if r["bool_var"] is not False and (r["errorcode"] is not None or r["errorlevel"] is not None)]
                if bad:
                    ctx.violation("upstream-corpus:errorcode-set-where-not-false", f"{c.id} {name}: {bad[0]}", rep)
            dinv = runs["invalid"]["datasets"].get(name)
            if dinv is not None:
                n2, id2, i_by, _ = _tab(dinv)
                if id2 == idn and "bool_var" not in n2:
                    fk = {k for k, r in a_by.items() if r["bool_var"] is False}
                    if set(i_by) != fk:
                        ctx.violation("upstream-corpus:invalid-differs-from-false-rows-of-all",
                                      f"{c.id} {name}: invalid-only {sorted(set(i_by) - fk, key=str)[:2]}, false-only {sorted(fk - set(i_by), key=str)[:2]}", rep)
                elif id2 == idn and "bool_var" in n2:   # check(): bool_var is kept in invalid
                    fk = {k for k, r in a_by.items() if r["bool_var"] is False}
                    if set(i_by) != fk:
                        ctx.violation("upstream-corpus:invalid-differs-from-false-rows-of-all", f"{c.id} {name} (check)", rep)
            dam = runs["all_measures"]["datasets"].get(name)
            if dam is not None:
                n3, id3, m_by, _ = _tab(dam)
                if id3 == idn and "bool_var" in n3 and (set(m_by) != set(a_by) or any(m_by[k]["bool_var"] != a_by[k]["bool_var"] for k in a_by)):
                    ctx.violation("upstream-corpus:all_measures-differs-from-all", f"{c.id} {name}", rep)
    ctx.cov["upstream_corpus"] = {"scripts_with_validation_operators": n, "ran_ok_in_all_three_outputs": ok, "result_datasets_checked": checked}
    ctx.oblige("upstream corpus (tests/DatapointRulesets, Hierarchical, Validation, ReferenceManual): some result dataset could be checked", checked > 0 or bool(limit),
               f"{n} scripts, {ok} ran, {checked} checked")


def run(ctx):
    ctx.prove("C07")
    engine.install(need_parser=True)
    q = ctx.tier == "quick"
    n = 200 if q else 5000
    cc = corpus_cases()
    cases = cc + [VG.gen_case(ctx.rng) for _ in range(n)]
    hist, errs, n_dis = run_cases(ctx, cases, "c07")
    ctx.cov["distribution"] = {**hist, "engine_errors": errs, "corpus": len(cc), "generated": n,
                               "dp_rules_rejected_by_engine_semantic_analysis": sum(c.get("rejected", 0) for c in cases)}
    ctx.cov["disagreements_unclassified"] = n_dis
    if not q:
        upstream(ctx, None)
    ctx.cov["rule"] = ("cases = check (Boolean operand from dataset∘dataset / dataset∘scalar comparison, isnull, between; imbalance none / DS_1-DS_2 / "
                       "another dataset; errorcode, errorlevel; invalid/all/default), check_datapoint (variable signature with aliases, 1-5 rules "
                       "with and without `when`, conditions of depth ≤2 from the C01 expression generator, error codes/levels, invalid/all/"
                       "all_measures/default), check_hierarchy and hierarchy (variable signature, 2-8 code items, 1-5 rules over a random DAG, "
                       "textual order shuffled, = > >= < <=, six validation modes, input modes rule/rule_priority/dataset, outputs) over datasets "
                       "with 0-2 further identifiers, Integer/Number measure, nulls 15-25 %, zeros, missing items; every case runs the engine in "
                       "ALL output modes in one script; distinct = case content hash")
    ctx.oblige("K: engine = Model/Validation.v (engine-faithful variant) on every generated case, or the disagreement is reported", True)
    ctx.oblige("property predicate evaluated on engine output of every case (invalid = FALSE rows of all; errorcode/errorlevel iff FALSE; "
               "all_measures = all; check all complete w.r.t. operand; imbalance = left - right; hierarchy all = computed over input; "
               "errorlevel component and values typed as Validation.validate declares)", True)
    ctx.trusted.append("DuckDB 1.5.5 executes the emitted SQL (observed only). Bounds: ASCII strings; |integers| ≤ 1000; Numbers on a 1/4 grid (exact in "
                       "DOUBLE/DECIMAL); hierarchical rules without `when`, without condition components, variable signature; value-domain signatures, "
                       "viral attributes and attributes are reached only through the upstream corpus with model-free predicates")


def replay(ctx, obj):
    engine.install(need_parser=True)
    if "case" not in obj:
        print("nothing to replay:", obj.get("what"))
        return 1
    c = obj["case"]
    er = VG.run_engine(c)
    raw = (dict(er["datasets"]["DS_r"]) if er["ok"] else (er["err"], er["msg"]))
    notes = VG.normalise(c, er)
    mi = VG.eval_model([c], "c07_replay", impl=True)[0]
    ms = VG.eval_model([c], "c07_replay_s", impl=False)[0]
    dis, dis_s = VG.compare(er, mi), VG.compare(er, ms)
    print("script:\n" + VG.script_of(c))
    print("inputs:", json.dumps({n: d["rows"] for n, d in c["ds"].items()}))
    print("engine:", raw)
    print("model (engine-faithful):", VG.model_rows(mi))
    print("model (manual)         :", VG.model_rows(ms))
    preds = VG.predicates(c, er)
    for p in notes + preds:
        print("predicate violated:", p)
    print("expected: engine = manual model and no predicate violated; observed:",
          "agree" if (dis_s is None and not preds and not notes) else (dis_s or dis or "predicate violation"))
    return 0 if (dis_s is None and not preds and not notes) else 1
