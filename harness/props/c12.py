"""C12 — results do not depend on the textual order of statements.

Proof: Props/C12.v (Model/Dag.v, Proofs/DagP.v): confluence of topological orders, permutation invariance for any sorter meeting its
  specification, the order checker is_topo_order sound+complete, cycle / redefinition detection independent of order (any length).
Tie T-dag (X): the REAL DAGAnalyzer on generated scripts (every dependency shape up to the tier's bound, arbitrary digraphs with cycles
  and self references, duplicated output names, scalar/clause uses): dependencies, vertex, edges, outcome compared with the Gallina
  functions; every order networkx produced is validated with is_topo_order.
Tie K: all permutations (exhaustive up to the tier's bound, sampled beyond) of generated scripts and of the multi-statement scripts of the
  upstream corpus, through the real run() / semantic_analysis(), results compared as dictionaries; error scripts must give the cycle
  error 1-3-2-3 resp. the redefinition error 1-2-2 in every order."""
from __future__ import annotations

import hashlib
import itertools
import json
import math
from pathlib import Path

import common
import dagtie as T

REPO_TESTS = common.REPO / "tests"
CORPUS_DIR = common.CORPUS / "C12"


def perms_of(rng, n, exhaustive_up_to, sample):
    if n <= exhaustive_up_to:
        return [list(p) for p in itertools.permutations(range(n))]
    seen = {tuple(range(n))}
    out = [list(range(n))]
    tries = 0
    while len(out) < sample and tries < sample * 20:
        tries += 1
        p = list(range(n))
        rng.shuffle(p)
        if tuple(p) not in seen:
            seen.add(tuple(p))
            out.append(p)
    return out


def canon_run(o):
    if "harness_error" in o:
        return ("harness", o["harness_error"])
    if not o["ok"]:
        return ("err", o["err"][0], o["err"][1])
    return ("ok", json.dumps({"d": {k: [v["comps"], v["rows"]] for k, v in sorted(o["datasets"].items())},
                             "s": {k: v for k, v in sorted(o["scalars"].items())}}, sort_keys=True, default=str))


def canon_sem(o):
    if "harness_error" in o:
        return ("harness", o["harness_error"])
    if not o["ok"]:
        return ("err", o["err"][0], o["err"][1])
    return ("ok", json.dumps({"d": {k: v for k, v in sorted(o["datasets"].items())}, "s": {k: v for k, v in sorted(o["scalars"].items())}},
                             sort_keys=True, default=str))


# ------------------------------------------------------------------------------------------------ generated scripts (K)
def directed_cases():
    def ds(out, ops, pers=False, clause=None, const=1, plain=False):
        return {"out": out, "pers": pers, "kind": "ds", "ops": ops, "clause": clause, "const": const, "clause_plain": plain}

    def sc(out, ops, pers=False, const=3):
        return {"out": out, "pers": pers, "kind": "sc", "ops": ops, "clause": None, "const": const}
    cs = [
        ("pers-scalar-clause", [sc("sc_1", [], pers=True), ds("DS_1", ["IN_1"], clause="sc_1")], ["IN_1"]),
        ("pers-scalar-clause", [sc("sc_1", [], pers=True), ds("DS_1", ["IN_1"], clause="sc_1"), ds("DS_2", ["DS_1"], pers=True)], ["IN_1"]),
        ("scalar-clause", [sc("sc_1", []), ds("DS_1", ["IN_1"], clause="sc_1"), ds("DS_2", ["DS_1", "IN_1"], pers=True)], ["IN_1"]),
        ("component-name", [ds("Me_1", ["IN_1"]), ds("DS_1", ["IN_1"], plain=True), ds("DS_2", ["DS_1", "Me_1"])], ["IN_1"]),
        ("input-is-output", [ds("IN_1", ["IN_2"]), ds("DS_1", ["IN_1"])], ["IN_1", "IN_2"]),
        ("input-is-output", [ds("IN_1", ["IN_1"]), ds("DS_1", ["IN_1"])], ["IN_1"]),
    ]
    return [{"cat": c, "canon": st, "stmts": st, "inputs": ins, "shape": (c, i)} for i, (c, st, ins) in enumerate(cs)]


def k_generated(ctx, pool, cases, exh, sample, tag):
    """all/sampled permutations of each case through run() and semantic_analysis(); returns disagreements"""
    jobs, index = [], []
    for ci, c in enumerate(cases):
        n = len(c["canon"])
        for p in perms_of(ctx.rng, n, exh, sample):
            st = [c["canon"][i] for i in p]
            txt = T.script_text(st)
            base = {"script": txt, "structs": T.structures_for(c["inputs"]), "kw": {"return_only_persistent": False}}
            jobs.append(dict(base, kind="run", data=T.data_spec(c["inputs"])))
            index.append((ci, tuple(p), "run"))
            jobs.append(dict(base, kind="sem"))
            index.append((ci, tuple(p), "sem"))
    obs = pool.map(jobs, chunk=4)
    per = {}
    for (ci, p, kind), o in zip(index, obs):
        per.setdefault((ci, kind), []).append((p, canon_run(o) if kind == "run" else canon_sem(o), o))
    out = {"scripts": len(cases), "runs": len(jobs), "disagree": [], "errors": {}, "broken": [], "ref_mismatch": [], "valid": 0}
    for (ci, kind), lst in sorted(per.items()):
        c = cases[ci]
        vals = {}
        for p, cv, o in lst:
            if cv[0] == "harness":
                out["broken"].append(f"{T.script_text(c['canon'])!r}: {cv[1]}")
            vals.setdefault(cv, []).append(p)
        ctx.count((tag, c["cat"], str(c["shape"]), kind, T.script_text(c["canon"])), n=len(lst))
        if len(vals) > 1:
            out["disagree"].append((c, kind, vals))
            continue
        cv = next(iter(vals))
        if cv[0] == "err":
            k = f"{cv[1]}:{cv[2]}"
            out["errors"][k] = out["errors"].get(k, 0) + 1
            c.setdefault("errs", {})[kind] = k
        elif kind == "run":
            out["valid"] += 1
            if c.get("check_ref", True):
                rb = T.compare_results(lst[0][2], T.canon_expected(c, False))
                if rb:
                    out["ref_mismatch"].append((c, rb))
    return out


def report_disagreements(ctx, res, what):
    ctx.oblige(f"{what}: every job ran", not res["broken"], "; ".join(res["broken"][:3]))
    for c, kind, vals in res["disagree"][:25]:
        groups = [(cv[:3] if cv[0] == "err" else ("ok", hashlib.sha1(cv[1].encode()).hexdigest()[:8]), ps[0]) for cv, ps in vals.items()]
        stmts = c["canon"]
        key = f"order-dependent:{c['cat']}"
        if c["cat"].startswith("local:"):   # local:<kind>[+<kind>]:<input|result>; a script using a join alias is keyed by the join
            _, kinds, coll = c["cat"].split(":")
            ks = sorted({"join-alias" if k.startswith("join") else k for k in kinds.split("+")})
            key = f"order-dependent:local:{'join-alias' if 'join-alias' in ks else '+'.join(ks)}:{coll}"
        names = [x["out"] for x in stmts]
        if len(set(names)) < len(names) and all(cv[0] == "err" and cv[2] in ("1-2-2", "1-3-2-3") for cv in vals):
            key = "duplicate+cycle:error-depends-on-order"   # same defect as found at the DAG level
        a, b = groups[0], groups[1]
        ctx.violation(key, f"{'run()' if kind == 'run' else 'semantic_analysis()'} depends on the statement order: "
                           f"{T.script_text([stmts[i] for i in a[1]])!r} -> {a[0]}  but  {T.script_text([stmts[i] for i in b[1]])!r} -> {b[0]}",
                      {"kind": kind, "canon": stmts, "inputs": c["inputs"], "perm_a": list(a[1]), "perm_b": list(b[1]),
                       "observed_a": list(a[0]), "observed_b": list(b[0])})
        store_corpus(c, kind, a[1], b[1])
    for c, rb in res["ref_mismatch"][:10]:
        ctx.violation(f"result:{c['cat']}", f"results (equal in every order) differ from the value the script denotes: {rb[0][:300]} — "
                                            f"{T.script_text(c['canon'])!r}", {"canon": c["canon"], "inputs": c["inputs"], "diff": rb})


def store_corpus(c, kind, pa, pb):
    CORPUS_DIR.mkdir(parents=True, exist_ok=True)
    obj = {"cat": c["cat"], "canon": c["canon"], "inputs": c["inputs"], "kind": kind, "perm_a": list(pa), "perm_b": list(pb)}
    h = hashlib.sha1(json.dumps(obj, sort_keys=True).encode()).hexdigest()[:10]
    same = [p for p in CORPUS_DIR.glob("*.json") if json.loads(p.read_text()).get("cat") == c["cat"]]
    if len(same) < 2:   # a few minimal representatives per category are enough
        (CORPUS_DIR / f"{c['cat'].replace(':', '_').replace('+', '_')}-{h}.json").write_text(json.dumps(obj, indent=1))


def shrink_case(pool, c, kind, pa, pb):
    """drops statements nobody else reads while the two orders still disagree"""
    stmts = list(c["canon"])
    order_a = [stmts[i]["out"] for i in pa]
    order_b = [stmts[i]["out"] for i in pb]

    def disagree(sub):
        names = [s["out"] for s in sub]
        res = []
        for order in (order_a, order_b):
            st = [next(s for s in sub if s["out"] == n) for n in order if n in names]
            job = {"kind": kind, "script": T.script_text(st), "structs": T.structures_for(c["inputs"]), "kw": {"return_only_persistent": False}}
            if kind == "run":
                job["data"] = T.data_spec(c["inputs"])
            res.append(job)
        o = pool.map(res, chunk=1)
        f = canon_run if kind == "run" else canon_sem
        return f(o[0]) != f(o[1])
    changed = True
    while changed and len(stmts) > 2:
        changed = False
        for s in list(stmts):
            rest = [x for x in stmts if x is not s]
            if any(s["out"] in T.true_reads(x) for x in rest):
                continue
            if disagree(rest):
                stmts = rest
                changed = True
                break
    return stmts


# ------------------------------------------------------------------------------------------------ upstream corpus (K)
def corpus_perm_jobs(ctx, s, sp, exh, sample):
    segs = sp["segs"]
    slots = [i for i, g in enumerate(segs) if g["assign"]]
    n = len(slots)
    jobs = []
    for p in perms_of(ctx.rng, n, exh, sample):
        new = list(segs)
        for slot, src in zip(slots, p):
            new[slot] = segs[slots[src]]
        txt = sp["head"] + "".join((g["text"] if g["text"].endswith("\n") else g["text"] + "\n") for g in new)
        job = {"script": txt, "struct_paths": s["struct_paths"], "kw": dict(s["kw"], return_only_persistent=False)}
        if s["dp_paths"]:
            job.update(kind="run", dp_paths=s["dp_paths"])
        else:
            job.update(kind="sem")
        jobs.append((tuple(p), job))
    return n, jobs


def k_corpus(ctx, pool):
    scripts = T.corpus_scripts(REPO_TESTS)
    if ctx.tier != "thorough":   # quick: a sample of the candidate files is parsed
        ctx.rng.shuffle(scripts)
        scripts = sorted(scripts[:40], key=lambda x: x["path"])
    splits = pool.map([{"kind": "split", "path": s["path"]} for s in scripts])
    multi, err_scripts = [], []
    for s, sp in zip(scripts, splits):
        if sp.get("outcome") == "ok":
            if sum(1 for g in sp["segs"] if g["assign"]) >= 2:
                multi.append((s, sp))
        elif isinstance(sp.get("outcome"), list) and sp["outcome"][1] in ("1-3-2-3", "1-2-2"):
            err_scripts.append((s, sp))
    ctx.cov["corpus_multi_statement_scripts"] = len(multi)
    ctx.cov["corpus_scripts_rejected_with_cycle_or_redefinition"] = [Path(s["path"]).name + ":" + sp["outcome"][1] for s, sp in err_scripts]
    thorough = ctx.tier == "thorough"
    if not thorough:
        ctx.rng.shuffle(multi)
        multi = multi[:10]
    multi.sort(key=lambda x: x[0]["path"])
    exh, sample = (6, 60) if thorough else (3, 6)
    jobs, index = [], []
    hist = {}
    for si, (s, sp) in enumerate(multi):
        n, pj = corpus_perm_jobs(ctx, s, sp, exh, sample)
        hist[min(n, 12)] = hist.get(min(n, 12), 0) + 1
        for p, job in pj:
            jobs.append(job)
            index.append((si, p))
    ctx.cov["corpus_statement_count_histogram"] = hist
    ctx.log(f"corpus: {len(multi)} multi-statement scripts, {len(jobs)} permuted executions")
    obs = pool.map(jobs, chunk=2)
    per = {}
    for (si, p), job, o in zip(index, jobs, obs):
        per.setdefault(si, []).append((p, canon_run(o) if job["kind"] == "run" else canon_sem(o), job))
    res = {"valid": 0, "invalid": 0, "errors": {}, "disagree": [], "broken": []}
    for si, lst in sorted(per.items()):
        s, sp = multi[si]
        ident = next((cv for p, cv, _ in lst if list(p) == sorted(p)), lst[0][1])
        ctx.count(("corpus", s["path"]), n=len(lst))
        vals = {}
        for p, cv, job in lst:
            if cv[0] == "harness":
                res["broken"].append(f"{s['path']}: {cv[1]}")
            vals.setdefault(cv, []).append((p, job))
        if ident[0] == "err":
            k = f"{ident[1]}:{ident[2]}"
            res["errors"][k] = res["errors"].get(k, 0) + 1
            res["invalid"] += 1
            continue   # not a valid script in its written order (inputs next to it do not fit, unsupported construct...): outside the property
        res["valid"] += 1
        if len(vals) > 1:
            res["disagree"].append((s, vals, ident))
    return res


def recheck_nondeterminism(pool, job, n=2):
    o = pool.map([job] * n, chunk=1)
    f = canon_run if job["kind"] == "run" else canon_sem
    return len({f(x) for x in o}) > 1


# ------------------------------------------------------------------------------------------------ run
def run(ctx):
    thorough = ctx.tier == "thorough"
    ctx.cov["rule"] = ("X: generated scripts = every upper-triangular dependency shape up to N statements (quick 4, thorough 6) x persistent masks x "
                       "sampled inputs x a sampled textual permutation; every digraph with self loops on <=2 (thorough 3) statements, sampled digraphs "
                       "and duplicated names on 3..4; scalar/clause decorations. K: all permutations of generated scripts up to 4 (thorough 6) "
                       "statements and of corpus scripts up to 3 (thorough 6) statements, sampled beyond; distinct = (category, shape, script)")
    ok = ctx.prove("C12")
    pool = T.Pool()
    try:
        # ---- minimised past failures first
        past = []
        if CORPUS_DIR.is_dir():
            for f in sorted(CORPUS_DIR.glob("*.json")):
                o = json.loads(f.read_text())
                past.append({"cat": o["cat"], "canon": o["canon"], "stmts": o["canon"], "inputs": o["inputs"], "shape": ("corpus", f.name),
                             "check_ref": False})
        if past:
            r0 = k_generated(ctx, pool, past, 6, 0, "past")
            report_disagreements(ctx, r0, "stored minimal cases")
            ctx.log(f"stored minimal cases: {len(past)} scripts, {len(r0['disagree'])} still order dependent")

        # ---- X: DAG tie incl. cycles and duplicates
        cases = T.gen_shape_cases(ctx.rng, ctx.tier, sampled_quick=200)
        cases += T.gen_decorated_cases(ctx.rng, 2000 if thorough else 120)
        graph = T.gen_graph_cases(ctx.rng, ctx.tier)
        cases += graph
        local = T.gen_localname_cases(ctx.rng, ctx.tier)
        cases += local
        ctx.log(f"X tie: {len(cases)} generated scripts")
        st = T.dag_tie(ctx, pool, cases, "c12dag")
        ctx.cov["exhaustive"] = True
        ctx.cov["dag_tie"] = {k: v for k, v in st.items() if k not in ("mismatches", "spec_vs_impl", "broken")}
        ctx.oblige("T-dag: the real DAGAnalyzer ran on every generated script", not st["broken"], "; ".join(st["broken"][:3]))
        ctx.oblige(f"T-dag: dependencies/vertex/edges/outcome equal the Gallina functions ({st['cases']} scripts)", st["mismatch"] == 0,
                   " | ".join(st["mismatches"][:3]))
        ctx.oblige(f"T-dag: every order produced by networkx passes is_topo_order ({st['orders_validated']} orders)",
                   st["orders_validated"] == st["ok"], "")
        ctx.log(f"X tie: {st['ok']} accepted, {st['cycle']} cycle, {st['redef']} redefinition, {st['mismatch']} mismatches, "
                f"{len(st['spec_vs_impl'])} scripts where outcome_impl differs from outcome_spec")
        for c in cases[:2] + graph[-2:]:
            ctx.sample({"script": T.script_text(c["stmts"]), "category": c["cat"]})

        # ---- which error wins when a script has a duplicate AND a cycle: must not depend on the order (it did before the repair of
        #      create_dag; outcome_impl = outcome_spec is now a theorem, and the engine is permuted exhaustively on such scripts)
        ctx.oblige("T-dag: outcome_impl = outcome_spec on every generated script (theorem C12_outcome_impl_is_spec)", not st["spec_vs_impl"],
                   "; ".join(b["script"] for b in st["spec_vs_impl"][:3]))
        dups = [c for c in graph if c["cat"] == "dupnames" and len({s["out"] for s in c["stmts"]}) < len(c["stmts"])]
        ctx.rng.shuffle(dups)
        both = [{"case": c, "script": T.script_text(c["stmts"])} for c in dups[:(400 if thorough else 20)]]
        pj, pidx = [], []
        for bi, b in enumerate(both):
            stmts = b["case"]["stmts"]
            for p in itertools.permutations(range(len(stmts))):
                pj.append({"kind": "dag", "script": T.script_text([stmts[i] for i in p])})
                pidx.append((bi, p))
        pobs = pool.map(pj)
        per = {}
        for (bi, p), o in zip(pidx, pobs):
            per.setdefault(bi, {}).setdefault(T.engine_outcome(o.get("outcome", ["harness", "?"])), []).append(p)
        n_dep = 0
        for bi, outs in sorted(per.items()):
            ctx.count(("dup+cycle", both[bi]["script"]), n=sum(len(v) for v in outs.values()))
            stmts = both[bi]["case"]["stmts"]
            if len(outs) > 1:
                n_dep += 1
                (ea, pa), (eb, pb) = [(e, ps[0]) for e, ps in sorted(outs.items())][:2]
                ctx.violation("duplicate+cycle:error-depends-on-order",
                              f"a script with a duplicated assignment is rejected with {ea} as {T.script_text([stmts[i] for i in pa])!r} "
                              f"but with {eb} as {T.script_text([stmts[i] for i in pb])!r}",
                              {"kind": "dag", "canon": stmts, "inputs": ["IN_1"], "perm_a": list(pa), "perm_b": list(pb),
                               "observed_a": ea, "observed_b": eb})
            elif "1-2-2" not in outs:
                ctx.violation("duplicate:not-rejected-with-1-2-2", f"a script with a duplicated assignment gives {sorted(outs)} instead of 1-2-2: "
                                                                    f"{both[bi]['script']!r}",
                              {"kind": "dag", "canon": stmts, "inputs": ["IN_1"], "perm_a": list(range(len(stmts))), "perm_b": list(range(len(stmts)))})
        ctx.cov["duplicated_name_scripts_permuted"] = len(both)
        ctx.cov["duplicated_name_scripts_with_order_dependent_error"] = n_dep
        ctx.log(f"duplicated names: {len(both)} scripts permuted exhaustively, {n_dep} with an order dependent error code")

        # ---- K generated: valid scripts
        exh = 6 if thorough else 4
        valid = [c for c in cases if c["cat"].startswith("shape") or c["cat"] == "decorated"]
        ctx.rng.shuffle(valid)
        small = [c for c in valid if len(c["canon"]) <= 3][:(300 if thorough else 6)]
        mid = [c for c in valid if len(c["canon"]) == 4][:(200 if thorough else 3)]
        big = [c for c in valid if len(c["canon"]) >= 5][:(40 if thorough else 2)]
        kcases = small + mid + big + [c for c in directed_cases()] + local
        for c in kcases:
            if c["cat"] in ("input-is-output",):
                c["check_ref"] = False
        rk = k_generated(ctx, pool, kcases, exh, 200 if thorough else 10, "kgen")
        ctx.cov["k_generated"] = {k: v for k, v in rk.items() if k in ("scripts", "runs", "valid", "errors")}
        ctx.log(f"K generated: {rk['scripts']} scripts, {rk['runs']} executions, {rk['valid']} valid, errors {rk['errors']}, "
                f"{len(rk['disagree'])} order dependent")
        for i, (c, kind, vals) in enumerate(rk["disagree"][:5]):   # shrink before reporting
            ps = [ps[0] for ps in vals.values()]
            try:
                small_st = shrink_case(pool, c, kind, ps[0], ps[1])
                if len(small_st) < len(c["canon"]):
                    names = [s["out"] for s in small_st]
                    oa = [n for n in (c["canon"][j]["out"] for j in ps[0]) if n in names]
                    ob = [n for n in (c["canon"][j]["out"] for j in ps[1]) if n in names]
                    c2 = dict(c, canon=small_st, stmts=small_st)
                    pa = [names.index(n) for n in oa]
                    pb = [names.index(n) for n in ob]
                    # observed values of the shrunk pair
                    jobs = []
                    for p in (pa, pb):
                        j = {"kind": kind, "script": T.script_text([small_st[q] for q in p]), "structs": T.structures_for(c["inputs"]),
                             "kw": {"return_only_persistent": False}}
                        if kind == "run":
                            j["data"] = T.data_spec(c["inputs"])
                        jobs.append(j)
                    o = pool.map(jobs, chunk=1)
                    f = canon_run if kind == "run" else canon_sem
                    rk["disagree"][i] = (c2, kind, {f(o[0]): [tuple(pa)], f(o[1]): [tuple(pb)]})
            except Exception as e:  # shrinking is best effort
                ctx.log(f"shrink failed: {type(e).__name__}: {e}")
        report_disagreements(ctx, rk, "K generated")
        unexpected = {k: v for k, v in rk["errors"].items()}
        ctx.cov["k_generated_error_kinds"] = unexpected

        # ---- K generated: error scripts (cycle only / duplicate only) must give the same error in every order
        cyc = [c for c in graph if c["cat"] == "digraph"]
        dup = [c for c in graph if c["cat"] == "dupnames"]
        ctx.rng.shuffle(cyc)
        ctx.rng.shuffle(dup)
        ecases = cyc[:(150 if thorough else 4)] + dup[:(150 if thorough else 4)]
        for c in ecases:
            c["check_ref"] = False
        re_ = k_generated(ctx, pool, ecases, 4, 0, "kerr")
        bad_codes = []
        for c in ecases:
            errs = c.get("errs", {})
            names = [s["out"] for s in c["canon"]]
            has_dup = len(set(names)) < len(names)
            if has_dup and (errs.get("run") != "Semantic:1-2-2" or errs.get("sem") != "Semantic:1-2-2"):
                if not any(c is d[0] for d in re_["disagree"]):
                    bad_codes.append((c, errs, "Semantic:1-2-2"))
        for c, errs, want in bad_codes[:10]:
            ctx.violation(f"wrong-error:{c['cat']}", f"script with a duplicated assignment (no cycle) gives {errs} instead of {want}: "
                                                     f"{T.script_text(c['canon'])!r}", {"canon": c["canon"], "inputs": c["inputs"], "errs": errs})
        report_disagreements(ctx, re_, "K error scripts")
        ctx.cov["k_error_scripts"] = {k: v for k, v in re_.items() if k in ("scripts", "runs", "valid", "errors")}
        ctx.log(f"K error scripts: {re_['scripts']} scripts, {re_['runs']} executions, errors {re_['errors']}, {len(re_['disagree'])} order dependent")

        # ---- K corpus
        rc = k_corpus(ctx, pool)
        ctx.oblige("K corpus: every job ran", not rc["broken"], "; ".join(rc["broken"][:3]))
        n_real = 0
        for s, vals, ident in rc["disagree"]:
            others = [(cv, pj) for cv, pj in vals.items() if cv != ident]
            cv, pj = others[0]
            p, job = pj[0]
            if recheck_nondeterminism(pool, job) or recheck_nondeterminism(pool, vals[ident][0][1]):
                ctx.cov.setdefault("corpus_nondeterministic_scripts", []).append(s["path"])
                continue
            n_real += 1
            rel = str(Path(s["path"]).relative_to(REPO_TESTS))
            ctx.violation(f"corpus-order-dependent:{rel}",
                          f"corpus script {rel}: written order gives {ident[:3] if ident[0] == 'err' else 'ok'}, "
                          f"statement permutation {list(p)} gives {cv[:3] if cv[0] == 'err' else 'a different result'}",
                          {"kind": job["kind"], "job_permuted": job, "job_identity": vals[ident][0][1], "perm": list(p)})
        ctx.cov["k_corpus"] = {"valid": rc["valid"], "invalid_in_written_order": rc["invalid"], "errors": rc["errors"], "order_dependent": n_real}
        ctx.log(f"K corpus: {rc['valid']} valid scripts, {rc['invalid']} not valid as written {rc['errors']}, {n_real} order dependent")
    finally:
        pool.close()
    ctx.trusted.append("T-dag harness (harness/dagtie.py): script generator and its reading of which names a generated statement reads, numbering of "
                       "names, the reference evaluator of the generated language, the splitter of corpus scripts into top-level statements (AST "
                       "positions), the Java ATN front end, DuckDB")
    ctx.assumptions.append("sem_reads_only_deps: the value of a statement depends only on the names the DAG visitor reports; tie X checks the visitor "
                           "on the generated statement forms, the K tie (results equal under every permutation and equal to the reference "
                           "evaluation) covers the rest by sampling")
    ctx.assumptions.append("corpus scripts that fail in their written order with the inputs found next to them are not 'valid scripts' and are "
                           "only counted (except cycle/redefinition rejections)")


def replay(ctx, obj):
    pool = T.Pool(2)
    try:
        if "job_permuted" in obj:
            jobs = [obj["job_identity"], obj["job_permuted"]]
        else:
            st = obj["canon"]
            jobs = []
            for p in (obj["perm_a"], obj["perm_b"]):
                j = {"kind": obj.get("kind", "run"), "script": T.script_text([st[i] for i in p]), "structs": T.structures_for(obj["inputs"]),
                     "kw": {"return_only_persistent": False}}
                if j["kind"] == "run":
                    j["data"] = T.data_spec(obj["inputs"])
                jobs.append(j)
        o = pool.map(jobs, chunk=1)
        f = {"run": canon_run, "sem": canon_sem, "dag": lambda x: ("outcome", T.engine_outcome(x.get("outcome", ["?", "?"])))}[jobs[0]["kind"]]
        a, b = f(o[0]), f(o[1])
        print("expected: the same result (or the same error) for both statement orders")
        print("order A:", jobs[0]["script"].replace("\n", " ")[:300], "->", a[:3] if a[0] != "ok" else "ok " + hashlib.sha1(a[1].encode()).hexdigest()[:8])
        print("order B:", jobs[1]["script"].replace("\n", " ")[:300], "->", b[:3] if b[0] != "ok" else "ok " + hashlib.sha1(b[1].encode()).hexdigest()[:8])
        print(obj.get("what"))
        return 1 if a != b else 0
    finally:
        pool.close()
