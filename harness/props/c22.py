"""C22 — public API calls never modify the caller's arguments.

Proof: Props/C22.v (`frame`: no in-place modification of a variable that may alias a caller object => the caller's heap is
unchanged for ALL fault positions; instances for the skeletons of all six API functions as the code is NOW; the skeleton of
validate_dataset before the repair commit is kept as a refuted regression witness).
Model: Model/Ownership.v (hand-written Copy/Alias/Mutate skeletons of run, run_sdmx, semantic_analysis, validate_dataset,
prettify, generate_sdmx, faithful to the current code).
Tie K: every generated call (valid and invalid inputs: bad types, duplicates, missing columns, BOM-prefixed labels, extra
columns, "" in numeric columns, wrong scripts, bad structures) and a sample of corpus scripts is executed with a DEEP
snapshot of every argument before and after (dict/list structure and identity, DataFrame labels / dtypes / index / cell
values / object identities, scalar dicts, value-domain and external-routine dicts, pysdmx objects) AND compared with a deep copy
taken before the call (DataFrame.equals + dtypes + index + column order; files by digest).  data_structures are generated in
every accepted spelling (optional keys such as `nullable` omitted, type/data_type, role spellings, inline DataStructure vs
structures+datasets reference form) and handed over as dict, list, split list, Path or str path; value domains / external
routines as dict, list or file; the public calls are run, run_sdmx, semantic_analysis, validate_dataset, validate_value_domain,
validate_external_routine, prettify, generate_sdmx, create_ast, with succeeding and failing inputs.  The observed set of
modified aspects per argument is compared with the model's `caller_view` for the same input class and stop position
(coq_eval).  Independently of the model every CONTENT change of an argument is a violation of the property.
Secondary (never decides): a Python-ast scan listing in-place pandas/dict operations on names aliasing parameters."""
from __future__ import annotations

import ast
import copy
import json
import os
import shutil
import tempfile
import time
from pathlib import Path

import common
from props import c16 as K16

BOM = "﻿"
TAG = {"cols_identity": 0, "cols": 1, "added_col": 2, "values": 3, "dict_keys": 4, "other": 9}
TAG_NAME = {0: "columns-object-replaced", 1: "columns", 2: "added-column", 3: "values", 4: "dict-keys", 9: "other"}
COQ_HEADER = ("From Coq Require Import List.\nImport ListNotations.\nFrom VTL Require Import Model.Ownership.\n")
ARG_ORDER = ["data_structures", "datapoints", "scalar_values", "value_domains", "external_routines"]
BLOCK_LEN, PRELUDE = 12, 5
STOP = {"miss_nonnull": 3, "extra": 5, "nullid": 6, "badtype": 10, "dups": 11}


# --------------------------------------------------------------------------------------------------- snapshots
def snap(o, depth=0):
    E = K16.eng()
    pd = E["pd"]
    if isinstance(o, pd.DataFrame) and depth > 0:
        return {"k": "dfref", "id": id(o)}  # frames inside containers are snapshotted on their own; here only WHICH object
    if isinstance(o, pd.DataFrame):
        return {"k": "df", "id": id(o), "cols": [repr(c) for c in o.columns], "cols_id": id(o.columns),
                "dtypes": [str(t) for t in o.dtypes], "index": [repr(i) for i in o.index], "index_id": id(o.index),
                "index_name": repr(o.index.name), "cols_name": repr(o.columns.name), "attrs": repr(o.attrs),
                "values": [[repr(v) for v in row] for row in o.itertuples(index=False, name=None)]}
    if isinstance(o, dict):
        return {"k": "dict", "id": id(o), "items": [[repr(k), snap(v, depth + 1)] for k, v in o.items()]}
    if isinstance(o, (list, tuple)):
        return {"k": type(o).__name__, "id": id(o), "items": [snap(v, depth + 1) for v in o]}
    try:
        from pysdmx.io.pd import PandasDataset
        if isinstance(o, PandasDataset):
            return {"k": "pds", "id": id(o), "data": snap(o.data, depth + 1), "structure": repr(o.structure),
                    "rest": repr({f: getattr(o, f) for f in o.__struct_fields__ if f not in ("data", "structure")})}
    except Exception:
        pass
    return {"k": "leaf", "t": type(o).__name__, "r": repr(o)}


def diff(a, b, path=""):
    """-> list of (path, aspect, before, after); aspects: cols, added_col, values, cols_identity, dict_keys, other, identity"""
    out = []
    if a["k"] != b["k"]:
        return [(path, "other", a["k"], b["k"])]
    if a["k"] == "df":
        if a["cols"] != b["cols"]:
            if len(b["cols"]) > len(a["cols"]) and b["cols"][: len(a["cols"])] == a["cols"]:
                out.append((path, "added_col", a["cols"], b["cols"]))
            elif len(b["cols"]) == len(a["cols"]):
                out.append((path, "cols", a["cols"], b["cols"]))
            else:
                pre = [c.replace("\\ufeff", "").replace(BOM, "") for c in a["cols"]]
                if len(b["cols"]) > len(a["cols"]) and b["cols"][: len(a["cols"])] == pre:
                    out.append((path, "cols", a["cols"], b["cols"][: len(a["cols"])]))
                    out.append((path, "added_col", a["cols"], b["cols"]))
                else:
                    out.append((path, "other", a["cols"], b["cols"]))
        elif a["cols_id"] != b["cols_id"]:
            out.append((path, "cols_identity", None, None))
        n = len(a["cols"])
        va = [r[:n] for r in a["values"]]
        vb = [r[:n] for r in b["values"]]
        if va != vb or a["dtypes"][:n] != b["dtypes"][:n]:
            out.append((path, "values", {"dtypes": a["dtypes"], "values": a["values"][:4]}, {"dtypes": b["dtypes"], "values": b["values"][:4]}))
        for f in ("index", "index_name", "cols_name", "attrs"):
            if a[f] != b[f]:
                out.append((path, "other", {f: a[f]}, {f: b[f]}))
        if a["id"] != b["id"]:
            out.append((path, "other", "object identity", "changed"))
        return out
    if a["k"] in ("dict", "list", "tuple"):
        ka = [x[0] for x in a["items"]] if a["k"] == "dict" else list(range(len(a["items"])))
        kb = [x[0] for x in b["items"]] if b["k"] == "dict" else list(range(len(b["items"])))
        if ka != kb:
            out.append((path, "dict_keys" if a["k"] == "dict" else "other", ka, kb))
        va = dict(zip(map(str, ka), [x[1] if a["k"] == "dict" else x for x in a["items"]]))
        vb = dict(zip(map(str, kb), [x[1] if b["k"] == "dict" else x for x in b["items"]]))
        for k in va:
            if k in vb:
                sub = diff(va[k], vb[k], f"{path}[{k}]")
                # a rebound value that is another object (even with equal content) is a modification of THIS container
                if va[k].get("id") is not None and vb[k].get("id") is not None and va[k]["id"] != vb[k]["id"]:
                    out.append((path, "dict_keys" if a["k"] == "dict" else "other", f"value at {k} rebound", None))
                out += sub
        return out
    if a["k"] == "pds":
        out += diff(a["data"], b["data"], path + ".data")
        if a["structure"] != b["structure"] or a["rest"] != b["rest"]:
            out.append((path, "other", a["structure"][:80], b["structure"][:80]))
        return out
    if a != b:
        out.append((path, "other", a.get("r"), b.get("r")))
    return out


# ------------------------------------------------------------------------------------------------- call recipes
COMPS = [("Id_1", "Integer", "Identifier", False), ("Me_1", "Number", "Measure", True), ("Me_2", "String", "Measure", True),
         ("At_1", "Integer", "Attribute", True)]


SPELL_FEATURES = ["nullable_omitted", "nullable_given", "type_key", "data_type_key", "description_key", "viral_spelling_1", "viral_spelling_2",
                  "inline_form", "ref_form", "dataset_extras", "scalar_data_type_key", "scalar_nullable_given"]


def structs_for(names, scalars=False, rng=None, allow_viral=False, spell=None):
    """VTL JSON structures for `names` (all with COMPS).  With an rng the structure is written in one of the ACCEPTED SPELLINGS:
    optional keys omitted (`nullable` -- the loader defaults it from the role --, `description`), `type` vs `data_type`,
    the two spellings of the viral-attribute role, the inline `DataStructure` list vs the `structures` + `datasets[].structure`
    referencing form, optional dataset keys.  The omitted defaults equal the values of COMPS, so the meaning is unchanged."""
    import engine
    if rng is None:
        d = engine.structures(*[engine.ds_struct(n, COMPS) for n in names])
        if scalars:
            d["scalars"] = [{"name": "sc_in", "type": "Integer"}]
        return d
    spell = spell if spell is not None else []

    def comp(n, t, r, nl):
        c = {"name": n}
        if rng.random() < 0.5:
            c["type"] = t
            spell.append("type_key")
        else:
            c["data_type"] = t
            spell.append("data_type_key")
        if allow_viral and r == "Attribute" and rng.random() < 0.5:
            r = rng.choice(["Viral Attribute", "ViralAttribute"])
            spell.append("viral_spelling_1" if r == "Viral Attribute" else "viral_spelling_2")
        c["role"] = r
        if rng.random() < 0.6:
            spell.append("nullable_omitted")
        else:
            c["nullable"] = nl
            spell.append("nullable_given")
        if rng.random() < 0.2:
            c["description"] = "a component"
            spell.append("description_key")
        return c

    def dataset_extras(dj):
        if rng.random() < 0.25:
            dj["description"] = "a dataset"
            dj["source"] = "somewhere"
            spell.append("dataset_extras")
        return dj

    if rng.random() < 0.35:
        spell.append("ref_form")
        d = {"structures": [{"name": "STR_1", "components": [comp(*c) for c in COMPS]}],
             "datasets": [dataset_extras({"name": n, "structure": "STR_1"}) for n in names]}
    else:
        spell.append("inline_form")
        d = {"datasets": [dataset_extras({"name": n, "DataStructure": [comp(*c) for c in COMPS]}) for n in names]}
    if scalars:
        sc = {"name": "sc_in"}
        if rng.random() < 0.5:
            sc["type"] = "Integer"
        else:
            sc["data_type"] = "Integer"
            spell.append("scalar_data_type_key")
        if rng.random() < 0.3:
            sc["nullable"] = True
            spell.append("scalar_nullable_given")
        d["scalars"] = [sc]
    return d


STRUCT_CONTAINERS = ["dict", "dict", "list1", "list_split", "file", "str_file", "list_file"]
LIB_CONTAINERS = ["dict", "dict", "list", "file"]


def frame_spec(rng, cls, fail):
    """cls = (bom, missing, emptystr); fail in STOP or None.  Returns a JSON-able description of the frame."""
    bom, missing, emptystr = cls
    n = rng.randint(2, 4)
    cols = {"Id_1": list(range(1, n + 1)), "Me_1": [round(rng.uniform(-9, 9), 1) for _ in range(n)],
            "Me_2": [rng.choice(["a", "b", "c d"]) for _ in range(n)], "At_1": [rng.randint(0, 5) for _ in range(n)]}
    if emptystr:
        cols["Me_1"] = [str(v) for v in cols["Me_1"]]
        cols["Me_1"][0] = ""
    if fail == "badtype":
        cols["At_1"] = ["x"] + [str(v) for v in cols["At_1"][1:]]
    if fail == "dups":
        cols["Id_1"][1] = cols["Id_1"][0]
    if fail == "nullid":
        cols["Id_1"] = [None] + cols["Id_1"][1:]
    if missing:
        del cols["Me_2"]
    if fail == "miss_nonnull":
        del cols["Id_1"]
    if fail == "extra":
        cols["Zz_9"] = [0] * n
    items = [[k, v] for k, v in cols.items()]
    if bom:
        items[0][0] = BOM + items[0][0]
    index = [10 * (i + 1) for i in range(n)] if rng.random() < 0.3 else None  # a non-default index must survive too
    return {"cols": items, "index": index}


def df_from_spec(spec):
    pd = K16.eng()["pd"]
    df = pd.DataFrame({k: v for k, v in spec["cols"]})
    if spec.get("index") is not None:
        df.index = spec["index"]
    return df


def make_df(rng, cls, fail):
    return df_from_spec(frame_spec(rng, cls, fail))


def gen_calls(rng, n_validate, n_run, n_other, n_lib=0):
    """Each call: dict(api, args(kwargs), kinds {argname: kind}, model (skeleton expr, nc, k) or None, label)."""
    calls = []
    classes = [(b, m, e) for b in (False, True) for m in (False, True) for e in (False, True)]
    fails = [None, None, "miss_nonnull", "extra", "nullid", "badtype", "dups"]
    # --- validate_dataset, one and two frames, all 8 classes x all stop positions first, then random
    combos = [(c, f) for c in classes for f in [None] + list(STOP)]
    rng.shuffle(combos)
    for i in range(n_validate):
        two = i >= len(combos) or rng.random() < 0.25
        c0, f0 = combos[i % len(combos)]
        if two:
            c1, f1 = rng.choice(classes), rng.choice(fails)
            dfs = [("DS_1", c0, None), ("DS_2", c1, f1)] if rng.random() < 0.7 else [("DS_1", c0, f0), ("DS_2", c1, f1)]
        else:
            dfs = [("DS_1", c0, f0)]
        calls.append(validate_call(rng, dfs))
    # invalid shapes of the other arguments
    for kind in ("dp_unknown_name", "dp_mixed", "dp_int", "structs_badtype", "structs_nodatastructure", "scalars_bad", "scalars_ok", "dp_none",
                 "dp_paths"):
        calls.append(validate_call(rng, [("DS_1", (True, True, False), None)], odd=kind))
    # --- run
    scripts_ok = ["DS_r <- DS_1 [calc Me_3 := Me_1 * 2];", "DS_r <- DS_1 [filter Id_1 > 1]; DS_s <- DS_r [keep Me_1];",
                  "DS_r <- DS_1 [calc Me_3 := Me_1 + sc_in];"]
    scripts_bad = [("syntax", "DS_r <- DS_1 [calc Me_3 := ;"), ("semantic", "DS_r <- DS_1 [calc Me_3 := Me_9 * 2];"),
                   ("unknown_ds", "DS_r <- DS_7 * 2;")]
    for i in range(n_run):
        c0, f0 = combos[(i * 5) % len(combos)]
        if f0 == "miss_nonnull" and rng.random() < 0.5:
            f0 = None
        bad = scripts_bad[i % len(scripts_bad)] if i % 4 == 3 else None
        calls.append(run_call(rng, [("DS_1", c0, f0)], scripts_ok[i % 2] if not bad else bad[1], label_extra=bad[0] if bad else "",
                              with_extras=(i % 3 == 0), out=(i % 5 == 4)))
    calls.append(run_call(rng, [("DS_1", (False, False, False), None), ("DS_2", (True, True, False), "dups")],
                          "DS_r <- DS_1 [calc Me_3 := Me_1 * 2]; DS_q <- DS_2 [keep Me_1];", with_extras=True))
    calls.append(run_call(rng, [("DS_1", (True, False, False), None)], scripts_ok[2], scalars={"sc_in": 3}, with_scalar_struct=True))
    calls.append(run_call(rng, [("DS_1", (True, False, False), None)], scripts_ok[2], scalars={"sc_in": "zz", "nope": 1}, with_scalar_struct=True))
    calls.append(run_call(rng, [("DS_1", (False, True, False), None)], scripts_ok[0], odd="structs_badtype"))
    calls.append(run_call(rng, [("DS_1", (False, True, False), None)], scripts_ok[0], odd="dp_unknown_name"))
    calls.append(run_call(rng, [("DS_1", (False, True, False), None)], scripts_ok[0], odd="vd_bad"))
    calls.append(run_call(rng, [("DS_1", (False, True, False), None)], scripts_ok[0], odd="structs_list"))
    # --- semantic_analysis / prettify / generate_sdmx / run_sdmx
    for i in range(n_other):
        s = scripts_ok[i % 2] if i % 3 else scripts_bad[i % len(scripts_bad)][1]
        calls.append(other_call(rng, "semantic_analysis", s, i))
        calls.append(other_call(rng, "prettify", s, i))
        calls.append(other_call(rng, "generate_sdmx", s, i))
        calls.append(other_call(rng, "run_sdmx", s, i))
    calls += lib_calls(rng, n_lib)
    return calls


VD = {"name": "VD_1", "type": "Integer", "setlist": [1, 2, 3]}
ER = {"name": "SQL_1", "query": "SELECT Id_1, Me_1 FROM DS_1"}


def cls_coq(c):
    return f"(mkDf {common.coq_bool(c[0])} {common.coq_bool(c[1])} {common.coq_bool(c[2])})"


def stop_k(dfs):
    """number of skeleton operations executed before validate_dataset raises (or a large number on success)"""
    for j, (_, c, f) in enumerate(dfs):
        if f is not None:
            pos = STOP[f]
            if f == "miss_nonnull":
                pos = 3
            return PRELUDE + BLOCK_LEN * j + pos
    return 10_000


def validate_call(rng, dfs, odd=None):
    names = [d[0] for d in dfs]
    spell = []
    plain_spelling = odd in ("structs_badtype", "structs_nodatastructure")
    structs = structs_for(names, scalars=odd in ("scalars_bad", "scalars_ok") or (odd is None and rng.random() < 0.3),
                          rng=None if plain_spelling else rng, allow_viral=True, spell=spell)
    container = "dict" if plain_spelling else rng.choice(STRUCT_CONTAINERS)
    frames = {nm: frame_spec(rng, c, f) for nm, c, f in dfs}
    sv = None
    dp_mode = "frames"
    model = ("validate_impl", [c for _, c, _ in dfs], stop_k(dfs))
    if odd == "dp_unknown_name":
        dp_mode = "unknown_name"
        model = ("validate_impl", [dfs[0][1]], PRELUDE)
    elif odd == "dp_mixed":
        dp_mode = "mixed"
        model = ("validate_impl", [dfs[0][1]], PRELUDE)
    elif odd == "dp_int":
        dp_mode = "int"
        model = None
    elif odd == "structs_badtype":
        structs["datasets"][0]["DataStructure"][1]["type"] = "Floating"
        model = ("validate_impl", [dfs[0][1]], 2)
    elif odd == "structs_nodatastructure":
        del structs["datasets"][0]["DataStructure"]
        model = ("validate_impl", [dfs[0][1]], 2)
    elif odd == "scalars_bad":
        sv = {"sc_in": "not a number", "zz": 1}
    elif odd == "scalars_ok":
        sv = {"sc_in": 4}
    elif odd == "dp_none":
        dp_mode = "none"
        model = None
    elif odd == "dp_paths":
        dp_mode = "paths"
        model = None
    label = "validate_dataset:" + "+".join(f"{''.join('BME'[i] for i in range(3) if c[i]) or 'plain'}/{f or 'ok'}" for _, c, f in dfs) + (":" + odd if odd else "")
    return {"api": "validate_dataset", "args": {"data_structures": structs, "scalar_values": sv}, "frames": frames, "dp_mode": dp_mode,
            "model": model, "label": label, "odd": odd, "dfs": [[nm, list(c), f] for nm, c, f in dfs], "spell": spell,
            "structs_container": container}


def run_call(rng, dfs, script, label_extra="", with_extras=False, out=False, scalars=None, with_scalar_struct=False, odd=None):
    names = [d[0] for d in dfs]
    spell = []
    plain_spelling = odd in ("structs_badtype", "structs_list")
    structs = structs_for(names, scalars=with_scalar_struct or (odd is None and rng.random() < 0.3), rng=None if plain_spelling else rng, spell=spell)
    container = "dict" if plain_spelling else rng.choice(STRUCT_CONTAINERS)
    frames = {nm: frame_spec(rng, c, f) for nm, c, f in dfs}
    args = {"script": script, "data_structures": structs}
    dp_mode = "frames"
    if with_extras:
        args["value_domains"] = copy.deepcopy(VD)
        args["external_routines"] = copy.deepcopy(ER)
    if scalars is not None:
        args["scalar_values"] = scalars
    if odd == "structs_badtype":
        structs["datasets"][0]["DataStructure"][0]["role"] = "Identifierr"
    elif odd == "dp_unknown_name":
        dp_mode = "unknown_name"
    elif odd == "vd_bad":
        args["value_domains"] = {"name": "VD_1", "type": "Integer", "setlist": [1, 1]}
    elif odd == "structs_list":
        args["data_structures"] = [structs]
    label = "run:" + "+".join(f"{''.join('BME'[i] for i in range(3) if c[i]) or 'plain'}/{f or 'ok'}" for _, c, f in dfs) + \
            (":" + label_extra if label_extra else "") + (":" + odd if odd else "") + (":out" if out else "")
    return {"api": "run", "args": args, "frames": frames, "dp_mode": dp_mode, "model": ("run_impl_o false", [c for _, c, _ in dfs], 10_000),
            "label": label, "out": out, "odd": odd, "dfs": [[nm, list(c), f] for nm, c, f in dfs], "spell": spell,
            "structs_container": container, "lib_container": rng.choice(LIB_CONTAINERS) if with_extras else "dict"}


def other_call(rng, api, script, i):
    if api == "semantic_analysis":
        spell = []
        structs = structs_for(["DS_1"], rng=rng, spell=spell)
        args = {"script": script, "data_structures": structs}
        container = rng.choice(STRUCT_CONTAINERS)
        if i % 2 == 0:
            args["value_domains"] = copy.deepcopy(VD)
            args["external_routines"] = copy.deepcopy(ER)
        if i % 5 == 4:
            args["data_structures"] = [structs, {"datasets": [{"name": "DS_1"}]}]
            container = "dict"
        return {"api": api, "args": args, "model": ("semantic_o", None, 10_000), "label": f"semantic_analysis:{i}", "spell": spell,
                "structs_container": container, "lib_container": rng.choice(LIB_CONTAINERS)}
    if api == "prettify":
        return {"api": api, "args": {"script": script if i % 4 else 12345}, "model": ("prettify_o", None, 10_000), "label": f"prettify:{i}", "ts": i % 4 == 2}
    if api == "generate_sdmx":
        return {"api": api, "args": {"script": script, "agency_id": "MD", "id": "X"}, "model": ("generate_sdmx_o", None, 10_000), "label": f"generate_sdmx:{i}"}
    cls = [(False, False, False), (True, False, False), (False, True, False)][i % 3]
    fail = [None, "dups", None, "extra"][i % 4]
    return {"api": "run_sdmx", "args": {"script": script if i % 3 else "DS_r <- DS_1 [calc Me_3 := Me_1 * 2];"},
            "sdmx": {"frame": frame_spec(rng, cls, fail), "with_mapping": i % 2 == 0},
            "model": ("run_sdmx_o", [cls], 10_000), "label": f"run_sdmx:{i}"}


VD_VARIANTS = [("ok", {"name": "VD_1", "type": "Integer", "setlist": [1, 2, 3]}), ("ok_str", {"name": "VD_2", "type": "String", "setlist": ["a", "b"]}),
               ("missing_setlist", {"name": "VD_1", "type": "Integer"}), ("dup_values", {"name": "VD_1", "type": "Integer", "setlist": [1, 1]}),
               ("bad_type", {"name": "VD_1", "type": "Floating", "setlist": [1]}), ("wrong_items", {"name": "VD_1", "type": "String", "setlist": [1, 2]}),
               ("extra_key", {"name": "VD_1", "type": "Integer", "setlist": [1], "zz": 0}), ("not_a_dict", 5)]
ER_VARIANTS = [("ok", {"name": "SQL_1", "query": "SELECT Id_1, Me_1 FROM DS_1"}), ("ok_join", {"name": "SQL_2", "query": "SELECT a.Id_1 FROM DS_1 a JOIN DS_2 b ON a.Id_1 = b.Id_1"}),
               ("missing_query", {"name": "SQL_1"}), ("bad_sql", {"name": "SQL_1", "query": "SELEC FROM WHERE ((("}),
               ("extra_key", {"name": "SQL_1", "query": "SELECT 1", "zz": 0}), ("not_a_dict", "SELECT 1")]
AST_TEXTS = ["DS_r <- DS_1 * 2;", "DS_r := DS_1 [calc Me_3 := Me_1 + 1]; DS_s <- DS_r;", "DS_r <- DS_1 [calc Me_3 := ;", "", "define operator f (x integer) returns integer is x + 1 end operator;"]


def lib_calls(rng, n):
    calls = []
    for i in range(n):
        tag, v = VD_VARIANTS[i % len(VD_VARIANTS)]
        cont = "dict" if not isinstance(v, dict) else LIB_CONTAINERS[(i // len(VD_VARIANTS)) % len(LIB_CONTAINERS)]
        calls.append({"api": "validate_value_domain", "args": {"input": copy.deepcopy(v)}, "lib_container": cont,
                      "model": ("validate_vd_o", None, 10_000), "label": f"validate_value_domain:{tag}:{cont}"})
        tag, v = ER_VARIANTS[i % len(ER_VARIANTS)]
        cont = "dict" if not isinstance(v, dict) else LIB_CONTAINERS[(i // len(ER_VARIANTS)) % len(LIB_CONTAINERS)]
        calls.append({"api": "validate_external_routine", "args": {"input": copy.deepcopy(v)}, "lib_container": cont,
                      "model": ("validate_er_o", None, 10_000), "label": f"validate_external_routine:{tag}:{cont}"})
        calls.append({"api": "create_ast", "args": {"text": AST_TEXTS[i % len(AST_TEXTS)]}, "model": ("create_ast_o", None, 10_000),
                      "label": f"create_ast:{i % len(AST_TEXTS)}"})
    return calls


def contain_structs(ds, cont, work: Path):
    """the caller-side object in which the structures are handed over"""
    if not isinstance(ds, dict) or cont == "dict":
        return ds
    if cont == "list1":
        return [ds]
    if cont == "list_split":
        if "structures" in ds:
            return [ds]
        parts = [{"datasets": [d]} for d in ds.get("datasets", [])]
        if ds.get("scalars"):
            parts.append({"scalars": ds["scalars"]})
        return parts
    p = work / "structs.json"
    p.write_text(json.dumps(ds))
    return {"file": p, "str_file": str(p), "list_file": [p]}[cont]


def contain_lib(v, cont, work: Path, stem):
    if not isinstance(v, dict) or cont == "dict":
        return v
    if cont == "list":
        other = dict(v, name=v.get("name", "X") + "_b")
        return [v, other]
    p = work / f"{stem}.json"
    p.write_text(json.dumps(v))
    return p


def file_digests(args):
    import hashlib
    out = {}

    def walk(o):
        if isinstance(o, Path) and o.is_file():
            out[str(o)] = hashlib.sha1(o.read_bytes()).hexdigest()
        elif isinstance(o, str) and len(o) < 300 and o.endswith(".json") and os.path.isfile(o):
            out[o] = hashlib.sha1(Path(o).read_bytes()).hexdigest()
        elif isinstance(o, dict):
            for v in o.values():
                walk(v)
        elif isinstance(o, (list, tuple)):
            for v in o:
                walk(v)
    walk(args)
    return out


def deep_copy_of(o):
    try:
        return True, copy.deepcopy(o)
    except Exception:
        return False, None


def deep_equal(a, b):
    """the caller object against the deep copy taken before the call (independent of snap/diff)"""
    pd = K16.eng()["pd"]
    if isinstance(a, pd.DataFrame) or isinstance(b, pd.DataFrame):
        return (isinstance(a, pd.DataFrame) and isinstance(b, pd.DataFrame) and list(a.columns) == list(b.columns)
                and a.index.equals(b.index) and [str(t) for t in a.dtypes] == [str(t) for t in b.dtypes] and a.equals(b)
                and a.attrs == b.attrs)
    if type(a) is not type(b):
        return False
    if isinstance(a, dict):
        return list(a.keys()) == list(b.keys()) and all(deep_equal(a[k], b[k]) for k in a)
    if isinstance(a, (list, tuple)):
        return len(a) == len(b) and all(deep_equal(x, y) for x, y in zip(a, b))
    if hasattr(a, "__struct_fields__"):
        return all(deep_equal(getattr(a, f), getattr(b, f)) for f in a.__struct_fields__)
    try:
        r = a == b
        return bool(r) or (a != a and b != b)
    except Exception:
        return repr(a) == repr(b)


# ------------------------------------------------------------------------------------------------- executing
def build_sdmx(frame, with_mapping):
    from pysdmx.io.pd import PandasDataset
    from pysdmx.model import Component, Components, Concept, DataType, Role
    from pysdmx.model.dataflow import Schema
    comps = Components([
        Component(id="Id_1", required=True, role=Role.DIMENSION, concept=Concept(id="Id_1"), local_dtype=DataType.INTEGER),
        Component(id="Me_1", required=False, role=Role.MEASURE, concept=Concept(id="Me_1"), local_dtype=DataType.DOUBLE),
        Component(id="Me_2", required=False, role=Role.MEASURE, concept=Concept(id="Me_2"), local_dtype=DataType.STRING),
        Component(id="At_1", required=False, role=Role.ATTRIBUTE, concept=Concept(id="At_1"), local_dtype=DataType.INTEGER,
                  attachment_level="O")])
    sch = Schema(context="datastructure", agency="MD", id="TEST", components=comps, version="1.0", artefacts=[])
    df = df_from_spec(frame)
    datasets = [PandasDataset(structure=sch, data=df)]
    mappings = {sch.short_urn: "DS_1"} if with_mapping else None
    return datasets, mappings


def arg_objects(call, args):
    """the caller objects in the order of Model/Ownership.v: 5 fixed slots then the DataFrames"""
    objs = [args.get(a) for a in ARG_ORDER]
    dfs = []
    dp = args.get("datapoints")
    if isinstance(dp, dict):
        dfs = [v for v in dp.values() if hasattr(v, "columns")]
    if call["api"] == "run_sdmx":
        objs[1] = args.get("datasets")
        dfs = [d.data for d in args.get("datasets", [])]
    if call["api"] == "validate_value_domain":
        objs[3] = args.get("input")
    if call["api"] == "validate_external_routine":
        objs[4] = args.get("input")
    return objs, dfs


def execute(call, rng, work: Path):
    E = K16.eng()
    vtl = E["vtl"]
    args = copy.deepcopy(call["args"])  # the recorded call stays pristine (it is what a replay stores)
    if "data_structures" in args:
        args["data_structures"] = contain_structs(args["data_structures"], call.get("structs_container", "dict"), work)
    lc = call.get("lib_container", "dict")
    if args.get("value_domains") is not None:
        args["value_domains"] = contain_lib(args["value_domains"], lc, work, "VD_1")
    if args.get("external_routines") is not None:
        args["external_routines"] = contain_lib(args["external_routines"], lc, work, "SQL_1")
    if call["api"] in ("validate_value_domain", "validate_external_routine"):
        args["input"] = contain_lib(args["input"], lc, work, "VD_1" if call["api"] == "validate_value_domain" else "SQL_1")
    if call.get("out"):
        args["output_folder"] = work / "out"
    if "frames" in call:
        dfs_built = {nm: df_from_spec(sp) for nm, sp in call["frames"].items()}
        mode = call.get("dp_mode", "frames")
        if mode == "frames":
            args["datapoints"] = dfs_built
        elif mode == "unknown_name":
            args["datapoints"] = {"DS_9": next(iter(dfs_built.values()))}
        elif mode == "mixed":
            args["datapoints"] = dict(dfs_built, DS_x="/nonexistent/file.csv")
        elif mode == "int":
            args["datapoints"] = {"DS_1": 5}
        elif mode == "none":
            args["datapoints"] = None
        elif mode == "paths":
            paths = {}
            for nm, df in dfs_built.items():
                p = work / f"{nm}.csv"
                df.to_csv(p, index=False)
                paths[nm] = p
            args["datapoints"] = paths
        elif mode == "csv_frames":
            args["datapoints"] = {nm: K16.eng()["pd"].read_csv(pth) for nm, pth in call["csv_paths"].items()}
    if call["api"] == "run_sdmx":
        datasets, mappings = build_sdmx(call["sdmx"]["frame"], call["sdmx"]["with_mapping"])
        args["datasets"] = datasets
        if mappings:
            args["mappings"] = mappings
    if call["api"] == "prettify" and call.get("ts"):
        try:
            args["script"] = vtl.generate_sdmx("DS_r <- DS_1 * 2;", "MD", "X")
        except Exception:
            pass
    extra_named = {k: v for k, v in args.items() if k not in ARG_ORDER and k not in ("datapoints", "datasets")}
    if call["api"] in ("validate_value_domain", "validate_external_routine"):
        extra_named.pop("input", None)
    objs, dfs = arg_objects(call, args)
    before = [snap(o) for o in objs] + [snap(d) for d in dfs] + [snap(extra_named)]
    copies = [deep_copy_of(o) for o in objs + dfs + [extra_named]]
    files_before = file_digests(args)
    K16.reset_globals()
    try:
        getattr(vtl, call["api"])(**args)
        outcome = ("ok", None)
    except SystemExit:
        raise
    except Exception as e:  # noqa
        outcome = (type(e).__name__, (e.args[1] if len(e.args) > 1 else None) or str(e)[:120])
    after = [snap(o) for o in objs] + [snap(d) for d in dfs] + [snap(extra_named)]
    files_after = file_digests(args)
    observed = []
    details = []
    for i, (a, b) in enumerate(zip(before, after)):
        d = diff(a, b)
        okc, cp = copies[i]
        if okc and not deep_equal((objs + dfs + [extra_named])[i], cp) and not any(TAG[x[1]] != 0 for x in d):
            d = d + [("", "other", "deep copy taken before the call", "differs from the object after the call")]
        if i == len(before) - 1 and files_before != files_after:
            d = d + [("", "other", {"files": files_before}, {"files": files_after})]
        ts = {TAG[x[1]] for x in d}
        if ts & {1, 2}:
            ts.add(0)  # new labels / a new column always come with a new columns Index object
        tags = sorted(ts, reverse=True)
        observed.append(tags)
        if d:
            details.append((i, d))
    shutil.rmtree(work / "out", ignore_errors=True)
    return outcome, observed, details, len(dfs)


def slot_name(i, call):
    if i < len(ARG_ORDER):
        return ARG_ORDER[i] if not (call["api"] == "run_sdmx" and i == 1) else "datasets"
    return "dataframe"


# ---------------------------------------------------------------------------------------------- secondary ast scan
MUTATORS = {"update", "append", "pop", "sort", "insert", "clear", "setdefault", "extend", "remove", "popitem", "drop_duplicates"}
FILES = ["API/__init__.py", "API/_InternalApi.py", "files/parser/__init__.py", "duckdb_transpiler/io/_io.py"]


def ast_scan():
    """In-place operations on names that alias a parameter (intra-procedural, flow-sensitive in source order; a name bound
    to a call result is no longer an alias).  Returns [(file, function, line, what)]."""
    sites = []
    for rel in FILES:
        tree = ast.parse((common.SRC / rel).read_text())
        for fn in ast.walk(tree):
            if not isinstance(fn, (ast.FunctionDef, ast.AsyncFunctionDef)):
                continue
            tainted = {a.arg for a in fn.args.args + fn.args.kwonlyargs}

            def base(e):
                while isinstance(e, (ast.Subscript, ast.Attribute)):
                    e = e.value
                return e.id if isinstance(e, ast.Name) else None

            def is_alias_expr(e):
                if isinstance(e, ast.Name):
                    return e.id in tainted
                if isinstance(e, (ast.Subscript, ast.Attribute)):
                    return base(e) in tainted
                return False

            body_nodes = sorted((n for n in ast.walk(fn) if hasattr(n, "lineno") and n is not fn), key=lambda n: (n.lineno, n.col_offset))
            for n in body_nodes:
                if isinstance(n, (ast.Assign, ast.AugAssign, ast.AnnAssign)):
                    targets = n.targets if isinstance(n, ast.Assign) else [n.target]
                    for t in targets:
                        if isinstance(t, (ast.Subscript, ast.Attribute)) and base(t) in tainted:
                            sites.append((rel, fn.name, n.lineno, ast.unparse(t) + " = ..."))
                        elif isinstance(t, ast.Name):
                            val = getattr(n, "value", None)
                            if val is not None and is_alias_expr(val):
                                tainted.add(t.id)
                            elif isinstance(n, ast.Assign):
                                tainted.discard(t.id)
                elif isinstance(n, ast.Delete):
                    for t in n.targets:
                        if isinstance(t, ast.Subscript) and base(t) in tainted:
                            sites.append((rel, fn.name, n.lineno, "del " + ast.unparse(t)))
                elif isinstance(n, ast.For):
                    if is_alias_expr(n.iter) or (isinstance(n.iter, ast.Call) and isinstance(n.iter.func, ast.Attribute)
                                                 and n.iter.func.attr in ("items", "values") and is_alias_expr(n.iter.func.value)):
                        for t in ast.walk(n.target):
                            if isinstance(t, ast.Name):
                                tainted.add(t.id)
                elif isinstance(n, ast.Call) and isinstance(n.func, ast.Attribute) and base(n.func.value) in tainted:
                    inplace = any(k.arg == "inplace" and isinstance(k.value, ast.Constant) and k.value.value is True for k in n.keywords)
                    if inplace or n.func.attr in MUTATORS:
                        sites.append((rel, fn.name, n.lineno, ast.unparse(n.func) + ("(inplace=True)" if inplace else "(...)")))
    return sites


# in-place writes that reach a caller object according to Model/Ownership.v (only run()'s URL branch, model-only)
MODEL_SITES = [("API/__init__.py", "run", "datapoints[url_name] = ..."), ("API/__init__.py", "run", "del datapoints[url_name]")]
# functions whose skeleton has NO write to a caller object although they receive one
MODEL_CLEAN_FUNCS = [("files/parser/__init__.py", "_validate_pandas"), ("duckdb_transpiler/io/_io.py", "register_dataframes"),
                     ("duckdb_transpiler/io/_io.py", "extract_datapoint_paths")] + \
                    [("API/_InternalApi.py", f) for f in ("_build_component", "_extract_data_type", "_resolve_components", "_load_dataset_from_structure",
                                                          "_load_datastructure_single", "load_datasets", "load_value_domains", "load_external_routines",
                                                          "_validate_json", "load_datasets_with_data", "_load_datapoints_path")]


# --------------------------------------------------------------------------------------------------------- run
def key_of(api, slot, tag):
    return f"mutates:{api}:{slot}-{TAG_NAME[tag]}"


def run(ctx):
    t0 = time.time()
    E = K16.eng()
    ctx.prove("C22")
    quick = ctx.tier == "quick"
    n_validate, n_run, n_other, n_corpus, n_lib = (160, 80, 24, 12, 24) if quick else (600, 300, 80, 80, 96)
    rng = ctx.rng
    ctx.cov["rule"] = ("every generated call (all 8 DataFrame classes x every stop position of validate_dataset first, then random; invalid "
                       "structures / names / types / scripts) x deep snapshot of every argument; distinct = (api, input label)")
    calls = gen_calls(rng, n_validate, n_run, n_other, n_lib)
    work = Path(tempfile.mkdtemp(prefix="c22_"))
    try:
        _run(ctx, E, calls, n_corpus, rng, work)
    finally:
        K16.reset_globals()
        shutil.rmtree(work, ignore_errors=True)
    ctx.cov["wall_tie_s"] = round(time.time() - t0, 1)
    ctx.trusted.append("the hand-written ownership skeletons of Model/Ownership.v (tied only by K: per input class and stop position the "
                       "set of modified aspects of every argument); the snapshot code of harness/props/c22.py (repr of every cell, label, "
                       "dtype, index; identities of frames, Index objects and containers)")
    ctx.assumptions.append("aliasing inside pandas / duckdb internals is not modelled (a view sharing memory with the caller's frame would only be "
                           "seen by the snapshots); run() with URL datapoints cannot be executed offline: that branch is model-only "
                           "(C22_run_url_refuted)")
    ctx.assumptions.append("replacing the columns Index object by an equal one (data.columns = same labels) is recorded and tie-compared but "
                           "not counted as a modification of the argument (labels, dtypes, values, index unchanged)")


def _run(ctx, E, calls, n_corpus, rng, work):
    # corpus calls: run() and semantic_analysis() on repo scripts with DataFrames read from the repo's CSV files
    cands = K16.corpus_candidates()
    rng.shuffle(cands)
    n_c = 0
    for vtl, js, cs in cands:
        if n_c >= n_corpus:
            break
        cc = K16.corpus_case(vtl, js, cs)
        if cc is None:
            continue
        try:
            for v in cc["paths"].values():
                E["pd"].read_csv(v)
        except Exception:
            continue
        n_c += 1
        calls.append({"api": "run", "args": {"script": cc["script"], "data_structures": cc["structs"]}, "dp_mode": "csv_frames", "frames": {},
                      "csv_paths": cc["paths"], "model": ("run_impl_o false", [(False, False, False)] * len(cc["paths"]), 10_000),
                      "label": "run:" + cc["id"], "corpus": True})
        calls.append({"api": "semantic_analysis", "args": {"script": cc["script"], "data_structures": copy.deepcopy(cc["structs"])},
                      "model": ("semantic_o", None, 10_000), "label": "semantic_analysis:" + cc["id"], "corpus": True})
    # model predictions
    exprs, idx = [], []
    for ci, call in enumerate(calls):
        m = call["model"]
        if m is None:
            continue
        skel, cs, k = m
        if cs is None:
            nc = 5
            term = skel
        else:
            nc = 5 + len(cs)
            term = f"({skel} {common.coq_list([cls_coq(c) for c in cs])})"
        exprs.append(f"caller_view {nc} (run_prefix {k} {term} (oinit {nc}))")
        idx.append(ci)
    vals = common.coq_eval(COQ_HEADER, exprs, "c22")
    pred = dict(zip(idx, vals))
    hist = {"calls": 0, "by_api": {}, "outcomes": {}, "content_mutations": 0, "identity_only": 0, "tie_compared": 0, "tie_disagree": 0,
            "spellings": {}, "spellings_in_successful_calls": {}, "structs_containers": {}, "lib_containers": {}}
    tie_bad = []
    verdicts = {}
    for ci, call in enumerate(calls):
        outcome, observed, details, ndf = execute(call, rng, work)
        hist["calls"] += 1
        hist["by_api"][call["api"]] = hist["by_api"].get(call["api"], 0) + 1
        ok_key = "ok" if outcome[0] == "ok" else f"{outcome[0]}:{outcome[1]}"[:40]
        hist["outcomes"][ok_key] = hist["outcomes"].get(ok_key, 0) + 1
        ctx.count((call["api"], call["label"], call.get("structs_container"), tuple(sorted(set(call.get("spell", []))))))
        for f in set(call.get("spell", [])):
            hist["spellings"][f] = hist["spellings"].get(f, 0) + 1
            if outcome[0] == "ok":
                hist["spellings_in_successful_calls"][f] = hist["spellings_in_successful_calls"].get(f, 0) + 1
        if "structs_container" in call:
            c = call["structs_container"]
            hist["structs_containers"][c] = hist["structs_containers"].get(c, 0) + 1
        if call.get("lib_container"):
            c = call["lib_container"]
            hist["lib_containers"][c] = hist["lib_containers"].get(c, 0) + 1
        # ---- the property itself
        for i, d in details:
            slot = slot_name(i, call) if i < len(observed) - 1 else "other-arguments"
            for path, aspect, b, a in d:
                t = TAG[aspect]
                if t == 0:
                    hist["identity_only"] += 1
                    continue
                hist["content_mutations"] += 1
                verdicts.setdefault((call["api"], slot, TAG_NAME[t]), 0)
                verdicts[(call["api"], slot, TAG_NAME[t])] += 1
                if verdicts[(call["api"], slot, TAG_NAME[t])] > 1:
                    continue  # one violation (the first input found) per (api, argument, aspect); the count is in the evidence
                ctx.violation(key_of(call["api"], slot, t),
                              f"{call['api']}() modifies the caller's {slot} ({TAG_NAME[t]}): {json.dumps(b, default=str)[:160]} -> "
                              f"{json.dumps(a, default=str)[:160]}; call {call['label']} ended with {outcome}",
                              {"call": json.loads(json.dumps({k: v for k, v in call.items() if k != "model"}, default=str)),
                               "aspect": aspect, "before": b, "after": a, "outcome": outcome, "seed": ctx.seed})
        # ---- the tie: model's caller_view for this input class / stop position
        if ci in pred and call.get("odd") not in ("dp_paths",):
            p = [sorted(x, reverse=True) for x in pred[ci]]
            o = observed[:-1]
            o = o[:5] + o[5:5 + (len(p) - 5)]
            while len(o) < len(p):
                o.append([])
            hist["tie_compared"] += 1
            if o != p:
                hist["tie_disagree"] += 1
                tie_bad.append({"call": call["label"], "outcome": outcome, "observed": o, "model": p})
        if ci < 4:
            ctx.sample({"call": call["label"], "outcome": outcome, "observed_aspects_per_argument": observed})
    ctx.cov["histogram"] = hist
    ctx.cov["mutation_verdicts"] = {"/".join(k): v for k, v in verdicts.items()}
    ctx.oblige("tie: observed modified aspects per argument equal the ownership model's caller_view for the same input class and stop position",
               not tie_bad, json.dumps(tie_bad[:3], default=str))
    ctx.oblige("every API was exercised with succeeding and failing calls",
               all(hist["by_api"].get(a, 0) > 0 for a in ("run", "run_sdmx", "semantic_analysis", "validate_dataset", "prettify", "generate_sdmx",
                                                           "validate_value_domain", "validate_external_routine", "create_ast"))
               and hist["outcomes"].get("ok", 0) > 0 and len(hist["outcomes"]) > 3, json.dumps(hist["by_api"]))
    miss = [f for f in SPELL_FEATURES if hist["spellings_in_successful_calls"].get(f, 0) == 0]
    ctx.oblige("every accepted spelling of data_structures (optional keys omitted, type/data_type, role spellings, inline/ref form, dataset "
               "extras) occurred in at least one SUCCESSFUL call, and every container form (dict, list, split list, file, str path) was used",
               not miss and all(hist["structs_containers"].get(c, 0) > 0 for c in set(STRUCT_CONTAINERS))
               and all(hist["lib_containers"].get(c, 0) > 0 for c in set(LIB_CONTAINERS)),
               f"never successful: {miss}; containers {hist['structs_containers']} {hist['lib_containers']}")
    # ---- secondary ast scan
    try:
        sites = ast_scan()
        ctx.cov["ast_scan_sites"] = [f"{f}:{fn}:{ln}: {w}" for f, fn, ln, w in sites]
        missing = [m for m in MODEL_SITES if not any(f == m[0] and fn == m[1] and w == m[2] for f, fn, ln, w in sites)]
        unexpected = [f"{f}:{fn}:{ln}: {w}" for f, fn, ln, w in sites if (f, fn) in MODEL_CLEAN_FUNCS]
        ctx.cov["ast_scan_secondary"] = ("every Mutate-on-caller site of the model is listed by the scan and the scan lists none in "
                                         "the loaders the model holds clean (_validate_pandas, register_dataframes, structure / value-domain / routine loaders)" if not missing and not unexpected
                                         else f"secondary tie disagrees (never decides): model sites not found {missing}; "
                                              f"sites in functions the model holds clean {unexpected}")
    except Exception as e:
        ctx.cov["ast_scan_secondary"] = f"secondary tie unavailable: {type(e).__name__}: {e}"
    ctx.log(f"{hist['calls']} calls {hist['by_api']}; outcomes {len(hist['outcomes'])} kinds ({hist['outcomes'].get('ok', 0)} ok); content mutations "
            f"{hist['content_mutations']}, identity-only {hist['identity_only']}; tie compared {hist['tie_compared']}, disagreements {hist['tie_disagree']}; "
            f"ast scan: {ctx.cov.get('ast_scan_secondary')}")


# -------------------------------------------------------------------------------------------------------- replay
def replay(ctx, obj):
    import random
    K16.eng()
    call = obj.get("call")
    if not call:
        print("replay names a broken obligation only:", obj.get("what"))
        return 1
    call = dict(call, model=None)
    work = Path(tempfile.mkdtemp(prefix="c22rp_"))
    try:
        for nm, sp in (call.get("frames") or {}).items():
            df = df_from_spec(sp)
            print(f"argument datapoints[{nm!r}] before the call: columns={list(df.columns)!r}\n{df.to_string()}")
        outcome, observed, details, _ = execute(call, random.Random(1), work)
        print("call:", call["label"], "->", outcome)
        print("expected: every argument unchanged")
        bad = 0
        for i, d in details:
            for path, aspect, b, a in d:
                if TAG[aspect] != 0:
                    bad = 1
                print(f"observed: argument slot {slot_name(i, call)}{path}: {aspect}: {b} -> {a}")
        if not details:
            print("observed: unchanged")
        return bad
    finally:
        shutil.rmtree(work, ignore_errors=True)
