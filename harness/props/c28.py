"""C28 — viral attributes propagate according to the declared rule.
Proof: Props/C28.v over Model/Viral.v.  Tie K (harness/viralgen.py): generated scripts with 1-2 viral attributes and their
`define viral propagation` rules run on the real engine on TWO physical orders of the input datapoints and evaluated by
`vrun` inside Coq (the engine's sorted fold = the specification, and — as a regression witness — the physical-order fold the
engine used before repo commit 52984f5, on both orders); the predicate "same result whatever the order" is evaluated directly on
the engine's output.  A malformed stream checks the semantic errors 1-3-3-6 / -4 / -1 / -5."""
from __future__ import annotations

import collections
import hashlib
import json
import re
import time

import viralgen as G
from common import CORPUS, coq_eval

CDIR = CORPUS / "C28"


# ------------------------------------------------------------------ evaluation of a batch of cases
def evaluate(cases, pool, tag):
    """-> [(findings, engine results)] : engine on two orders (pool) + model (Coq), judged"""
    futs = [pool.ex.submit(G.run_orders, G.case_json(c)) for c in cases]
    exprs, idx = [], []
    for i, c in enumerate(cases):
        for a, _ in c["attrs"]:
            idx.append((i, a))
            exprs.append(G.model_expr(c, a))
    vals = coq_eval(G.HEADER, exprs, tag, shard=12)
    models = collections.defaultdict(dict)
    for (i, a), v in zip(idx, vals):
        models[i][a] = v
    out = []
    for i, c in enumerate(cases):
        eng = futs[i].result(timeout=3600)
        out.append((G.judge(c, eng, models[i]), eng, models[i]))
    return out


def third_order(case, finding, pool, models):
    """engine gave the same value on both orders but not the specification's (a regression to the physical-order fold?): run it on
    the canonical order of the attribute — under a physical-order fold it then produces the specification, i.e. two orders differ"""
    attr = finding["attr"]
    cj = G.case_json(case)
    cj["extra_orders"] = {"e3": G.canonical_order(case, attr)}
    eng = pool.ex.submit(G.run_orders, cj).result(timeout=600)
    types = dict(case["attrs"])
    spec = G.model_view(models[attr][0], attr, types)
    e1 = G.engine_view(eng["e1"], case, attr)
    e3 = G.engine_view(eng["e3"], case, attr)
    return (not G.same_view(e1, e3)), G.same_view(e3, spec), cj["extra_orders"]["e3"]


def order_safe(cases_attrs, tag):
    """enum_order_safe (Coq) of the rule of each (case, attr) over every value that can occur"""
    exprs = []
    for c, a in cases_attrs:
        types = dict(c["attrs"])
        t = types[a]
        r = [d for d in c["defs"] if d["target"] == a][0]["rule"]
        dom = G.ALPHA[t] + G.EXTRA[t] + [None]
        for vals, res in r["clauses"]:
            dom += [v for v in vals if v not in dom] + ([res] if res not in dom else [])
        if r["default"] not in dom:
            dom.append(r["default"])
        cls = G.rule_coq(r, t)  # (REnum cls d)
        exprs.append(f"(match {cls} with REnum cls d => enum_order_safe {G.coq_list([G.cval(v, t) for v in dom])} cls d | RAgg _ => true end)")
    return coq_eval(G.HEADER, exprs, tag, shard=50) if exprs else []


# ------------------------------------------------------------------ shrinking
def shrink(case, key, pool, budget=24):
    """greedy: drop rows, clauses, leading statements while a finding with the same key persists.  Order dependence, engine
    errors and missing columns are re-established on the engine alone (the property predicate); other keys through the model"""
    def bad(c):
        try:
            if key.startswith("enum-fold-order"):
                eng = pool.ex.submit(G.run_orders, c).result(timeout=600)
                return "e1" in eng and eng["e1"]["ok"] and eng["e2"]["ok"] and any(
                    not G.same_view(G.engine_view(eng["e1"], c, a), G.engine_view(eng["e2"], c, a)) for a, _ in c["attrs"])
            if key.startswith(("enum-nonstring", "viral-column-not-emitted", "engine-error")):
                eng = pool.ex.submit(G.run_orders, c).result(timeout=600)
                return "e1" in eng and not eng["e1"]["ok"] and any(f["key"] == key for f in G.judge(c, eng, {a: [("Ok", {"d_ids": [], "d_ms": [], "d_rows": []})] * 3 for a, _ in c["attrs"]}))
            if key.startswith("viral-column-missing"):
                eng = pool.ex.submit(G.run_orders, c).result(timeout=600)
                return "e1" in eng and eng["e1"]["ok"] and any(G.engine_view(eng["e1"], c, a)[0] == "missing-column" for a, _ in c["attrs"])
            (fs, _, _), = evaluate([c], pool, "c28_shr")
        except Exception:
            return False
        return any(f["key"] == key for f in fs)

    def fix_perm(c):
        c["perm2"] = {n: list(reversed(range(len(d["rows"])))) for n, d in c["inputs"].items()}
        return c

    cur = json.loads(json.dumps(G.case_json(case)))
    used = 0
    changed = True
    while changed and used < budget:
        changed = False
        # statements not needed by the result
        if len(cur["stmts"]) > 1:
            for i in range(len(cur["stmts"]) - 1):
                name = cur["stmts"][i][0]
                if not any(json.dumps(["var", name]) in json.dumps(t) for _, t in cur["stmts"][i + 1:]):
                    cand = json.loads(json.dumps(cur))
                    del cand["stmts"][i]
                    used += 1
                    if bad(cand):
                        cur, changed = cand, True
                        break
            if changed:
                continue
        for n in list(cur["inputs"]):
            rows = cur["inputs"][n]["rows"]
            for i in range(len(rows)):
                if used >= budget:
                    break
                cand = json.loads(json.dumps(cur))
                del cand["inputs"][n]["rows"][i]
                fix_perm(cand)
                used += 1
                if bad(cand):
                    cur, changed = cand, True
                    break
            if changed:
                break
        if changed:
            continue
        for d in cur["defs"]:
            r = d["rule"]
            if r["kind"] == "enum" and len(r["clauses"]) > 1 and used < budget:
                for i in range(len(r["clauses"])):
                    cand = json.loads(json.dumps(cur))
                    cd = [x for x in cand["defs"] if x["name"] == d["name"]][0]
                    del cd["rule"]["clauses"][i]
                    used += 1
                    if bad(cand):
                        cur, changed = cand, True
                        break
                if changed:
                    break
    return cur


def slug(key):
    return re.sub(r"[^A-Za-z0-9_.-]+", "_", key)[:70]


# ------------------------------------------------------------------ directed probes
WITNESS = ('define viral propagation W (variable VAt_1) is\n  when "A" and "B" then "C";\n  when "C" then "D";\n  else "E"\n'
           'end viral propagation;\n')


def probe_case(stmt_tree, rows, defs=None, attrs=None, extra_inputs=None):
    inputs = {"DS_1": {"ids": ["Id_1", "Id_2"], "viral": ["VAt_1"], "rows": rows}}
    inputs.update(extra_inputs or {})
    c = {"attrs": attrs or [["VAt_1", "String"]], "defs_last": False, "inputs": inputs,
         "defs": defs if defs is not None else [{"name": "W", "target": "VAt_1", "rule": {
             "kind": "enum", "clauses": [[["A", "B"], "C"], [["C"], "D"]], "default": "E", "else": True}}],
         "stmts": [["DS_r", stmt_tree]]}
    c["perm2"] = {n: list(reversed(range(len(d["rows"])))) for n, d in inputs.items()}
    c["hist"] = {}
    return c


def directed(ctx):
    rows = [[[1, 1], {"VAt_1": "A"}, 1], [[1, 2], {"VAt_1": "B"}, 2], [[1, 3], {"VAt_1": "C"}, 3], [[2, 1], {"VAt_1": None}, 4]]
    cases = [
        ("witness:aggregation", probe_case(["aggr", "sum", ["var", "DS_1"], "by", ["Id_1"], "fn"], rows)),
        ("witness:analytic", probe_case(["analytic", "sum", ["var", "DS_1"], ["Id_1"]], rows)),
        ("witness:aggr-clause", probe_case(["aggr", "sum", ["var", "DS_1"], "by", ["Id_1"], "clause"], rows)),
    ]
    # every statement shape with a viral attribute and NO rule must be rejected with 1-3-3-6
    for nm, t in [("assign", ["var", "DS_1"]), ("unary", ["un", "abs({X})", ["var", "DS_1"]]), ("keep", ["same", "{X}[keep Me_1]", ["var", "DS_1"]]),
                  ("binary", ["bin", "+", ["var", "DS_1"], ["var", "DS_1"]]), ("aggregation", ["aggr", "sum", ["var", "DS_1"], "by", ["Id_1"], "fn"]),
                  ("analytic", ["analytic", "sum", ["var", "DS_1"], ["Id_1"]]), ("filter", ["filter", ["var", "DS_1"], ["id", "Id_1", "=", 1]]),
                  ("union", ["set", "union", ["var", "DS_1"], ["var", "DS_1"]]), ("calc-viral", ["setviral", ["dropviral", ["var", "DS_1"], "VAt_1"], "VAt_1", "A"])]:
        cases.append(("no-rule:" + nm, probe_case(t, rows, defs=[])))
    return cases


def raw_probes(ctx):
    """operators outside the modelled expression language: the viral column must at least be present in the result data"""
    import pandas as pd
    import engine
    ds = engine.ds_struct("DS_1", [("Id_1", "Integer", "Identifier", False), ("Me_1", "Integer", "Measure", True), ("VAt_1", "String", "Viral Attribute", True)])
    df = pd.DataFrame({"Id_1": [1, 2, 3], "Me_1": [1, 2, 3], "VAt_1": ["A", None, "C"]})
    for name, stmt in [("check", "DS_r <- check(DS_1 > 1);"), ("membership", "DS_r <- DS_1#Me_1;")]:
        res = engine.run_case(WITNESS + stmt, engine.structures(ds), {"DS_1": df})
        ctx.count(("raw-probe", name))
        if not res["ok"]:
            ctx.violation(f"engine-error:{res['err'][0]}:{res['err'][1]}:{name}", f"{stmt} raises {res['err']} {res['msg'][:200]}",
                          {"raw": {"script": WITNESS + stmt}})
            continue
        d = res["datasets"]["DS_r"]
        declared = any(c[0] == "VAt_1" for c in d["comps"])
        if declared and "VAt_1" not in (d["data_cols"] or []):
            ctx.violation(f"viral-column-missing:{name}",
                          f"`{stmt}` over a dataset with viral attribute VAt_1: the result structure declares VAt_1 (role Viral Attribute) but the "
                          f"result data has no VAt_1 column (columns {d['data_cols']})",
                          {"raw": {"script": WITNESS + stmt, "structure": [c[0] for c in d["comps"]], "data_columns": d["data_cols"]}})


# ------------------------------------------------------------------ run
def report(ctx, case, f, pool, stats, origin):
    key = f["key"]
    stats["findings"][key] += 1
    cj = G.case_json(case)
    known = ctx._known_key(key) is not None
    path = CDIR / (slug(key) + ".json")
    if (not known and stats["shrunk"] < 3) or (known and not path.exists() and stats["shrunk_known"] < 6):
        try:
            small = shrink(case, key, pool)
            cj = small
            stats["shrunk" if not known else "shrunk_known"] += 1
        except Exception as e:  # shrinking is best effort
            ctx.log("shrink failed:", type(e).__name__, e)
        CDIR.mkdir(parents=True, exist_ok=True)
        if not known:
            path = CDIR / (slug(key) + "-" + hashlib.sha1(json.dumps(cj, sort_keys=True).encode()).hexdigest()[:8] + ".json")
        path.write_text(json.dumps({"key": key, "case": cj}, sort_keys=True))
    what = f"{f['what']} :: {G.script_text(cj).strip()[:700]}"
    ctx.violation(key, what, {"case": cj, "finding": {k: v for k, v in f.items() if k != "what"}, "origin": origin})


def run(ctx):
    ctx.prove("C28")
    q = ctx.tier == "quick"
    import os
    n_gen = int(os.environ.get("VERIF_C28_N") or (250 if q else 5000))
    t0 = time.time()
    pool = G.EnginePool(12 if q else 14)
    stats = {"findings": collections.Counter(), "shrunk": 0, "shrunk_known": 0}
    try:
        raw_probes(ctx)
        # ---- corpus + directed probes
        first = []
        if CDIR.exists():
            for p in sorted(CDIR.glob("*.json")):
                j = json.loads(p.read_text())
                c = j["case"]
                c["hist"] = {}
                first.append(("corpus:" + p.name, c))
        n_corpus = len(first)
        first += directed(ctx)
        res = evaluate([c for _, c in first], pool, "c28_first")
        witness_seen = {}
        for (origin, c), (fs, eng, models) in zip(first, res):
            ctx.count(("first", origin))
            if origin.startswith("no-rule:"):
                ok = (not eng["e1"]["ok"]) and tuple(eng["e1"]["err"]) == ("Semantic", "1-3-3-6")
                ctx.oblige(f"tie: {origin} rejected with 1-3-3-6 by the engine and by vcheck", ok and not fs, str(eng["e1"].get("err")) + str([f["key"] for f in fs]))
            if origin.startswith("witness:"):
                witness_seen[origin] = [f["key"] for f in fs]
                # the witness of C28_fold_before_fix_order_dependent: the engine must equal the sorted fold on both orders and must
                # NOT equal the physical-order fold on the reversed order (which the witness distinguishes from the specification)
                types = dict(c["attrs"])
                spec, _, old2 = [G.model_view(m, "VAt_1", types) for m in models["VAt_1"]]
                e1, e2 = G.engine_view(eng["e1"], c, "VAt_1"), G.engine_view(eng["e2"], c, "VAt_1")
                ctx.oblige(f"tie: {origin}: engine = sorted fold on both row orders, ≠ the fold before the fix on the reversed order",
                           G.same_view(e1, spec) and G.same_view(e2, spec) and not G.same_view(old2, spec),
                           f"engine {e1[3:]} / {e2[3:]}, specification {spec[3:]}, fold before the fix on order 2 {old2[3:]}")
            for f in fs:
                report(ctx, c, f, pool, stats, origin)
        # the refuted theorem's witness replayed: either the engine shows the order dependence (finding) or it equals the specification
        ctx.cov["witness_replay"] = witness_seen
        ctx.log(f"{n_corpus} corpus cases, {len(first) - n_corpus} directed probes: {dict(stats['findings'])}")

        # ---- generated stream (10% malformed)
        cases = []
        while len(cases) < n_gen:
            mal = ctx.rng.choice(["no-rule", "dup-clause", "dup-rule", "sum-avg-string"]) if ctx.rng.random() < 0.1 else None
            c = G.make_case(ctx.rng, mal)
            if c is not None:
                cases.append(c)
        hist = collections.Counter()
        dist = {"rules": collections.Counter(), "attr_types": collections.Counter(), "attrs_per_case": collections.Counter(),
                "statements": collections.Counter(), "input_rows": collections.Counter(), "malformed": collections.Counter(),
                "engine_outcomes": collections.Counter(), "verdicts": collections.Counter()}
        nulls = [0, 0]
        fold_cases = []
        batch = 125 if q else 500
        for b0 in range(0, len(cases), batch):
            chunk = cases[b0:b0 + batch]
            res = evaluate(chunk, pool, "c28_gen")
            for c, (fs, eng, models) in zip(chunk, res):
                ctx.count(hashlib.sha1(json.dumps(G.case_json(c), sort_keys=True).encode()).hexdigest())
                for k, v in c["hist"].items():
                    hist[k] += v
                types = dict(c["attrs"])
                for d in c["defs"]:
                    r = d["rule"]
                    dist["rules"][("aggregate " + r["fn"]) if r["kind"] == "agg" else
                                  f"enumerated:{len(r['clauses'])}-clauses:{'default' if r['else'] else 'no-default'}:{types.get(d['target'], 'String')}"] += 1
                for _, t in c["attrs"]:
                    dist["attr_types"][t] += 1
                dist["attrs_per_case"][len(c["attrs"])] += 1
                dist["statements"][len(c["stmts"])] += 1
                dist["malformed"][c.get("malformed", "well-formed")] += 1
                for d in c["inputs"].values():
                    n = len(d["rows"])
                    dist["input_rows"]["0" if n == 0 else "1-3" if n <= 3 else "4-9"] += 1
                    for _, vv, _ in d["rows"]:
                        for v in vv.values():
                            nulls[0] += v is None
                            nulls[1] += 1
                dist["engine_outcomes"]["dataset" if eng.get("e1", {}).get("ok") else str(eng.get("e1", {}).get("err"))] += 1
                if len(ctx.cov["samples"]) < 5 and eng.get("e1", {}).get("ok"):
                    ctx.sample({"script": G.script_text(c), "inputs": c["inputs"], "engine_rows_order1": eng["e1"]["datasets"]["DS_r"]["rows"][:5],
                                "engine_rows_order2": eng["e2"]["datasets"]["DS_r"]["rows"][:5] if eng["e2"]["ok"] else None})
                if not fs:
                    dist["verdicts"]["agree (both orders = specification)"] += 1
                for f in fs:
                    dist["verdicts"][f["key"]] += 1
                    if f["key"].startswith("enum-fold-order"):
                        fold_cases.append((c, f, models))
                    else:
                        report(ctx, c, f, pool, stats, "generated")
        # ---- order dependence: direct evidence for each, and consistency with the proved order-safety check
        safe = order_safe([(c, f["attr"]) for c, f, _ in fold_cases], "c28_safe")
        n_direct = n_third = 0
        for (c, f, models), s in zip(fold_cases, safe):
            if s is True:
                f = dict(f, key="order-dependence-on-order-safe-rule",
                         what="enum_order_safe holds for the rule (even the fold before the fix is order-independent, C28_fold_before_fix_partial) yet the engine's result differs from the specification: " + f["what"])
            elif not f.get("direct"):
                differs, spec_on_canon, order3 = third_order(c, f, pool, models)
                n_third += 1
                if differs:
                    f = dict(f, direct=True, third_order=order3,
                             what=f["what"] + " — confirmed: on the canonical order of the same datapoints the engine returns a different value"
                                            + (" (the specification)" if spec_on_canon else ""))
                else:
                    f = dict(f, key="fold-differs-from-spec-on-every-order:" + "+".join(G.sites(c)),
                             what="engine result differs from the specification on three orders including the canonical one: " + f["what"])
            n_direct += bool(f.get("direct"))
            report(ctx, c, f, pool, stats, "generated")
        ctx.cov["order_dependence"] = {"cases": len(fold_cases), "direct_two_orders_differ": n_direct, "needed_third_order": n_third,
                                       "rules_order_safe_by_coq_check": sum(1 for s in safe if s is True)}
        ctx.cov["distribution"] = {"operators": dict(hist.most_common()), **{k: dict(v) for k, v in dist.items()},
                                   "viral_null_ratio": round(nulls[0] / max(1, nulls[1]), 3), "corpus": n_corpus,
                                   "directed": len(first) - n_corpus, "generated": n_gen}
        ctx.cov["findings"] = dict(stats["findings"])
        ctx.cov["k_wall_s"] = round(time.time() - t0, 1)
    finally:
        pool.close()
    ctx.cov["rule"] = ("scripts of 1-3 statements (operators nested ≤ 2) over 2-3 input datasets with 1-2 viral attributes (String / Integer; one operand "
                       "possibly without), 0-9 rows, viral nulls ≈ 22 %, conflicting values on shared keys; rules: enumerated 1-3 clauses over pairs / "
                       "single values incl. null ± default, aggregate min/max/sum/avg, optional extra rule for an absent variable, definitions "
                       "before or after the statements; statements: dataset∘dataset (+ - *), unary / dataset∘scalar / parameterised, aggregation "
                       "(group by / except / none, function and aggr-clause forms), analytic (partition by), inner / left joins of 2-3 operands, "
                       "filter / calc / keep / rename / sub / drop and calc of the viral attribute, union / intersect / setdiff / symdiff, plain "
                       "assignment, check_datapoint; EVERY case on two physical row orders; 10 % malformed (no rule, duplicate clause, duplicate "
                       "rule, sum/avg on String); distinct = (script, data)")
    ctx.oblige("K: engine (two row orders) = vrun (Model/Viral.v) on every case, or the disagreement is reported", True)
    ctx.trusted.append("DuckDB 1.5.5 executes the emitted SQL (observed only).  The model is the projection of a dataset on (identifiers, viral "
                       "attribute): measures are not carried, so filter conditions of the correspondence range over identifiers and the viral "
                       "attribute; validations other than check_datapoint(… all), hierarchies, if/case and pivot/unpivot are outside the generated "
                       "language (check and membership only by the directed presence probes).  Non-integral avg results in an Integer-typed "
                       "attribute are compared by value (typing is C10's concern)")


def replay(ctx, obj):
    import pprint
    if "raw" in obj:
        import engine
        import pandas as pd
        ds = engine.ds_struct("DS_1", [("Id_1", "Integer", "Identifier", False), ("Me_1", "Integer", "Measure", True), ("VAt_1", "String", "Viral Attribute", True)])
        df = pd.DataFrame({"Id_1": [1, 2, 3], "Me_1": [1, 2, 3], "VAt_1": ["A", None, "C"]})
        res = engine.run_case(obj["raw"]["script"], engine.structures(ds), {"DS_1": df})
        print("script:", obj["raw"]["script"])
        if not res["ok"]:
            print("observed:", res["err"], res["msg"])
            return 1
        d = res["datasets"]["DS_r"]
        print("expected: a VAt_1 column in the result data (structure declares", [c[0] for c in d["comps"]], ")")
        print("observed: data columns", d["data_cols"])
        return 0 if "VAt_1" in (d["data_cols"] or []) else 1
    c = obj["case"]
    c["hist"] = {}
    pool = G.EnginePool(2)
    try:
        (fs, eng, models), = evaluate([c], pool, "c28_replay")
    finally:
        pool.close()
    print("script:\n" + G.script_text(c))
    print("inputs:", json.dumps(c["inputs"]))
    print("second order:", c["perm2"])
    types = dict(c["attrs"])
    for a, _ in c["attrs"]:
        print(f"-- attribute {a}")
        print("expected (engine's sorted fold = specification, vrun false):", G.model_view(models[a][0], a, types))
        print("observed order 1:", G.engine_view(eng["e1"], c, a) if "e1" in eng else eng)
        print("observed order 2:", G.engine_view(eng["e2"], c, a) if "e2" in eng else eng)
    print("verdict:", "agree" if not fs else pprint.pformat([(f["key"], f["what"][:300]) for f in fs]))
    return 0 if not fs else 1
