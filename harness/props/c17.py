"""C17 — concurrent API calls behave like sequential ones.

Proof: Props/C17.v (confined_serializable by induction over the interleaving; registry / dataset_output race refutations with
witness schedules; parse-only calls and the per-thread SPEC skeletons serializable for any number of calls).
Tie: every call's global-access trace is recorded through vtlengine._verif.yield_cb and checked against the model's recognisers
(is_run_trace …, evaluated in Coq); the recorded traces become model programs; a deterministic scheduler blocks the engine's
threads at the yield points and FORCES chosen interleavings (the model's race witness, systematic 2-switch schedules, random
multi-switch schedules) on the real engine; for every forced schedule the owner of each registry value read by each call is
compared with the value the Gallina interleaving semantics predicts for the same schedule, and the property predicate itself
(each concurrent result == the call's solo result) is evaluated.  Plus randomized stress with a microsecond switch interval."""
from __future__ import annotations

import json
import sys
import threading
import time
import traceback
from typing import Any, Dict, List, Optional, Tuple

import common

TAG = {"parse:parsed": "TParse", "registry:set": "TRegSet", "registry:get": "TRegGet", "vcounter:reset": "TVcReset", "vcounter:ds": "TVcDs",
       "vcounter:dc": "TVcDc", "tpconfig:set": "TTpSet", "tpconfig:get": "TTpGet", "dataset_output:set": "TDsOutSet",
       "dataset_output:clear": "TDsOutClear"}
NSTEPS = {"TParse": 4, "TRegSet": 1, "TRegGet": 1, "TVcReset": 2, "TVcDs": 2, "TVcDc": 2, "TTpSet": 1, "TTpGet": 1, "TDsOutSet": 1, "TDsOutClear": 1,
          "TRaise": 1}
AFTER_ACCESS = {"TDsOutSet", "TDsOutClear"}     # the yield point follows the access (all others precede it)
NO_PAUSE = {"TParse"}                            # inside parser_lock: a paused holder would block everybody (checked separately)
WAIT = 90.0                                      # every wait of the scheduler has this timeout (seconds)


# ------------------------------------------------------------------------------------------------ calls
def call(kind, name, script, structs=None, data=None, **kw):
    return {"kind": kind, "name": name, "script": script, "structs": structs, "data": data or {}, "kw": kw}


def do_call(c) -> Dict[str, Any]:
    """executes one API call and canonicalises its result (what the caller gets back)"""
    import engine
    import vtlengine
    try:
        if c["kind"] == "run":
            r = engine.run_case(c["script"], c["structs"], c["data"], **c["kw"])
            if r["ok"]:
                return {"ok": True, "datasets": r["datasets"], "scalars": r["scalars"]}
            return {"ok": False, "err": list(r["err"]), "msg": r["msg"]}
        if c["kind"] == "semantic":
            r = engine.semantic_case(c["script"], c["structs"], **c["kw"])
            if r["ok"]:
                return {"ok": True, "datasets": r["datasets"], "scalars": r["scalars"]}
            return {"ok": False, "err": list(r["err"]), "msg": r["msg"]}
        if c["kind"] == "prettify":
            return {"ok": True, "text": vtlengine.prettify(c["script"])}
        if c["kind"] == "create_ast":
            from vtlengine.API import create_ast
            from vtlengine.AST.ASTEncoders import ComplexEncoder
            return {"ok": True, "ast": json.dumps(create_ast(c["script"]), cls=ComplexEncoder, sort_keys=True)}
        raise ValueError(c["kind"])
    except Exception as e:  # noqa
        return {"ok": False, "err": list(engine.classify_error(e)), "msg": str(e)[:500]}


def canon(r) -> str:
    return json.dumps(r, sort_keys=True, default=str)


def reset_globals():
    """the state a fresh process starts from (solo results are taken from it, and so is every concurrent experiment)"""
    import vtlengine.Exceptions as X
    import vtlengine.ViralPropagation as VP
    from vtlengine.DataTypes.TimeHandling import TimePeriodConfig
    from vtlengine.Utils.__Virtual_Assets import VirtualCounter
    if hasattr(X, "set_dataset_output"):           # a ContextVar since the per-thread dataset_output fix
        X.set_dataset_output(None)
    else:
        X.dataset_output = None
    if hasattr(VP._current_registry, "set"):      # a ContextVar since the per-thread registry fix
        VP._current_registry.set(None)
    else:
        VP._current_registry = None
    TimePeriodConfig._representation = "vtl"
    if hasattr(VirtualCounter, "_local"):           # per-thread counters since the threading.local fix
        VirtualCounter._local.dataset_count = 0
        VirtualCounter._local.component_count = 0
    else:
        VirtualCounter.dataset_count = 0
        VirtualCounter.component_count = 0


# ------------------------------------------------------------------------------------------------ the scheduler
class Forced:
    """Runs calls in threads; each thread stops at every yield point (except inside parser_lock) and continues only when the
    controller grants it a segment.  One thread runs at a time, so the interleaving of global accesses is exactly the schedule."""

    def __init__(self, calls: List[dict], pause_in_lock: bool = False):
        self.calls = calls
        self.n = len(calls)
        self.go = [threading.Semaphore(0) for _ in calls]
        self.ctl = threading.Semaphore(0)
        self.done = [False] * self.n
        self.results: List[Optional[dict]] = [None] * self.n
        self.events: List[List[dict]] = [[] for _ in calls]
        self.pauses = [0] * self.n
        self.abort = False
        self.timeouts: List[str] = []
        self.by_thread: Dict[int, int] = {}
        self.owners: Dict[int, int] = {}      # id(registry object) -> thread that published it
        self.keep: List[Any] = []
        self.pause_in_lock = pause_in_lock
        self.order: List[Tuple[int, str]] = []  # global order of accesses (thread, tag)

    # -- engine side
    def cb(self, tag: str) -> None:
        i = self.by_thread.get(threading.get_ident())
        if i is None:
            return
        t = TAG.get(tag, tag)
        ev: Dict[str, Any] = {"tag": t}
        self.events[i].append(ev)
        if not (t in NO_PAUSE and not self.pause_in_lock):
            self._pause(i)
        # observe AFTER the pause: no other thread runs until this thread's next yield point, so what is seen here is what the
        # access that follows (or, for the dataset_output tags, has just happened) really sees
        self.order.append((i, t))
        try:
            import vtlengine.ViralPropagation as VP
            if t == "TRegSet":
                reg = sys._getframe(2).f_locals.get("registry")
                self.keep.append(reg)
                self.owners[id(reg)] = i
            elif t == "TRegGet":
                cur = VP._current_registry
                if hasattr(cur, "get"):               # ContextVar: the value THIS thread's context holds
                    cur = cur.get()
                ev["owner"] = self.owners.get(id(cur), -1) if cur is not None else -2
            elif t == "TTpGet":
                from vtlengine.DataTypes.TimeHandling import TimePeriodConfig
                ev["value"] = TimePeriodConfig._representation
            elif t in ("TVcDs", "TVcDc"):
                from vtlengine.Utils.__Virtual_Assets import VirtualCounter
                src = getattr(VirtualCounter, "_local", VirtualCounter)      # this thread's counters
                ev["value"] = getattr(src, "dataset_count" if t == "TVcDs" else "component_count", 0)
        except Exception as e:  # observation must never disturb the engine
            ev["obs_error"] = f"{type(e).__name__}: {e}"

    def _pause(self, i: int) -> None:
        if self.abort:
            return
        self.pauses[i] += 1
        self.ctl.release()
        if not self.go[i].acquire(timeout=WAIT):
            self.timeouts.append(f"thread {i} waited {WAIT}s for its turn")
            self.abort = True

    def _body(self, i: int) -> None:
        self.by_thread[threading.get_ident()] = i
        self._pause(i)          # pause 0: before the call starts
        try:
            self.results[i] = do_call(self.calls[i])
        except BaseException as e:  # noqa
            self.results[i] = {"ok": False, "err": ["Harness", type(e).__name__], "msg": str(e)}
        self.done[i] = True
        self.ctl.release()

    # -- controller side
    def _grant(self, i: int) -> bool:
        """lets thread i run to its next pause (or to completion); False when it did not come back in time"""
        if self.done[i] or self.abort:
            return True
        self.go[i].release()
        if not self.ctl.acquire(timeout=WAIT):
            self.timeouts.append(f"thread {i} did not reach a yield point or finish within {WAIT}s (blocked?)")
            self.abort = True
            return False
        return True

    def run(self, schedule: List[Tuple[int, int]]) -> None:
        from vtlengine import _verif
        reset_globals()
        _verif.yield_cb = self.cb
        threads = [threading.Thread(target=self._body, args=(i,), daemon=True) for i in range(self.n)]
        try:
            for t in threads:
                t.start()
            for _ in range(self.n):      # everybody reaches pause 0
                if not self.ctl.acquire(timeout=WAIT):
                    self.timeouts.append("a thread did not start")
                    self.abort = True
            self.applied: List[Tuple[int, int]] = []
            for i, k in schedule:
                got = 0
                for _ in range(k):
                    if self.done[i] or self.abort:
                        break
                    self._grant(i)
                    got += 1
                self.applied.append((i, got))
            guard = 0
            while not all(self.done) and not self.abort and guard < 100000:   # drain: round robin to completion
                for i in range(self.n):
                    while not self.done[i] and not self.abort:
                        self._grant(i)
                guard += 1
        finally:
            if self.abort:
                for s in self.go:
                    for _ in range(10000):
                        s.release()
            for t in threads:
                t.join(timeout=WAIT)
            _verif.yield_cb = None
            self.hung = [i for i, t in enumerate(threads) if t.is_alive()]


def solo(c) -> Tuple[dict, List[dict]]:
    """result and global-access trace of one call executed alone from the initial state"""
    f = Forced([c])
    f.run([])
    return f.results[0], f.events[0]


SEM_ONLY = ("TDsOutSet", "TDsOutClear", "TVcReset", "TVcDs", "TVcDc")


def tags_of(events: List[dict], result: dict, kind: str = "run") -> List[str]:
    """the call's trace as model tags.  Two accesses have no yield point and are placed by rule: the read of dataset_output by the
    SemanticError / RunTimeError constructors (TRaise, at the end) and the write `dataset_output = None` in the `finally` of
    Interpreter.visit_Start (a TDsOutClear marked '!' = no pause: after the last event of the semantic pass)."""
    tr = [e["tag"] for e in events]
    # an error constructed before the call's first write to its output-dataset cell reads the value the THREAD's context holds
    # (left by earlier calls of the same thread; visit_Start clears it in a finally): same-thread sequencing, not modelled
    raised = (not result.get("ok") and result.get("err", [None])[0] in ("Semantic", "Runtime")
              and any(t in ("TDsOutSet", "TDsOutClear") for t in tr))
    if kind in ("run", "semantic") and "TRegSet" in tr:
        if kind == "semantic" or (raised and "TTpSet" not in tr):
            tr = tr + (["TRaise"] if raised else []) + ["TDsOutClear!"]
            return tr
        last = max((k for k, t in enumerate(tr) if t in SEM_ONLY), default=tr.index("TRegSet"))
        tr = tr[:last + 1] + ["TDsOutClear!"] + tr[last + 1:]
    if raised:
        tr.append("TRaise")
    return tr


def steps_at_pause(tags: List[str]) -> List[int]:
    """number of model steps a thread has executed when it sits at its p-th pause (pause 0 = before the call)"""
    out = [0]
    done = 0
    for t in tags:
        if t == "TRaise":
            break
        if t.endswith("!"):
            done += NSTEPS[t[:-1]]
            continue
        if t in NO_PAUSE:
            done += NSTEPS[t]
            continue
        out.append(done + (NSTEPS[t] if t in AFTER_ACCESS else 0))
        done += NSTEPS[t]
    return out


def total_steps(tags: List[str]) -> int:
    return sum(NSTEPS[t.rstrip("!")] for t in tags)


def model_schedule(applied: List[Tuple[int, int]], tagss: List[List[str]]) -> List[int]:
    """the step-level schedule of the model that corresponds to a pause-level schedule of the engine (then everybody drains)"""
    sap = [steps_at_pause(t) for t in tagss]
    pos = [0] * len(tagss)
    done = [0] * len(tagss)
    out: List[int] = []
    for i, k in applied:
        p = min(pos[i] + k, len(sap[i]))
        target = sap[i][p] if p < len(sap[i]) else total_steps(tagss[i])
        out += [i] * (target - done[i])
        done[i], pos[i] = target, p
    for i in range(len(tagss)):
        out += [i] * (total_steps(tagss[i]) - done[i])
    return out


# ------------------------------------------------------------------------------------------------ model side (Coq)
HEADER = ("From Coq Require Import List ZArith Bool. Import ListNotations.\nFrom VTL Require Import Model.Interleave Proofs.InterleaveP.\n")


def coq_prog(i: int, tags: List[str]) -> str:
    return f"(prog_of_trace (gmap_impl {i}) {i + 1}%Z [{'; '.join(t.rstrip('!') for t in tags)}])"


def coq_progs(tagss: List[List[str]]) -> str:
    arms = " | ".join(f"{i} => {coq_prog(i, t)}" for i, t in enumerate(tagss))
    return f"(fun j : nat => match j with {arms} | _ => [] end)"


def model_obs_batch(jobs: List[Tuple[List[List[str]], List[List[int]]]], tag: str) -> List[List[List[List[Tuple[int, int]]]]]:
    """jobs: (traces of the calls, step-level schedules).  For each job: element 0 = each call's solo observations, then, per
    schedule, each thread's observations under it — chronological (global, value) pairs for the registry cell of the thread
    (reported as global 1; values are tokens = thread + 1, 0 = initial) and the two process-wide counters.  One Coq run for all."""
    flt = ("(fun l => rev (map (fun o => (Nat.modulo (fst o) 10, snd o)) (filter (fun o => Nat.leb 100 (fst o) && "
           "mem (Nat.modulo (fst o) 10) [GRegistry; GVcDs; GVcDc]) l)))")
    exprs, sizes = [], []
    for tagss, scheds in jobs:
        n = len(tagss)
        progs = coq_progs(tagss)
        exprs.append(f"map (fun i => {flt} (solo_result zero_store ({progs} i))) (seq 0 {n})")
        for s_ in scheds:
            ss = "[" + "; ".join(str(x) for x in s_) + "]"
            exprs.append(f"map (fun i => {flt} (obs_of {ss} {progs} i)) (seq 0 {n})")
        sizes.append(1 + len(scheds))
    flat = common.coq_eval(HEADER, exprs, tag, shard=12)
    out, k = [], 0
    for sz in sizes:
        out.append(flat[k:k + sz])
        k += sz
    return out


def engine_obs(events: List[dict]) -> List[Tuple[int, int]]:
    out = []
    for e in events:
        if e["tag"] == "TRegGet":
            o = e.get("owner", -1)
            out.append((1, o + 1 if o is not None and o >= 0 else 0))
        elif e["tag"] == "TVcDs":
            out.append((2, int(e.get("value", -1))))
        elif e["tag"] == "TVcDc":
            out.append((3, int(e.get("value", -1))))
    return out


def model_shapes(items: List[Tuple[str, List[str]]], tag: str) -> List[bool]:
    fn = {"run": "is_run_trace", "semantic": "is_semantic_trace", "prettify": "is_parse_trace", "create_ast": "is_parse_trace"}
    # the shape of the call's skeleton AND the hypothesis of C17_registry_serializable_impl (no registry read before the call's own set)
    exprs = [f"{fn[k]} [{'; '.join(x.rstrip('!') for x in t)}] && cells_wf false false [{'; '.join(x.rstrip('!') for x in t)}]" for k, t in items]
    return common.coq_eval(HEADER, exprs, tag, shard=200)


# ------------------------------------------------------------------------------------------------ scenarios
def scenarios(rng, tier: str) -> List[dict]:
    import engine
    import pandas as pd
    va = engine.structures(engine.ds_struct("DS_1", [("Id_1", "Integer", "Identifier", False), ("Me_1", "Number", "Measure", True),
                                                     ("VAt_1", "String", "Viral Attribute", True)]))
    dva = {"DS_1": pd.DataFrame({"Id_1": [1, 2, 3], "Me_1": [1.0, 2.0, 3.0], "VAt_1": ["A", "B", "C"]})}
    plain = engine.structures(engine.ds_struct("DS_1", [("Id_1", "Integer", "Identifier", False), ("Me_1", "Number", "Measure", True)]))
    dplain = {"DS_1": pd.DataFrame({"Id_1": [1, 2, 3], "Me_1": [1.0, 0.0, 3.0]})}
    tp = engine.structures(engine.ds_struct("DS_1", [("Id_1", "Integer", "Identifier", False), ("Me_1", "Time_Period", "Measure", True)]))
    dtp = {"DS_1": pd.DataFrame({"Id_1": [1, 2], "Me_1": ["2020-Q1", "2020-M02"]})}
    R_ENUM = 'define viral propagation VP (variable VAt_1) is when "A" then "Z"; else "D" end viral propagation;\n'
    R_MAX = "define viral propagation VQ (variable VAt_1) is aggregate max end viral propagation;\n"
    R_MIN = "define viral propagation VM (variable VAt_1) is aggregate min end viral propagation;\n"

    def vrun(name, rule, out):
        return call("run", name, rule + f"{out} <- DS_1 + DS_1; {out}2 <- DS_1[calc Me_2 := Me_1 * 2];", va, dva)

    def tprun(name, fmt, out):
        return call("run", name, f'{out} <- DS_1; {out}s <- DS_1[calc Me_2 := cast(Me_1, string)]; {out}c <- cast("2020Q1", time_period);', tp, dtp,
                    time_period_output_format=fmt)

    S = []
    S.append({"name": "viral-rules:enum-vs-max", "class": "viral-registry", "calls": [vrun("A", R_ENUM, "DS_rA"), vrun("B", R_MAX, "DS_rB")]})
    S.append({"name": "viral-rules:rule-vs-none", "class": "viral-registry", "thorough": True,
              "calls": [vrun("A", R_ENUM, "DS_rA"), call("run", "B", "DS_rB <- DS_1 + 1; DS_rB2 <- DS_1 * 2;", plain, dplain)]})
    S.append({"name": "viral-rules:semantic-semantic", "class": "viral-registry",
              "calls": [call("semantic", "A", R_ENUM + "DS_rA <- DS_1 + DS_1;", va), call("semantic", "B", R_MAX + "DS_rB <- DS_1 * DS_1;", va)]})
    S.append({"name": "period-format:vtl-vs-sdmx_reporting", "class": "tp-config", "calls": [tprun("A", "vtl", "DS_rA"), tprun("B", "sdmx_reporting", "DS_rB")]})
    S.append({"name": "period-format:natural-vs-sdmx_gregorian", "class": "tp-config", "thorough": True,
              "calls": [tprun("A", "natural", "DS_rA"), call("run", "B", "DS_rB <- DS_1[filter Id_1 = 2];", tp, dtp, time_period_output_format="sdmx_gregorian")]})
    S.append({"name": "error-message:semantic-error-vs-run", "class": "dataset-output",
              "calls": [call("semantic", "A", "DS_okA <- DS_1 + 1; DS_badA <- DS_1 + DS_9;", plain),
                        call("run", "B", "DS_rB <- DS_1 * 3; DS_rB2 <- DS_1 - 1;", plain, dplain)]})
    S.append({"name": "error-message:runtime-error-vs-run", "class": "dataset-output",
              "calls": [call("run", "A", "DS_rA <- DS_1 / DS_1;", plain, dplain), call("run", "B", "DS_rB <- DS_1 * 3; DS_rB2 <- DS_1 - 1;", plain, dplain)]})
    S.append({"name": "virtual-counter:error-name-vs-run", "class": "virtual-counter",
              "calls": [call("semantic", "A", "DS_rA := DS_1[filter Me_1 > 0][calc Me_3 := Me_1 + 1, Me_4 := Me_9 + 1];", plain),
                        call("run", "B", "DS_rB <- (DS_1 + 1) * (DS_1 - 1); DS_rB2 <- DS_1[calc Me_2 := Me_1 * 2][filter Me_2 > 0];", plain, dplain)]})
    S.append({"name": "virtual-counter:error-name-run-vs-run", "class": "virtual-counter",
              "calls": [call("run", "A", "DS_rA := DS_1[filter Me_1 > 0][calc Me_3 := Me_1 + 1, Me_4 := Me_9 + 1];", plain, dplain),
                        call("run", "B", "DS_rB <- (DS_1 + 1) * (DS_1 - 1); DS_rB2 <- DS_1[calc Me_2 := Me_1 * 2][filter Me_2 > 0];", plain, dplain)]})
    S.append({"name": "parse-mix:prettify-create_ast", "class": "parse",
              "calls": [call("prettify", "A", "DS_rA <- DS_1 + 1; /* note */ DS_x := DS_1[calc Me_2 := Me_1 * 2];"),
                        call("create_ast", "B", "DS_rB <- inner_join(DS_1, DS_2 using Id_1);")]})
    S.append({"name": "triple:three-viral-rules", "class": "viral-registry",
              "calls": [vrun("A", R_ENUM, "DS_rA"), vrun("B", R_MAX, "DS_rB"), vrun("C", R_MIN, "DS_rC")]})
    S.append({"name": "triple:run-prettify-semantic-error", "class": "mixed",
              "calls": [vrun("A", R_ENUM, "DS_rA"), call("prettify", "B", "DS_rB <- DS_1 + 1; DS_y := DS_1 * 2;"),
                        call("semantic", "C", "DS_okC <- DS_1 + 1; DS_badC <- DS_1 + DS_9;", plain)]})
    # corpus pairs: two different corpus scripts with their own data
    try:
        from props.c32 import corpus_cases
        cs = [c for c in corpus_cases(rng, 60 if tier == "quick" else 400) if len(c["script"]) < 1500]
        rng.shuffle(cs)
        k = 1 if tier == "quick" else 20
        for a, b in zip(cs[0:2 * k:2], cs[1:2 * k:2]):
            S.append({"name": f"corpus:{a['shape']}+{b['shape']}", "class": "corpus",
                      "calls": [call("run", "A", a["script"], a["structs"], a["data"], **a["kw"]), call("run", "B", b["script"], b["structs"], b["data"], **b["kw"])]})
    except Exception:
        traceback.print_exc()
    return S


def witness_schedules(tagss: List[List[str]]) -> List[Tuple[str, List[Tuple[int, int]]]]:
    """pause-level versions of Model.Interleave.race_schedule: thread a runs up to (not including) a read that follows its own write,
    thread b runs until its write of the same global has happened, a finishes, b finishes"""
    out = []
    n = len(tagss)

    def pause_before(tags, idx):       # pause index at which the thread sits just before executing event idx (a before-access tag)
        return sum(1 for t in tags[:idx] if t not in NO_PAUSE and t != "TRaise" and not t.endswith("!")) + 1

    def pause_after_write(tags, idx):  # first pause index at which the write of event idx has happened
        p = sum(1 for t in tags[:idx] if t not in NO_PAUSE and t != "TRaise" and not t.endswith("!")) + 1
        return p if tags[idx] in AFTER_ACCESS else p + 1

    for a in range(n):
        for b in range(n):
            if a == b or (n > 2 and a != 0):      # triples: thread 0 is the reader (the other directions are covered by the pairs)
                continue
            ta, tb = tagss[a], tagss[b]
            # registry: read after own set
            if "TRegSet" in ta and "TRegSet" in tb:
                sa = ta.index("TRegSet")
                reads = [k for k, t in enumerate(ta) if t == "TRegGet" and k > sa]
                for which, k in (("first", reads[0] if reads else None), ("last", reads[-1] if reads else None)):
                    if k is not None:
                        out.append((f"witness:registry:{which}-read:{a}<-{b}", [(a, pause_before(ta, k)), (b, pause_after_write(tb, tb.index("TRegSet")))]))
            # dataset_output: a raises after its own set; b sets / clears in between
            if "TRaise" in ta and "TDsOutSet" in ta:
                sets = [k for k, t in enumerate(ta) if t == "TDsOutSet"]
                for wtag in ("TDsOutSet", "TDsOutClear"):
                    if wtag in tb:
                        out.append((f"witness:dataset_output:{wtag}:{a}<-{b}", [(a, pause_after_write(ta, sets[-1])), (b, pause_after_write(tb, tb.index(wtag)))]))
            if "TVcDs" in ta and "TVcDs" in tb:
                out.append((f"witness:vcounter:{a}<-{b}", [(a, pause_before(ta, ta.index("TVcDs"))), (b, pause_after_write(tb, tb.index("TVcDs")))]))
                # b stops right after having advanced the counter; a then runs from start to end: a's names start from b's residue
                out.append((f"witness:vcounter-residue:{a}<-{b}", [(b, pause_after_write(tb, tb.index("TVcDs"))), (a, 10 ** 6)]))
            if "TRaise" in ta and "TTpSet" in ta and "TDsOutSet" in tb:
                # a raises late (execution error, after its own semantic pass has cleared the name): b's set must be in force then
                out.append((f"witness:dataset_output:late-raise:{a}<-{b}",
                            [(a, pause_before(ta, ta.index("TTpSet"))), (b, pause_after_write(tb, tb.index("TDsOutSet"))), (a, 10 ** 6)]))
    return out


def explore_schedules(rng, tagss: List[List[str]], budget: int, exhaustive: bool) -> List[Tuple[str, List[Tuple[int, int]]]]:
    n = len(tagss)
    np_ = [len(steps_at_pause(t)) for t in tagss]
    out = []
    if n == 2:
        allp = [(a, b) for a in range(np_[0] + 1) for b in range(np_[1] + 1)]
        pick = allp if exhaustive else rng.sample(allp, min(budget, len(allp)))
        for a, b in pick:
            out.append((f"2-switch:{a}:{b}", [(0, a), (1, b)]))
    for r in range(budget // 2 if not exhaustive else budget):
        sched = []
        for _ in range(rng.randint(3, 10)):
            sched.append((rng.randrange(n), rng.randint(1, 4)))
        out.append((f"random:{r}", sched))
    return out


# ------------------------------------------------------------------------------------------------ the check
def cause_key(calls: List[dict], i: int, solo_res: dict, res: dict, foreign: bool, default_class: str) -> str:
    """stable key: which global, the affected call's kind, the kinds of the other state-touching calls it ran with"""
    import re
    others = sorted({c["kind"] for j, c in enumerate(calls) if j != i and c["kind"] in ("run", "semantic")})
    kinds = calls[i]["kind"] + "-" + ("+".join(others) if others else "none")
    sm, cm = (solo_res.get("msg") or ""), (res.get("msg") or "")
    same_but_msg = {k: v for k, v in solo_res.items() if k != "msg"} == {k: v for k, v in res.items() if k != "msg"}
    if same_but_msg and sm != cm:
        vc = lambda m: re.sub(r"__VD[SC]_\d+__", "__V__", m)
        if vc(sm) == vc(cm):
            return f"race:virtual-counter:{kinds}"
        do = lambda m: re.sub(r" Please check transformation with output Dataset \w+", "", vc(m))
        if do(sm) == do(cm):
            return f"race:dataset-output:{kinds}"
    if foreign:
        return f"race:viral-registry:{kinds}"
    return f"race:{default_class}:{kinds}"


def classify_cause(sc: dict, f: Forced, i: int, solo_res: dict) -> str:
    foreign = any(e["tag"] == "TRegGet" and e.get("owner") not in (i, None) for e in f.events[i])
    return cause_key(sc["calls"], i, solo_res, f.results[i] or {}, foreign, sc["class"])


def lock_scope_check(ctx) -> None:
    """parser_lock really is a critical section: while a thread sits at parse:parsed (inside the lock) no other thread passes it"""
    a = call("create_ast", "A", "DS_rA <- DS_1 + 1;")
    b = call("prettify", "B", "DS_rB <- DS_1 * 2;")
    f = Forced([a, b], pause_in_lock=True)
    from vtlengine import _verif
    reset_globals()
    _verif.yield_cb = f.cb
    ok = True
    detail = ""
    ths = [threading.Thread(target=f._body, args=(i,), daemon=True) for i in range(2)]
    try:
        for t in ths:
            t.start()
        for _ in range(2):
            f.ctl.acquire(timeout=WAIT)
        f.go[0].release()                       # A runs to parse:parsed and stops there, holding the lock
        if not f.ctl.acquire(timeout=WAIT):
            ok, detail = False, "A did not reach parse:parsed"
        f.go[1].release()                       # B starts; it must block on parser_lock
        came = f.ctl.acquire(timeout=1.5)
        if came:
            ok, detail = False, "B reached parse:parsed (or finished) while A was paused inside parser_lock"
        n_b_before = len(f.events[1])
        f.go[0].release()                       # A finishes; B can now proceed
        deadline = time.time() + WAIT
        while not all(f.done) and time.time() < deadline:
            if f.ctl.acquire(timeout=1.0):
                for i in range(2):
                    if not f.done[i]:
                        f.go[i].release()
        if not all(f.done):
            ok, detail = False, detail or "threads did not finish after the lock was released"
        if ok and n_b_before != 0:
            ok, detail = False, "B recorded accesses while blocked"
    finally:
        f.abort = True
        for s in f.go:
            for _ in range(100):
                s.release()
        for t in ths:
            t.join(timeout=WAIT)
        _verif.yield_cb = None
    ctx.oblige("tie: parser_lock is a critical section around the parse state (a second thread cannot enter while one is paused inside)", ok, detail)
    ctx.count(("lock-scope", "create_ast|prettify"))


def stress(ctx, pools: List[Tuple[str, str, List[dict]]], threads_n: int, iters: int) -> None:
    """free-running threads, 1 microsecond switch interval; every result compared with the call's solo result"""
    from vtlengine import _verif
    old = sys.getswitchinterval()
    total = mism = 0
    per_pool = {}
    for pname, pclass, calls in pools:
        reset_globals()
        _verif.yield_cb = None
        solos = [canon(do_call(c)) for c in calls]
        reset_globals()
        bad: List[Tuple[int, dict]] = []
        lock = threading.Lock()
        stop = time.time() + (12 if ctx.tier == "quick" else 300)

        def worker(w):
            for it in range(iters):
                if time.time() > stop:
                    break
                k = (w + it) % len(calls)
                r = do_call(calls[k])
                with lock:
                    per_pool[pname] = per_pool.get(pname, 0) + 1
                    if canon(r) != solos[k]:
                        bad.append((k, r))
        sys.setswitchinterval(1e-6)
        try:
            ths = [threading.Thread(target=worker, args=(w,), daemon=True) for w in range(threads_n)]
            for t in ths:
                t.start()
            for t in ths:
                t.join(timeout=WAIT * 4)
            hung = [t for t in ths if t.is_alive()]
        finally:
            sys.setswitchinterval(old)
        ctx.oblige(f"stress[{pname}]: all threads finished", not hung, f"{len(hung)} threads still running after {WAIT * 4}s")
        n = per_pool.get(pname, 0)
        total += n
        ctx.count(("stress", pname), n)
        if bad:
            mism += len(bad)
            k, r = bad[0]
            key = cause_key(calls, k, json.loads(solos[k]), r, False, pclass)
            ctx.violation(key, f"stress pool {pname}: {len(bad)}/{n} concurrent results differ from the solo result (1 microsecond switch interval, "
                               f"{threads_n} threads); e.g. call {calls[k]['name']} got {canon(r)[:200]}",
                          {"mode": "stress", "pool": pname, "calls": [strip_call(c) for c in calls], "threads": threads_n, "iterations": iters,
                           "expected": json.loads(solos[k]), "observed": r})
    ctx.cov["stress_calls"] = total
    ctx.cov["stress_mismatches"] = mism
    ctx.cov["stress_per_pool"] = per_pool
    ctx.log(f"stress: {total} concurrent calls, {mism} results differ from solo")


def strip_call(c: dict) -> dict:
    def js(v):
        if isinstance(v, (list, tuple)):
            return [js(x) for x in v]
        return v if isinstance(v, (int, float, bool, str, type(None), dict)) else str(v)
    return {"kind": c["kind"], "name": c["name"], "script": c["script"], "structs": c["structs"],
            "data": {k: (v.to_dict(orient="list") if hasattr(v, "to_dict") else str(v)) for k, v in (c["data"] or {}).items()},
            "kw": {k: js(v) for k, v in c["kw"].items()}}


def unstrip_call(c: dict) -> dict:
    import pandas as pd
    from pathlib import Path
    data = {k: (pd.DataFrame(v) if isinstance(v, dict) else Path(v)) for k, v in (c.get("data") or {}).items()}
    kw = dict(c.get("kw") or {})
    if isinstance(kw.get("value_domains"), list):
        kw["value_domains"] = [Path(x) for x in kw["value_domains"]]
    return call(c["kind"], c["name"], c["script"], c.get("structs"), data, **kw)


def stored_scenarios() -> List[dict]:
    """forced schedules that once made a result differ (corpus/C17/*.json), replayed before anything else"""
    out = []
    d = common.CORPUS / "C17"
    for p in sorted(d.glob("sched_*.json")) if d.is_dir() else []:
        try:
            o = json.loads(p.read_text())
            out.append({"name": f"stored:{p.stem}", "class": o.get("class", "stored"), "calls": [unstrip_call(c) for c in o["calls"]],
                        "stored_schedule": [tuple(x) for x in o["schedule"]]})
        except Exception as e:
            print(f"[warn] unreadable stored schedule {p}: {e}", flush=True)
    return out


def store_schedule(key: str, sc: dict, applied) -> None:
    import hashlib
    d = common.CORPUS / "C17"
    d.mkdir(parents=True, exist_ok=True)
    h = hashlib.sha1(key.encode()).hexdigest()[:10]
    (d / f"sched_{h}.json").write_text(json.dumps({"key": key, "class": sc["class"], "calls": [strip_call(c) for c in sc["calls"]],
                                                   "schedule": applied}, indent=1, default=str) + "\n")


def run_forced(sc: dict, sched: List[Tuple[int, int]]) -> Forced:
    f = Forced(sc["calls"])
    f.run(sched)
    return f


def run(ctx):
    import engine
    engine.install(need_parser=True)
    proved = ctx.prove("C17")
    lock_scope_check(ctx)
    scs = stored_scenarios() + scenarios(ctx.rng, ctx.tier)
    budget = 3 if ctx.tier == "quick" else 60
    hist: Dict[str, int] = {}
    shape_items: List[Tuple[str, List[str]]] = []
    shape_names: List[str] = []
    pending_model: List[Tuple[dict, str, Forced, List[List[str]], List[int]]] = []
    n_sched = n_viol_sched = n_hung = 0
    t_forced = time.time()
    for sc in scs:
        if ctx.tier == "quick" and sc.get("thorough"):
            continue
        # solo results and traces
        solos, tagss = [], []
        for c in sc["calls"]:
            r, ev = solo(c)
            solos.append(r)
            tags = tags_of(ev, r, c["kind"])
            tagss.append(tags)
            shape_items.append((c["kind"], [t for t in tags]))
            shape_names.append(f"{sc['name']}:{c['name']}")
            if "TTpGet" in tags:
                hist["calls reading TimePeriodConfig"] = hist.get("calls reading TimePeriodConfig", 0) + 1
        # determinism of the solo result itself (otherwise 'differs from solo' means nothing)
        again = [canon(solo(c)[0]) for c in sc["calls"]]
        stable = [canon(s) == a for s, a in zip(solos, again)]
        ctx.oblige(f"tie: solo result of every call of {sc['name']} is reproducible", all(stable), "a call gives different results when repeated alone")
        if not all(stable):
            continue
        sc["solos"], sc["tags"] = solos, tagss
        wit = witness_schedules(tagss)
        if ctx.tier == "quick" and len(wit) > 8:      # quick: one witness of each kind first, then the rest up to 8
            seenk, first, rest = set(), [], []
            for w in wit:
                k = ":".join(w[0].split(":")[:3])
                (rest if k in seenk else first).append(w)
                seenk.add(k)
            wit = (first + rest)[:8]
        scheds = ([("stored", sc["stored_schedule"])] if sc.get("stored_schedule") else []) + wit + explore_schedules(ctx.rng, tagss, budget if sc["class"] != "corpus" else max(3, budget // 3),
                                                              exhaustive=(ctx.tier == "thorough" and sc["class"] in ("viral-registry", "dataset-output")))
        for sname, sched in scheds:
            f = run_forced(sc, sched)
            n_sched += 1
            kind = sname.split(":")[0]
            hist[f"{sc['class']}/{kind}"] = hist.get(f"{sc['class']}/{kind}", 0) + 1
            ctx.count((sc["name"], sname))
            if f.timeouts or f.hung:
                n_hung += 1
                ctx.oblige(f"scheduler: schedule {sname} of {sc['name']} completed without a timeout", False, "; ".join(f.timeouts[:2]) + (f" hung threads {f.hung}" if f.hung else ""))
                continue
            pending_model.append((sc, sname, f, tagss, model_schedule(f.applied, tagss)))
            # the property predicate itself
            for i, c in enumerate(sc["calls"]):
                if canon(f.results[i]) != canon(solos[i]):
                    n_viol_sched += 1
                    key = classify_cause(sc, f, i, solos[i])
                    if ctx._known_key(key) is None and not sc["name"].startswith("stored:"):
                        store_schedule(key, sc, f.applied)
                    ctx.violation(key, f"{sc['name']}, schedule {sname} {f.applied}: call {c['name']} ({c['kind']}) returns "
                                       f"{canon(f.results[i])[:220]} but alone it returns {canon(solos[i])[:220]}",
                                  {"mode": "forced", "scenario": sc["name"], "calls": [strip_call(x) for x in sc["calls"]], "schedule": f.applied,
                                   "schedule_name": sname, "call": i, "expected": solos[i], "observed": f.results[i],
                                   "registry_reads": [[e.get("owner") for e in ev if e["tag"] == "TRegGet"] for ev in f.events]})
    ctx.log(f"forced: {len(scs)} scenarios, {n_sched} schedules in {time.time() - t_forced:.0f}s, {n_viol_sched} (schedule, call) pairs differ from solo, {n_hung} timeouts")
    ctx.cov.update({"scenarios": len(scs), "forced_schedules": n_sched, "forced_result_differences": n_viol_sched, "scheduler_timeouts": n_hung,
                    "input_distribution": hist})
    # ---- model side: trace shapes and predicted reads
    if proved:
        try:
            ok_shapes = model_shapes(shape_items, "c17shape")
            badshape = [f"{n} {k} {t}" for (k, t), n, okk in zip(shape_items, shape_names, ok_shapes) if not okk]
            ctx.oblige("tie: every recorded global-access trace matches the model's skeleton of its API call (is_run_trace / is_semantic_trace / is_parse_trace) and reads its registry / output-dataset cell only after its own write (cells_wf)",
                       not badshape, "; ".join(badshape[:3]))
            ctx.cov["traces_checked_against_skeleton"] = len(shape_items)
            tpget = [n for (k, t), n in zip(shape_items, shape_names) if "TTpGet" in t]
            ctx.oblige("tie: no API call reads TimePeriodConfig (the only global still process-wide)", not tpget, "; ".join(tpget[:3]))
            for n, (k, t) in list(zip(shape_names, shape_items))[:3]:
                ctx.sample({"call": n, "kind": k, "trace": t})
        except Exception as e:
            ctx.oblige("tie: trace shapes evaluated in Coq", False, f"{type(e).__name__}: {e}"[:400])
        try:
            dis = cmpd = 0
            bysc: Dict[str, List[int]] = {}
            for idx, (sc, _, _, _, _) in enumerate(pending_model):
                bysc.setdefault(sc["name"], []).append(idx)
            names = list(bysc)
            batch = model_obs_batch([(pending_model[bysc[n][0]][3], [pending_model[i][4] for i in bysc[n]]) for n in names], "c17m")
            for scname, res in zip(names, batch):
                idxs = bysc[scname]
                tagss = pending_model[idxs[0]][3]
                msolo = [[tuple(x) for x in th] for th in res[0]]
                for i, pred in zip(idxs, res[1:]):
                    sc, sname, f, _, msched = pending_model[i]
                    for t in range(len(tagss)):
                        eng = engine_obs(f.events[t])
                        mod = [tuple(x) for x in pred[t]]
                        # once a call has observed a foreign value the engine may branch differently from its solo trace (the model
                        # program IS the solo trace): compare up to and including the first observation that differs from solo
                        div = next((k for k in range(min(len(mod), len(msolo[t]))) if mod[k] != msolo[t][k]), None)
                        cut = (div + 1) if div is not None else len(mod)
                        cmpd += 1
                        # the model tracks WHICH registry object a read returns, not the rules registered inside it: a call whose own
                        # object was handed to another call (that call read this call's token) may be changed by the other call's
                        # registrations and stop early -> only require the engine's observations to be a prefix of the model's
                        shared = any((1, t + 1) in [tuple(x) for x in pred[u]] for u in range(len(tagss)) if u != t)
                        if shared and div is None:
                            bad = eng != mod[:len(eng)]
                        else:
                            bad = eng[:cut] != mod[:cut] or (div is None and len(eng) != len(mod))
                        if bad:
                            dis += 1
                            ctx.oblige(f"K: model = engine on the global values read by call {t} of {scname} under schedule {sname}", False,
                                       f"engine {eng}, model {mod}, model solo {msolo[t]}, model schedule {msched[:60]}")
            ctx.oblige("K: the Gallina interleaving semantics predicts every registry / counter value read by every call under every forced schedule", dis == 0,
                       f"{dis} disagreements over {cmpd} (schedule, call) pairs")
            ctx.cov["model_vs_engine_pairs"] = cmpd
        except Exception as e:
            traceback.print_exc()
            ctx.oblige("K: model evaluation of the forced schedules ran", False, f"{type(e).__name__}: {e}"[:400])
    # ---- randomized stress
    by = {s["name"]: s for s in scs if "solos" in s or True}
    pools = [("viral-rules", "viral-registry", by["triple:three-viral-rules"]["calls"]),
             ("period-formats", "tp-config", by["period-format:vtl-vs-sdmx_reporting"]["calls"] + by["period-format:natural-vs-sdmx_gregorian"]["calls"][:1]),
             ("error-messages", "dataset-output", by["error-message:semantic-error-vs-run"]["calls"] + by["error-message:runtime-error-vs-run"]["calls"][:1]),
             ("parse-mix", "parse", by["parse-mix:prettify-create_ast"]["calls"] + [call("create_ast", "C", "DS_rC := DS_1[filter Me_1 > 0];")])]
    stress(ctx, pools, threads_n=4, iters=5 if ctx.tier == "quick" else 150)
    ctx.cov["rule"] = ("forced: (scenario, schedule) pairs — model race witnesses, 2-switch schedules over the yield points of both calls (all of them in "
                       "thorough), random multi-switch schedules; stress: calls executed by 4 free-running threads with a 1 microsecond switch interval")
    ctx.trusted.append("the deterministic scheduler of harness/props/c17.py (semaphores; one engine thread runs at a time; every wait has a timeout) and the "
                       "yield points committed in /repo (vtlengine._verif.yield_point at every access to the process-global state)")
    ctx.trusted.append("owner attribution of a registry value: id() of the object passed to set_current_registry, read from the caller's frame at registry:set")
    ctx.assumptions.append("GIL preemption inside a bytecode sequence between two yield points and DuckDB-internal threads are not modelled (DESIGN 4 C17 partial); "
                           "the randomized stress run is the only part that exercises them")
    ctx.assumptions.append("solo results are taken from the initial global state of a fresh process (dataset_output None, no registry, counters 0, representation vtl)")


def replay(ctx, obj):
    import engine
    engine.install(need_parser=True)
    import pandas as pd

    calls = [unstrip_call(c) for c in obj["calls"]]
    if obj.get("mode") == "forced":
        solos = [solo(c)[0] for c in calls]
        f = Forced(calls)
        f.run([tuple(x) for x in obj["schedule"]])
        bad = 0
        for i, c in enumerate(calls):
            same = canon(f.results[i]) == canon(solos[i])
            bad += not same
            print(f"call {c['name']} ({c['kind']}): expected (solo) {canon(solos[i])[:300]}\n   observed under schedule {obj['schedule']}: {canon(f.results[i])[:300]}  -> {'same' if same else 'DIFFERENT'}")
        return 1 if bad else 0
    # stress replay
    class C:  # minimal ctx for stress()
        tier = "quick"
        cov: Dict[str, Any] = {}
        n = 0
        def oblige(self, *a): pass
        def count(self, *a, **k): pass
        def log(self, *a): print(*a)
        def violation(self, key, what, rep): self.n += 1; print("observed:", what)
    c = C()
    stress(c, [(obj.get("pool", "replay"), "replay", calls)], obj.get("threads", 4), obj.get("iterations", 30))
    print("expected: every concurrent result equals the solo result")
    return 1 if c.n else 0
