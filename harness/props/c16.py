"""C16 — run() releases its session resources at every failure point; a later run behaves as if the failed run never happened.

Proof: Props/C16.v (step language Model/Effects.v, hand-written skeletons Model/Skeleton.v: *_impl faithful to the CURRENT
code -- bracketed, self-initialising; *_before_fix = the code before the repair commits, regression witness only).
Tie T-skel = K through the guarded hook `vtlengine._verif`: for generated scripts (1-4 statements, 1-3 inputs, DataFrame/CSV
inputs, with/without output_folder, in-memory and file-backed) and a sample of corpus scripts the event trace is recorded,
then EVERY event index k is re-run with `_verif.reset(fault_at=k)` in this process with VTL_TEMP_DIRECTORY at a fresh empty
directory.  Observed per k: an exception was raised, what is left in the temp directory, whether the DuckDB connection is
still open while the exception is alive, new file descriptors after the exception is dropped, and the result of a following
clean run against the result of a process that never failed (one subprocess).  The observed (outcome, leak set, event trace)
is compared with the model's `observe_run` of run_impl for the same position (coq_eval) and must equal it everywhere; the
old skeleton run_before_fix is evaluated next to it only to name a regression.  The property predicate is evaluated on the
observations themselves, so a leak / history dependence is reported as a violation with a replay whatever the model says.
Positions of the model that are not hook events (semantic analysis of statement i) are realised by a script whose i-th
statement is semantically wrong; real configuration errors (VTL_DUCKDB_DECIMAL_WIDTH=3/45, VTL_THREADS=abc) and real load
errors (duplicate identifiers) are run as well."""
from __future__ import annotations

import ast
import gc
import json
import os
import shutil
import subprocess
import sys
import tempfile
import time
import weakref
from pathlib import Path

import common

KIND_LABEL = {"conn:mkdir_session": 0, "conn:connect": 1, "configure:settings": 2, "configure:udf": 3, "configure:decimal": 4,
              "conn:set_session_temp": 5, "init_macros": 6, "load": 7, "exec": 8, "release": 9, "fetch": 10, "save_scalars": 11}
LABEL_KIND = {v: k for k, v in KIND_LABEL.items()}
LSEM = 12
RES_NAME = {0: "session_dir", 1: "connection", 2: "db_file", 3: "temp_view"}
PRE_TRY = ("conn:connect", "configure:settings", "configure:udf", "configure:decimal", "conn:set_session_temp")
COQ_HEADER = ("From Coq Require Import List ZArith.\nImport ListNotations.\n"
              "From VTL Require Import Model.Effects Model.Skeleton.\n")
ENV_KEYS = ("VTL_TEMP_DIRECTORY", "VTL_USE_IN_MEMORY_DB", "VTL_DUCKDB_DECIMAL_WIDTH", "OUTPUT_NUMBER_SIGNIFICANT_DIGITS",
            "VTL_THREADS", "VTL_MEMORY_LIMIT")


# ------------------------------------------------------------------------------------------------ engine access
_E = {}


def eng():
    if not _E:
        os.environ[common.GUARD] = "1"
        import engine
        engine.install(need_parser=True)
        import duckdb
        import pandas as pd
        import vtlengine
        from vtlengine import _verif
        import vtlengine.duckdb_transpiler.Config.config as cfg
        import vtlengine.Exceptions as exc
        _E.update(engine=engine, duckdb=duckdb, pd=pd, vtl=vtlengine, verif=_verif, cfg=cfg, exc=exc, conns=[])
        orig = duckdb.connect

        def tracked_connect(*a, **k):
            c = orig(*a, **k)
            try:
                _E["conns"].append(weakref.ref(c))  # weak: the harness must not keep a connection alive
            except TypeError:
                _E["conns"].append(lambda c=c: c)
            return c
        duckdb.connect = tracked_connect
        _E["orig_connect"] = orig
        try:  # start the parser child now, so that its pipes are not counted as descriptors opened by a run
            vtlengine.API.create_ast("warm_up := 1;")
        except Exception:
            pass
    return _E


def fd_snapshot():
    out = set()
    for f in os.listdir("/proc/self/fd"):
        try:
            t = os.readlink(f"/proc/self/fd/{f}")
        except OSError:
            continue
        if "/proc/" in t and t.endswith("/fd"):
            continue
        out.add((int(f), t))
    return out


def conn_is_open(c) -> bool:
    try:
        c.execute("SELECT 1").fetchall()
        return True
    except Exception:
        return False


def reset_globals():
    """Puts the process globals the engine never resets back to their import-time values (harness hygiene between cases;
    what a failed run leaves in them is recorded BEFORE this is called)."""
    E = eng()
    E["cfg"].DECIMAL_WIDTH = E["cfg"].DEFAULT_DECIMAL_WIDTH
    E["cfg"].DECIMAL_SCALE = E["cfg"].DEFAULT_DECIMAL_SCALE
    (E["exc"].set_dataset_output(None) if hasattr(E["exc"], "set_dataset_output") else setattr(E["exc"], "dataset_output", None))


def globals_now():
    E = eng()
    return {"DECIMAL_WIDTH": E["cfg"].DECIMAL_WIDTH, "DECIMAL_SCALE": E["cfg"].DECIMAL_SCALE,
            "dataset_output": (E["exc"].get_dataset_output() if hasattr(E["exc"], "get_dataset_output") else E["exc"].dataset_output)}


# ------------------------------------------------------------------------------------------------------ cases
def struct_of(names):
    import engine
    return engine.structures(*[engine.ds_struct(n, [("Id_1", "Integer", "Identifier", False), ("Me_1", "Number", "Measure", True)])
                               for n in names])


def gen_case(rng, idx, force=None):
    force = force or {}
    m = force.get("inputs", rng.randint(1, 3))
    n = force.get("stmts", rng.randint(1, 4))
    inputs = [f"DS_{i + 1}" for i in range(m)]
    avail = list(inputs)
    stmts = []
    for i in range(n):
        res = f"R_{i + 1}"
        a, b = rng.choice(avail), rng.choice(avail)
        form = rng.choice(["add", "sub", "mulc", "filter", "abs"])
        expr = {"add": f"{a} + {b}", "sub": f"{a} - {b}", "mulc": f"{a} * {rng.randint(2, 5)}",
                "filter": f"{a} [filter Me_1 > {rng.randint(0, 3)}]", "abs": f"abs({a})"}[form]
        persistent = rng.random() < 0.7
        stmts.append({"res": res, "expr": expr, "persistent": persistent, "operand": a})
        avail.append(res)
    scalar = force.get("scalar", rng.random() < 0.25)
    if scalar:
        stmts.append({"res": "sc_1", "expr": f"{rng.randint(1, 9)} + {rng.randint(1, 9)}", "persistent": True, "operand": None})
    data = {}
    for nm in inputs:
        rows = rng.randint(2, 5)
        data[nm] = {"Id_1": list(range(1, rows + 1)), "Me_1": [round(rng.uniform(-5, 5), 2) if rng.random() > 0.15 else None for _ in range(rows)]}
    return {"id": f"gen{idx}", "origin": "generated", "inputs": inputs, "stmts": stmts, "data": data,
            "as_csv": force.get("as_csv", rng.random() < 0.35), "fb": force.get("fb", rng.random() < 0.5),
            "out": force.get("out", rng.random() < 0.4), "out_format": "csv"}


def script_of(case, bad_stmt=None):
    if case.get("script") is not None and bad_stmt is None:
        return case["script"]
    lines = []
    for i, s in enumerate(case["stmts"]):
        expr = s["expr"]
        if bad_stmt is not None and i == bad_stmt:
            expr = f"{s['operand']} [filter Me_9 > 1]"  # unknown component -> SemanticError while analysing statement i
        lines.append(f"{s['res']} {'<-' if s['persistent'] else ':='} {expr};")
    return "\n".join(lines)


def corpus_candidates():
    root = common.REPO / "tests"
    out = []
    for vtl in sorted(root.glob("*/data/vtl/*.vtl")):
        base = vtl.parent.parent
        if (base / "ValueDomain").exists() or (base / "sql").exists():
            continue
        code = vtl.stem
        js = sorted((base / "DataStructure" / "input").glob(f"{code}-*.json"))
        if not js or len(js) > 4:
            continue
        cs = []
        ok = True
        for j in js:
            c = base / "DataSet" / "input" / (j.stem + ".csv")
            if not c.exists() or c.stat().st_size > 40000:
                ok = False
                break
            cs.append(c)
        if ok and vtl.stat().st_size < 3000:
            out.append((vtl, js, cs))
    return out


def corpus_case(vtl, js, cs):
    structs, dp = [], {}
    for j, c in zip(js, cs):
        d = json.loads(j.read_text(encoding="utf-8-sig"))
        names = [x["name"] for x in d.get("datasets", [])]
        if len(names) != 1:
            return None
        structs.append(d)
        dp[names[0]] = str(c)
    merged = {"datasets": [x for d in structs for x in d.get("datasets", [])]}
    sc = [x for d in structs for x in d.get("scalars", [])]
    if sc:
        merged["scalars"] = sc
    return {"id": "corpus:" + str(vtl.relative_to(common.REPO / "tests")), "origin": "corpus", "script": vtl.read_text(encoding="utf-8-sig"),
            "structs": merged, "paths": dp, "as_csv": True, "fb": False, "out": False, "out_format": "csv", "stmts": None}


def materialise(case, work: Path):
    """-> (structs, datapoints, kwargs); CSV inputs and the output folder live under `work` (outside VTL_TEMP_DIRECTORY)."""
    E = eng()
    pd = E["pd"]
    if case["origin"] == "corpus":
        structs, dp = case["structs"], {k: Path(v) for k, v in case["paths"].items()}
    else:
        structs = struct_of(case["inputs"])
        dp = {}
        for nm, cols in case["data"].items():
            df = pd.DataFrame(cols)
            if case["as_csv"]:
                p = work / "in" / f"{nm}.csv"
                p.parent.mkdir(parents=True, exist_ok=True)
                df.to_csv(p, index=False)
                dp[nm] = p
            else:
                dp[nm] = df
    kw = {}
    if case["out"]:
        out = work / "out"
        if out.exists():
            shutil.rmtree(out)
        kw["output_folder"] = out
        kw["output_format"] = case.get("out_format", "csv")
    return structs, dp, kw


def canon_result(res, kw):
    E = eng()
    from vtlengine.Model import Dataset, Scalar
    out = {"datasets": {}, "scalars": {}, "files": {}}
    for k, v in res.items():
        if isinstance(v, Dataset):
            out["datasets"][k] = E["engine"].canon_dataset(v)
        elif isinstance(v, Scalar):
            out["scalars"][k] = [v.data_type.__name__, E["engine"].canon_value(v.value)]
    of = kw.get("output_folder")
    if of and Path(of).exists():
        for f in sorted(Path(of).iterdir()):
            if f.suffix == ".csv":
                out["files"][f.name] = sorted(f.read_text().splitlines())
            else:
                out["files"][f.name] = f.stat().st_size > 0
    return json.loads(json.dumps(out, default=str))


# ---------------------------------------------------------------------------------------------- one observed run
def run_once(case, work: Path, fault_at=None, env=None, bad_stmt=None, override_dp=None, api="run"):
    """Runs the engine once in a FRESH empty VTL_TEMP_DIRECTORY and returns every observation the property talks about."""
    E = eng()
    verif = E["verif"]
    tmp = Path(tempfile.mkdtemp(prefix="vt_", dir=work))
    saved = {k: os.environ.get(k) for k in ENV_KEYS}
    os.environ["VTL_TEMP_DIRECTORY"] = str(tmp)
    os.environ["VTL_USE_IN_MEMORY_DB"] = "0" if case["fb"] else "1"
    for k, v in (env or {}).items():
        os.environ[k] = v
    structs, dp, kw = materialise(case, work)
    if override_dp:
        dp = dict(dp)
        dp.update(override_dp)
    script = script_of(case, bad_stmt)
    events = []
    verif.sink = lambda kind, name, k, idx: events.append((kind, name, k))
    E["conns"].clear()
    gc.collect()
    fd0 = fd_snapshot()
    obs = {"raised": False, "exc_type": None, "exc_msg": None, "result": None}
    held = None
    verif.reset(fault_at=fault_at)
    try:
        res = E["vtl"].run(script, structs, dp, **kw)
        obs["result"] = canon_result(res, kw)
        del res
    except BaseException as e:  # noqa: B902 -- the observation must survive anything the engine raises
        held = e  # keep the exception (and its traceback) alive, as a caller that logs or stores it would
        obs.update(raised=True, exc_type=type(e).__name__, exc_msg=str(e)[:400])
    finally:
        verif.reset()
        verif.sink = None
    obs["trace"] = [KIND_LABEL.get(k, -1) for k, _, _ in events]
    obs["events"] = [[k, str(n) if n is not None else None, kk] for k, n, kk in events]
    # (b) what is left in the temp directory
    left = sorted(str(p.relative_to(tmp)) for p in tmp.rglob("*"))
    obs["left"] = left
    leak = set()
    if any(Path(x).name.startswith("duckdb_tmp_") for x in left):
        leak.add(0)
    if any(Path(x).name == "session.duckdb" for x in left):
        leak.add(2)
    # (c1) connection still open although run() has returned control (the exception is still referenced)
    open_conns = [c for c in (r() for r in E["conns"]) if c is not None and conn_is_open(c)]
    if open_conns:
        leak.add(1)
    obs["conn_open_while_exception_alive"] = len(open_conns)
    del open_conns
    # (c2) after the exception is dropped: nothing may remain
    held = None
    gc.collect()
    still = [c for c in (r() for r in E["conns"]) if c is not None and conn_is_open(c)]
    obs["conn_open_after_gc"] = len(still)
    for c in still:
        c.close()
    del still
    E["conns"].clear()
    gc.collect()
    fd1 = fd_snapshot()
    obs["new_fds"] = sorted(t for f, t in (fd1 - fd0))
    obs["leak"] = sorted(leak)
    obs["globals_after"] = globals_now()
    for k, v in saved.items():
        if v is None:
            os.environ.pop(k, None)
        else:
            os.environ[k] = v
    shutil.rmtree(tmp, ignore_errors=True)
    return obs


# ------------------------------------------------------------------------------------------------ model side
def shape_of_trace(events, as_csv):
    """Parses a fault-free event trace with the grammar of the skeleton; returns (stmts, nfinal, save) or raises."""
    kinds = [e[0] for e in events]
    pre = ["conn:mkdir_session", "conn:connect", "configure:settings", "configure:udf", "configure:decimal",
           "conn:set_session_temp", "init_macros"]
    if kinds[:7] != pre:
        raise ValueError(f"prefix {kinds[:7]}")
    i, stmts = 7, []
    while i < len(kinds) and kinds[i] in ("load", "exec"):
        loads = 0
        while kinds[i] == "load":
            loads += 1
            i += 1
        if kinds[i] != "exec":
            raise ValueError(f"expected exec at {i}: {kinds[i]}")
        i += 1
        cl = []
        while i < len(kinds) and kinds[i] == "release":
            i += 1
            if i < len(kinds) and kinds[i] == "fetch" and events[i][1] == events[i - 1][1]:
                cl.append(True)
                i += 1
            else:
                cl.append(False)
        stmts.append((loads, cl))
    nfinal = 0
    while i < len(kinds) and kinds[i] == "fetch":
        nfinal += 1
        i += 1
    save = False
    if i < len(kinds) and kinds[i] == "save_scalars":
        save = True
        i += 1
    if i != len(kinds):
        raise ValueError(f"trailing events {kinds[i:]}")
    return stmts, nfinal, save


def coq_body(shape, as_csv):
    stmts, nfinal, save = shape
    ld = "LoadCsv" if as_csv else "LoadDf"
    ss = common.coq_list([f"mkStmt {common.coq_list([ld] * l)} {common.coq_list([common.coq_bool(b) for b in cl])}" for l, cl in stmts])
    return f"(exec_queries {ss} {nfinal} {common.coq_bool(save)})"


def coq_opt_z(v):
    return "None" if v is None else f"(Some {common.coq_z(v)})"


def model_expr(variant, n, fb, body, k, envw=None, envs=None):
    kk = "None" if k is None else f"(Some {k})"
    return f"observe_run {kk} (run_{variant} {n} {common.coq_bool(fb)} {coq_opt_z(envw)} {coq_opt_z(envs)} {body}) G0"


def parse_model(v):
    """(outcome, live, trace) printed by Coq -> ('Fail'|'Ok', sorted leak, [labels without the leading LSem])"""
    o, live, tr = v
    return o, sorted(live), [x for x in tr]


# ------------------------------------------------------------------------------------- secondary: lexical shape
def lexical_shape():
    """Secondary (never decides): are mkdir / connect lexically inside the try of configured_connection?"""
    src = (common.SRC / "duckdb_transpiler" / "Config" / "config.py").read_text()
    tree = ast.parse(src)
    for fn in ast.walk(tree):
        if isinstance(fn, ast.FunctionDef) and fn.name == "configured_connection":
            before, inside = [], []
            for st in fn.body:
                bucket = inside if isinstance(st, ast.Try) else before
                for c in ast.walk(st):
                    if isinstance(c, ast.Call):
                        f = c.func
                        nm = f.attr if isinstance(f, ast.Attribute) else getattr(f, "id", "")
                        if nm in ("mkdir", "create_configured_connection", "connect", "configure_duckdb_connection"):
                            bucket.append(nm)
            return {"acquisitions_before_try": before, "acquisitions_inside_try": inside}
    return {"error": "configured_connection not found"}


# ---------------------------------------------------------------------------------------------------- reference
def reference_main(path):
    """Runs in a subprocess that never sees a failing run: the clean result of every case and the fresh error messages."""
    spec = json.loads(Path(path).read_text())
    work = Path(tempfile.mkdtemp(prefix="c16ref_"))
    out = {"clean": {}, "msgs": {}}
    try:
        for case in spec["cases"]:
            o = run_once(case, work)
            out["clean"][case["id"]] = {"raised": o["raised"], "result": o["result"], "exc": o["exc_type"], "n_events": len(o["trace"])}
        out["msgs"]["validate_dup"] = validate_dup_message()
    finally:
        shutil.rmtree(work, ignore_errors=True)
    Path(spec["out"]).write_text(json.dumps(out))


def validate_dup_message():
    E = eng()
    st = struct_of(["DS_1"])
    try:
        E["vtl"].validate_dataset(st, {"DS_1": E["pd"].DataFrame({"Id_1": [1, 1], "Me_1": [1.0, 2.0]})})
        return None
    except Exception as e:
        return f"{type(e).__name__}: {e}"


def run_reference(cases, scratch: Path):
    spec = scratch / "ref_in.json"
    outp = scratch / "ref_out.json"
    spec.write_text(json.dumps({"cases": cases, "out": str(outp)}, default=str))
    env = dict(os.environ)
    for k in ENV_KEYS:
        env.pop(k, None)
    rc, out = common.sh([sys.executable, "-c", f"import props.c16 as m; m.reference_main({str(spec)!r})"], timeout=900,
                        cwd=common.VERIF / "harness", env=env)
    if rc != 0 or not outp.exists():
        raise RuntimeError("reference subprocess failed: " + out[-1500:])
    return json.loads(outp.read_text())


# ---------------------------------------------------------------------------------------------------------- run
def leak_key(res_code, kind, real_config_error=False):
    if real_config_error or kind in PRE_TRY:
        return f"leak:{RES_NAME[res_code]}:before-try"
    return f"leak:{RES_NAME[res_code]}:{kind}"


def replay_of(case, **extra):
    d = {"case": case}
    d.update(extra)
    return d


def run(ctx):
    t0 = time.time()
    E = eng()
    ok = ctx.prove("C16")
    ctx.cov["rule"] = ("every event index of every case (exhaustive per case) x {fault, clean-after}; cases = generated scripts "
                       "(1-4 statements, 1-3 inputs, DataFrame/CSV, output_folder, in-memory/file-backed) + corpus sample; "
                       "distinct = (case, fault position)")
    ctx.cov["lexical_shape_secondary"] = lexical_shape()
    quick = ctx.tier == "quick"
    n_gen, n_corpus, n_seq = (10, 3, 8) if quick else (40, 24, 60)
    rng = ctx.rng
    cases = []
    # directed corners first, then random ones
    corners = [dict(inputs=1, stmts=1, fb=False, out=False, as_csv=False, scalar=False),
               dict(inputs=1, stmts=1, fb=True, out=True, as_csv=True, scalar=True),
               dict(inputs=3, stmts=4, fb=True, out=False, as_csv=False, scalar=False),
               dict(inputs=2, stmts=3, fb=False, out=True, as_csv=False, scalar=True)]
    for i, f in enumerate(corners):
        cases.append(gen_case(rng, i, f))
    while len(cases) < n_gen:
        cases.append(gen_case(rng, len(cases)))
    cands = corpus_candidates()
    rng.shuffle(cands)
    corpus_pool = [c for c in (corpus_case(*x) for x in cands[: n_corpus * 6]) if c is not None]
    scratch = Path(tempfile.mkdtemp(prefix="c16_"))
    try:
        _run(ctx, E, cases, corpus_pool, n_corpus, n_seq, scratch, rng)
    finally:
        reset_globals()
        shutil.rmtree(scratch, ignore_errors=True)
    ctx.cov["wall_tie_s"] = round(time.time() - t0, 1)
    ctx.trusted.append("T-skel: hand-written Model/Skeleton.v (run_impl = current code) tied by K through vtlengine._verif (event order, outcome, leak set per fault "
                       "position); the observation code of harness/props/c16.py (temp-dir listing, weak references to DuckDB "
                       "connections, /proc/self/fd); DuckDB 1.5.5 connection/close semantics are observed, not modelled")
    ctx.assumptions.append("a failure is modelled as raising at an event boundary (the hook raises BEFORE the operation of that event); "
                           "failures in the middle of an operation are covered only by the real-failure cases (duplicate identifiers at "
                           "load, configuration errors) and by DuckDB's own transactional cleanup")
    ctx.assumptions.append("the 'fresh process' reference is one subprocess that runs every clean case and never a failing one")


def _run(ctx, E, cases, corpus_pool, n_corpus, n_seq, scratch, rng):
    work = scratch / "work"
    work.mkdir()
    # ---- fault-free traces (this also filters the corpus pool down to scripts that run)
    live_cases, traces = [], {}
    n_c = 0
    for case in cases + corpus_pool:
        if case["origin"] == "corpus" and n_c >= n_corpus:
            break
        reset_globals()
        o = run_once(case, work)
        if o["raised"] or len(o["trace"]) > 70:
            if case["origin"] == "generated":
                ctx.oblige(f"generated case {case['id']} runs fault-free", False, f"{o['exc_type']}: {o['exc_msg']}\n{script_of(case)}")
            continue
        if case["origin"] == "corpus":
            n_c += 1
        live_cases.append(case)
        traces[case["id"]] = o
    ctx.log(f"{len(live_cases)} cases run fault-free ({n_c} corpus); events per case: "
            f"{sorted(len(traces[c['id']]['trace']) for c in live_cases)}")
    ctx.cov["cases"] = len(live_cases)
    ctx.cov["corpus_cases"] = [c["id"] for c in live_cases if c["origin"] == "corpus"]
    ref = run_reference(live_cases, scratch)
    # the in-process clean run must already equal the fresh process (otherwise nothing below means anything)
    dropped = []
    for case in list(live_cases):
        r = ref["clean"][case["id"]]
        same = (not r["raised"]) and r["result"] == traces[case["id"]]["result"]
        if not same and case["origin"] == "corpus":
            # two clean runs of a corpus script disagree already (not this property's business): leave it out, say so
            dropped.append(case["id"])
            live_cases.remove(case)
            continue
        ctx.oblige(f"clean run of {case['id']} equals the fresh-process reference", same,
                   "" if same else f"ref={json.dumps(r)[:300]} here={json.dumps(traces[case['id']]['result'])[:300]}")
    ctx.cov["corpus_cases_dropped_clean_runs_disagree"] = dropped
    ctx.cov["corpus_cases"] = [c["id"] for c in live_cases if c["origin"] == "corpus"]

    # ---- model predictions for every position of every case
    exprs, index = [], []
    shapes = {}
    for case in live_cases:
        o = traces[case["id"]]
        try:
            shape = shape_of_trace([tuple(e) for e in o["events"]], case["as_csv"])
        except Exception as e:
            ctx.oblige(f"event trace of {case['id']} fits the skeleton grammar", False, f"{e}: {o['events']}")
            continue
        n = len(case["stmts"]) if case["stmts"] is not None else len(shape[0])
        body = coq_body(shape, case["as_csv"])
        shapes[case["id"]] = (n, body)
        for k in list(range(len(o["trace"]))) + [None]:
            for variant in ("impl", "before_fix"):
                exprs.append(model_expr(variant, n, case["fb"], body, None if k is None else n + k))
                index.append((case["id"], "event", k, variant))
        if case["stmts"] is not None:
            for i in range(n):
                if case["stmts"][i]["operand"] is None:
                    continue
                for variant in ("impl", "before_fix"):
                    exprs.append(model_expr(variant, n, case["fb"], body, i))
                    index.append((case["id"], "sem", i, variant))
    ctx.oblige("event traces fit the skeleton grammar (conn prefix, init_macros, (load* exec (release fetch?)*)*, fetch*, save_scalars?)",
               len(shapes) == len(live_cases), f"{len(shapes)}/{len(live_cases)}")
    vals = common.coq_eval(COQ_HEADER, exprs, "c16")
    model = {ix: parse_model(v) for ix, v in zip(index, vals)}
    ctx.log(f"model evaluated on {len(exprs)} (case, position, variant) points")

    # ---- fault enumeration
    hist = {"faults": 0, "leaky_positions": 0, "clean_after_ok": 0, "real_failures": 0,
            "sem_faults": 0, "sequences": 0, "by_kind": {}}
    tie_bad = []
    matches = {"impl": 0, "before_fix": 0, "total": 0}

    def check_property(case, o, kind, pos_desc, replay, expect_fail=True, real_config=False):
        """The property predicate itself, on the observations of one failing run."""
        if expect_fail and not o["raised"]:
            ctx.violation(f"no-error:{kind}", f"{case['id']}: fault at {pos_desc} but run() returned normally", replay)
        for r in o["leak"]:
            what = (f"run() failing at {pos_desc} leaves the {RES_NAME[r]} behind "
                    + {0: "(duckdb_tmp_* session directory stays in VTL_TEMP_DIRECTORY)",
                       1: "(the DuckDB connection is not closed; it stays open as long as the exception/traceback is referenced)",
                       2: "(session.duckdb stays on disk inside the leaked session directory)"}.get(r, "")
                    + f" [{case['id']}, left={o['left'][:3]}]")
            ctx.violation(leak_key(r, kind, real_config), what, replay)
        if o["conn_open_after_gc"] or o["new_fds"]:
            ctx.violation(f"leak:after-gc:{kind}", f"{case['id']}: after dropping the exception and gc.collect(): "
                          f"{o['conn_open_after_gc']} open connections, new fds {o['new_fds']}", replay)

    def compare(case, o, ix_kind, k, n_sem_prefix):
        cid = case["id"]
        got = ("Fail" if o["raised"] else "Ok", o["leak"], o["trace"])
        res = {}
        for variant in ("impl", "before_fix"):
            mo, ml, mt = model[(cid, ix_kind, k, variant)]
            mt2 = mt[n_sem_prefix:] if ix_kind == "event" else [x for x in mt if x != LSEM]
            ml2 = [x for x in ml if x != 3]
            res[variant] = (mo, ml2, mt2) == got
            if variant == "impl" and not res[variant]:
                res["impl_pred"] = (mo, ml2, mt2)
        matches["total"] += 1
        matches["impl"] += res["impl"]
        matches["before_fix"] += res["before_fix"]
        if not res["impl"]:
            tie_bad.append({"case": cid, "pos": [ix_kind, k], "engine": got, "model_impl": res.get("impl_pred")})

    for case in live_cases:
        if case["id"] not in shapes:
            continue
        n, body = shapes[case["id"]]
        base = traces[case["id"]]
        refres = ref["clean"][case["id"]]["result"]
        N = len(base["trace"])
        for k in range(N):
            reset_globals()
            o = run_once(case, work, fault_at=k)
            kind = base["events"][k][0]
            hist["faults"] += 1
            hist["by_kind"][kind] = hist["by_kind"].get(kind, 0) + 1
            ctx.count((case["id"], "fault", k))
            rp = replay_of(case, fault_at=k, event=base["events"][k], expected="exception raised, empty temp directory, connection closed",
                           observed={kk: o[kk] for kk in ("raised", "exc_type", "left", "leak", "conn_open_while_exception_alive", "new_fds")})
            if o["leak"]:
                hist["leaky_positions"] += 1
            if o["raised"] and o["exc_type"] != "InjectedFault":
                ctx.oblige(f"fault at {kind} surfaces as the injected fault", False, f"{case['id']} k={k}: {o['exc_type']}: {o['exc_msg']}")
            check_property(case, o, kind, f"event {k} ({kind})", rp)
            compare(case, o, "event", k, n)
            # (d) a clean run right after the failing one
            c = run_once(case, work)
            ctx.count((case["id"], "clean-after", k))
            if c["raised"] or c["result"] != refres or c["leak"]:
                ctx.violation(f"history:clean-run-differs:{kind}",
                              f"{case['id']}: after a failure at event {k} ({kind}) the next clean run "
                              + (f"raises {c['exc_type']}: {c['exc_msg']}" if c["raised"] else "returns a different result / leaks"),
                              replay_of(case, fault_sequence=[k], expected=refres, observed=c["result"] or c["exc_msg"]))
            else:
                hist["clean_after_ok"] += 1
        # fault-free position of the model
        compare(case, base, "event", None, n)
        # semantic failures = model positions 0..n-1
        if case["stmts"] is not None:
            for i in range(n):
                if case["stmts"][i]["operand"] is None:
                    continue
                reset_globals()
                o = run_once(case, work, bad_stmt=i)
                hist["sem_faults"] += 1
                ctx.count((case["id"], "sem", i))
                rp = replay_of(case, bad_stmt=i, expected="SemanticError, nothing acquired", observed={kk: o[kk] for kk in ("raised", "exc_type", "left", "leak")})
                check_property(case, o, "semantic", f"semantic analysis of statement {i + 1}", rp)
                compare(case, o, "sem", i, 0)
                if o["raised"] and o["exc_type"] != "SemanticError":
                    ctx.oblige("semantically wrong statement raises SemanticError", False, f"{case['id']} stmt {i}: {o['exc_type']} {o['exc_msg']}")

    # ---- sequences of up to 3 failing runs followed by a clean one
    seq_cases = [c for c in live_cases if c["id"] in shapes]
    for _ in range(n_seq):
        case = rng.choice(seq_cases)
        N = len(traces[case["id"]]["trace"])
        ks = [rng.randrange(N) for _ in range(rng.randint(2, 3))]
        reset_globals()
        for k in ks:
            run_once(case, work, fault_at=k)
        c = run_once(case, work)
        hist["sequences"] += 1
        ctx.count((case["id"], "seq", tuple(ks)))
        if c["raised"] or c["result"] != ref["clean"][case["id"]]["result"] or c["leak"]:
            ctx.violation("history:clean-run-differs:sequence", f"{case['id']}: after failures at events {ks} the next clean run differs",
                          replay_of(case, fault_sequence=ks, expected=ref["clean"][case["id"]]["result"], observed=c["result"] or c["exc_msg"]))

    # ---- real failures (no injected fault)
    real_failures(ctx, E, live_cases, shapes, traces, ref, work, hist, check_property, tie_bad)

    # ---- tie verdict
    ctx.cov["histogram"] = hist
    ctx.cov["tie_matches"] = matches
    which = "impl" if matches["impl"] == matches["total"] else ("before_fix" if matches["before_fix"] == matches["total"] else "neither")
    ctx.cov["engine_matches_skeleton"] = which
    ctx.oblige("tie T-skel: observed (outcome, leak set, event trace) at EVERY fault position equals the model's observe_run of the "
               "current skeleton run_impl", which == "impl" and not tie_bad, json.dumps(tie_bad[:3], default=str))
    if which == "before_fix":
        ctx.log("REGRESSION: the engine matches run_before_fix (acquisition before the try) at every position")
    for s in (tie_bad[:2] or [{"case": c["id"], "events": len(traces[c["id"]]["trace"]), "fb": c["fb"], "out": c["out"], "csv": c["as_csv"]}
                              for c in live_cases[:6]]):
        ctx.sample(s)
    ctx.log(f"faults {hist['faults']} (leaky positions {hist['leaky_positions']}), semantic faults {hist['sem_faults']}, sequences {hist['sequences']}, "
            f"real failures {hist['real_failures']}; model/engine agreement run_impl {matches['impl']}/{matches['total']} "
            f"(old run_before_fix would agree on {matches['before_fix']}/{matches['total']})")


def real_failures(ctx, E, live_cases, shapes, traces, ref, work, hist, check_property, tie_bad):
    gen = [c for c in live_cases if c["origin"] == "generated" and c["id"] in shapes]
    if not gen:
        ctx.oblige("real-failure cases available", False, "no generated case survived")
        return
    picks = [gen[0]] + [c for c in gen[1:] if c["fb"] != gen[0]["fb"]][:1]
    exprs, idx = [], []
    for case in picks:
        n, body = shapes[case["id"]]
        for tag, w, s in (("W3", 3, None), ("W45", 45, None), ("S3", None, 3)):
            for variant in ("impl", "before_fix"):
                exprs.append(model_expr(variant, n, case["fb"], body, None, w, s))
                idx.append((case["id"], tag, variant))
    vals = common.coq_eval(COQ_HEADER, exprs, "c16real")
    model = {ix: parse_model(v) for ix, v in zip(idx, vals)}
    for case in picks:
        n, body = shapes[case["id"]]
        refres = ref["clean"][case["id"]]["result"]
        for tag, envd in (("W3", {"VTL_DUCKDB_DECIMAL_WIDTH": "3"}), ("W45", {"VTL_DUCKDB_DECIMAL_WIDTH": "45"}),
                          ("S3", {"OUTPUT_NUMBER_SIGNIFICANT_DIGITS": "3"}), ("THREADS", {"VTL_THREADS": "abc"})):
            reset_globals()
            o = run_once(case, work, env=envd)
            hist["real_failures"] += 1
            ctx.count((case["id"], "real", tag))
            rp = replay_of(case, env=envd, expected="an error, nothing left behind; the next run with the variable unset succeeds",
                           observed={kk: o[kk] for kk in ("raised", "exc_type", "exc_msg", "left", "leak", "globals_after")})
            in_config = bool(o["trace"]) and LABEL_KIND.get(o["trace"][-1], "") in PRE_TRY
            check_property(case, o, LABEL_KIND.get(o["trace"][-1], "?") if o["trace"] else "?", f"a configuration error ({envd})", rp,
                           real_config=in_config)
            if tag in ("W3", "W45", "S3"):
                got = ("Fail" if o["raised"] else "Ok", o["leak"], o["trace"])
                mo, ml, mt = model[(case["id"], tag, "impl")]
                if (mo, [x for x in ml if x != 3], mt[n:]) != got:
                    tie_bad.append({"case": case["id"], "pos": ["real", tag], "engine": got, "model_impl": model[(case["id"], tag, "impl")]})
            # history: the variable is unset again (run_once restored the environment) -- NO reset of the module globals here
            c = run_once(case, work)
            if c["raised"] or c["result"] != refres:
                ctx.violation("history:decimal-config-sticky",
                              f"after a run that failed with {envd} the next run WITHOUT the variable "
                              + (f"still fails ({c['exc_type']}: {c['exc_msg'][:160]})" if c["raised"] else "returns a different result")
                              + f"; module globals {o['globals_after']} are never reset [{case['id']}]",
                              replay_of(case, env_sequence=[envd, {}], expected=refres, observed=c["exc_msg"] or c["result"]))
        # real load failure: duplicate identifiers in one input (inside the try: must not leak)
        if not case["as_csv"]:
            reset_globals()
            nm = case["inputs"][0]
            bad = E["pd"].DataFrame({"Id_1": [1, 1], "Me_1": [1.0, 2.0]})
            o = run_once(case, work, override_dp={nm: bad})
            hist["real_failures"] += 1
            ctx.count((case["id"], "real", "dup-ids"))
            if o["trace"] and LABEL_KIND.get(o["trace"][-1]) == "load" or not o["raised"]:
                check_property(case, o, "load", f"a DataLoadError while loading {nm}", replay_of(case, dup_ids=nm, observed=o["exc_msg"]),
                               expect_fail=any(nm in (e[1] or "") for e in traces[case["id"]]["events"] if e[0] == "load"))
        # real write failure: the output folder path is an existing file
        reset_globals()
        blocker = work / "blocker"
        blocker.write_text("x")
        case2 = dict(case, out=False)
        structs, dp, _ = materialise(case2, work)
        tmp = Path(tempfile.mkdtemp(prefix="vt_", dir=work))
        os.environ["VTL_TEMP_DIRECTORY"] = str(tmp)
        try:
            try:
                E["vtl"].run(script_of(case), structs, dp, output_folder=blocker / "sub")
                raised = False
            except Exception:
                raised = True
            left = sorted(p.name for p in tmp.rglob("*"))
            hist["real_failures"] += 1
            ctx.count((case["id"], "real", "output-folder-is-file"))
            if left:
                ctx.violation("leak:session_dir:output-folder-error", f"{case['id']}: unusable output_folder leaves {left}",
                              replay_of(case, output_folder="<a path below an existing file>", observed=left))
            ctx.oblige("unusable output_folder raises", raised, case["id"])
        finally:
            os.environ.pop("VTL_TEMP_DIRECTORY", None)
            shutil.rmtree(tmp, ignore_errors=True)
    # dataset_output left set by a semantic error changes the message of the next, unrelated error
    reset_globals()
    fresh = ref["msgs"].get("validate_dup")
    case = picks[0]
    sem_i = next((i for i, s in enumerate(case["stmts"]) if s["operand"] is not None), None)
    if sem_i is not None and fresh:
        run_once(case, work, bad_stmt=sem_i)
        left_set = globals_now()["dataset_output"]
        after = validate_dup_message()
        hist["real_failures"] += 1
        ctx.count((case["id"], "real", "dataset_output"))
        if after != fresh:
            ctx.violation("history:dataset_output-stale",
                          f"after run() failed with a SemanticError in the statement producing {left_set!r}, vtlengine.Exceptions.dataset_output "
                          f"stays {left_set!r}; the next unrelated error reads it: {after!r} (fresh process: {fresh!r})",
                          replay_of(case, bad_stmt=sem_i, then="validate_dataset(duplicate identifiers)", expected=fresh, observed=after))
    reset_globals()


# -------------------------------------------------------------------------------------------------------- replay
def replay(ctx, obj):
    E = eng()
    case = obj.get("case")
    if not case:
        print("replay names a broken obligation only:", obj.get("what"))
        return 1
    work = Path(tempfile.mkdtemp(prefix="c16rp_"))
    try:
        reset_globals()
        print("script:\n" + script_of(case, obj.get("bad_stmt")))
        print("file-backed:", case["fb"], "output_folder:", case["out"], "csv inputs:", case["as_csv"])
        bad = 0
        if "fault_sequence" in obj or "env_sequence" in obj:
            for k in obj.get("fault_sequence", []):
                o = run_once(case, work, fault_at=k)
                print(f"  failing run (fault_at={k}): raised={o['exc_type']} left={o['left']}")
            for envd in obj.get("env_sequence", [])[:-1]:
                o = run_once(case, work, env=envd)
                print(f"  failing run (env={envd}): raised={o['exc_type']} globals after={o['globals_after']}")
            c = run_once(case, work)
            print("expected: the clean run succeeds with", json.dumps(obj.get("expected"))[:300])
            print("observed:", ("raises " + str(c["exc_type"]) + ": " + str(c["exc_msg"])) if c["raised"] else json.dumps(c["result"])[:300])
            bad = int(c["raised"] or c["result"] != obj.get("expected"))
        elif obj.get("then"):
            run_once(case, work, bad_stmt=obj.get("bad_stmt"))
            after = validate_dup_message()
            print("expected:", obj.get("expected"))
            print("observed:", after)
            bad = int(after != obj.get("expected"))
        else:
            o = run_once(case, work, fault_at=obj.get("fault_at"), env=obj.get("env"), bad_stmt=obj.get("bad_stmt"))
            print("expected: an exception, an empty VTL_TEMP_DIRECTORY, the connection closed")
            print(f"observed: raised={o['exc_type']} left={o['left']} connection-open-while-exception-alive={o['conn_open_while_exception_alive']} "
                  f"new fds={o['new_fds']} globals={o['globals_after']}")
            bad = int(bool(o["leak"]) or not o["raised"])
        return bad
    finally:
        reset_globals()
        shutil.rmtree(work, ignore_errors=True)
