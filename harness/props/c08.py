"""C08 — time operators follow the real calendar.

Proof : Props/C08.v (Calendar + Period specification for ALL years / shifts; macro-faithful `*_impl` functions: *_ok, macro_shift_partial,
        *_refuted with witnesses).
Tie X : T-macros (translate/period.py): every period of every indicator (number 1..static maximum, i.e. also week 53 / day 366 of
        years that do not have them) for 1900-2100 x the scalar macros x shifts (quick: 12 shifts per (indicator, year) incl. +-1, +-60;
        thorough: all -60..60), executed by the REAL macros on a connection initialised by the engine's initialize_time_types, against
        the Gallina `*_impl` functions; DuckDB date builtins / vtl_time_agg_date / vtl_dateadd against Base/Calendar on every date
        1900-01-01..2100-12-31.
Tie K : translate/period_ds.py: generated series with gaps through vtlengine.run; predicates evaluated on the engine's output.
Findings: where the (tied) macros leave the calendar the witnesses are confirmed on the real engine and reported under stable keys."""
from __future__ import annotations

import json
import time
import traceback
from typing import Any, Dict, List, Tuple

import common
from translate import period as P
from translate import period_ds as D

YEARS = list(range(P.Y0, P.Y1 + 1))
SCALAR_COLS = ["valid", "start_date", "end_date", "getmonth", "dayofmonth", "dayofyear", "time_agg_to_A", "time_agg_to_S", "time_agg_to_Q",
               "time_agg_to_M", "time_agg_to_W", "time_agg_to_D", "fill_time_series_step"]


# ====================================================================================================== X: macros
def tier_years(ctx) -> List[int]:
    """thorough: every year 1900-2100; quick: 30 sampled years + the two ends, a 400-multiple, 53-week and leap years and their successors"""
    if ctx.tier == "thorough":
        return YEARS
    fixed = [y for y in (1900, 2000, 2015, 2016, 2020, 2021, 2100) if y in YEARS]
    return sorted(set(ctx.rng.sample(YEARS, min(30, len(YEARS))) + fixed))


def choose_shifts(ctx, years) -> Dict[Tuple[int, str], List[int]]:
    keys = [(y, i) for y in years for i in P.INDS]
    if ctx.tier == "thorough":
        return {k: list(range(-60, 61)) for k in keys}
    return {k: sorted(set([-60, -1, 1, 60] + [ctx.rng.randint(-60, 60) for _ in range(8)])) for k in keys}


def confirm_macro_shift(y, ind, num, n) -> str:
    r = P.conn().execute(
        f"SELECT vtl_tp_shift({{'year': {y}, 'period_indicator': '{ind}', 'period_number': {num}}}::vtl_time_period, {n})").fetchone()[0]
    return r


def x_periods(ctx) -> None:
    t0 = time.time()
    years = tier_years(ctx)
    ctx.cov["x_years"] = len(years)
    P.load_periods(years)
    shifts = choose_shifts(ctx, years)
    sc = P.sql_scalar_rows()
    sh = P.sql_shift_rows(shifts)
    nper = P.conn().execute("SELECT COUNT(*), SUM(CAST(valid AS INTEGER)) FROM periods").fetchone()
    ctx.log(f"X: real macros evaluated on {nper[0]} periods ({nper[1]} valid) x 13 scalar results and "
            f"{sum(len(v) for v in shifts.values()) // len(shifts)} shifts each in {time.time() - t0:.1f}s")
    keys = sorted(shifts)
    t1 = time.time()
    fp = P.coq_fp("tie_period_fp", keys, {k: " " + P.zlist(v) for k, v in shifts.items()}, "c08x")
    ctx.log(f"X: Gallina *_impl evaluated on the same domain in {time.time() - t1:.1f}s")
    valid_sql = dict(((y, i), c) for y, i, c in P.conn().execute(
        "SELECT y, ind, SUM(CAST(valid AS INTEGER)) FROM periods GROUP BY y, ind").fetchall())
    bad_scalar, bad_shift, bad_count = [], [], []
    n_eval = 0
    for k in keys:
        v = fp[k]
        flat = [x for r in sc[k] for x in r]
        n_eval += len(flat) + sh[k].size
        if v[0] != valid_sql[k]:
            bad_count.append((k, v[0], valid_sql[k]))
        if v[1] != P.fpz(flat):
            bad_scalar.append(k)
        if v[2] != P.fpz(sh[k].reshape(-1)):
            bad_shift.append(k)
    ctx.count(None, n_eval)
    for k in keys:
        ctx.count(("x", k))
    ctx.oblige("X: periods_in_year (Gallina) = number of valid periods by DuckDB's WEEKOFYEAR(Dec 28)/DAYOFYEAR(Dec 31), all (indicator, year)",
               not bad_count, str(bad_count[:5]))
    # localise fingerprint mismatches pointwise; at a VALID period the transcription equals the calendar (C08_macro_dates_ok,
    # C08_macro_time_agg_ok), so an engine value that differs from it differs from the calendar: a violation with its input
    for name, bad, rows_fn, sql_rows in (("scalar macros", bad_scalar, "tie_scalar_rows", lambda k: sc[k]),
                                         ("vtl_tp_shift", bad_shift, "tie_shift_rows", lambda k: sh[k].tolist())):
        detail = ""
        if bad:
            ks = bad[:3]
            args = {k: " " + P.zlist(shifts[k]) for k in ks} if rows_fn == "tie_shift_rows" else {}
            cr = P.coq_rows(rows_fn, ks, args, "c08loc")
            for k in ks:
                d = P.first_diff(cr[k], sql_rows(k))
                detail += f"{k}: number {d[0] + 1 if d else '?'} column {d[1] if d else '?'}: model {d[2] if d else '?'} engine {d[3] if d else '?'}; "
                if not d or d[0] >= valid_sql[k]:
                    continue
                y, i = k
                num = d[0] + 1
                if rows_fn == "tie_scalar_rows":
                    col = SCALAR_COLS[d[1]] if d[1] < len(SCALAR_COLS) else f"column{d[1]}"
                    ctx.violation(f"macro:{col}:{i}:differs-from-calendar",
                                  f"{col} of {D.canon((y, i, num))}: the engine's macro gives {d[3]}, the calendar gives {d[2]} "
                                  f"(encoding: day numbers + 1000000, periods year*1000+number)",
                                  {"kind": "macro_scalar", "year": y, "ind": i, "num": num, "column": col, "expected": d[2], "observed": d[3]})
                else:
                    n = shifts[k][d[1]]
                    ctx.violation(f"timeshift:{i}:differs-from-calendar", f"vtl_tp_shift({D.canon((y, i, num))}, {n}) gives year*1000+number = {d[3]}, "
                                  f"the calendar gives {d[2]} (C08_macro_shift_ok: the transcribed macro is the calendar shift)",
                                  {"kind": "macro_shift", "year": y, "ind": i, "num": num, "n": n,
                                   "expected": D.canon((d[2] // 1000, i, d[2] % 1000)), "observed": d[3]})
        ctx.oblige(f"X: {name}: Gallina *_impl = real SQL macro on every period of every indicator of {len(years)} years of {YEARS[0]}-{YEARS[-1]} "
                   f"({len(keys)} shards, fingerprint + pointwise localisation)", not bad, f"{len(bad)} shards differ: {detail}")
    ctx.cov["x_periods"] = int(nper[0])
    ctx.cov["x_shift_pairs"] = int(sum(v.size for v in sh.values()))
    ctx.cov["x_scalar_values"] = int(sum(len(r) for v in sc.values() for r in v))
    # ---- where the (tied) macro leaves the calendar: confirm on the real engine, report


def x_calendar(ctx) -> None:
    t0 = time.time()
    nshift = 4 if ctx.tier == "thorough" else 1
    years = tier_years(ctx)
    shifts = {y: sorted(set([ctx.rng.choice([-25, -13, -12, -1, 1, 11, 12, 14, 24, 37])] +
                            [ctx.rng.randint(-60, 60) for _ in range(nshift - 1)])) for y in years}
    # units of vtl_dateadd: thorough all six; quick one of D/W and one of M/Q/S/A per year
    units = {y: (P.INDS if ctx.tier == "thorough" else ctx.rng.choice("DW") + ctx.rng.choice("MQSA")) for y in years}
    year_rows, cal = P.sql_calendar_rows(years, shifts, units)
    keys = [(y,) for y in years]
    cargs = {(y,): " " + P.zlist(shifts[y]) + " " + common.coq_list([P.COQ_IND[u] for u in units[y]]) for y in years}
    fp = P.coq_fp("tie_calendar_fp", keys, cargs, "c08cal")
    bad_year, bad = [], []
    n_eval = 0
    for y in years:
        v = fp[(y,)]
        if v[:5] != year_rows[y]:
            bad_year.append((y, v[:5], year_rows[y]))
        flat = [x for r in cal[y] for x in r]
        n_eval += len(flat)
        ctx.count(("cal", y))
        if v[5] != P.fpz(flat):
            bad.append(y)
    ctx.count(None, n_eval)
    ctx.oblige(f"X: is_leap / days_in_year / weeks_in_year / 1 January / Monday of ISO week 1 (Calendar.v) = DuckDB, {len(years)} years of 1900-2100",
               not bad_year, str(bad_year[:3]))
    detail = ""
    if bad:
        ks = [(y,) for y in bad[:2]]
        cr = P.coq_rows("tie_calendar_rows", ks, {k: cargs[k] for k in ks}, "c08loc")
        for k in ks:
            d = P.first_diff(cr[k], cal[k[0]])
            detail += f"year {k[0]} day {d[0] + 1 if d else '?'} column {d[1] if d else '?'}: model {d[2] if d else '?'} engine {d[3] if d else '?'}; "
    ndays = sum(len(v) for v in cal.values())
    ctx.oblige(f"X: YEAR/MONTH/DAY/DAYOFYEAR/ISOYEAR/WEEK/ISODOW/LAST_DAY/QUARTER, vtl_time_agg_date (6 targets), vtl_dateadd "
               f"({'6 units x 4 shifts' if ctx.tier == 'thorough' else '2 of the 6 units x 1 shift per year'}) "
               f"= Calendar.v / Period.v on every date of {len(years)} years of 1900-2100 ({ndays} dates)", not bad, f"{len(bad)} years differ: {detail}")
    ctx.cov["x_dates"] = ndays
    ctx.log(f"X: calendar builtins on {ndays} dates in {time.time() - t0:.1f}s")


def x_errors(ctx) -> None:
    """error branches of the macros (a raising row aborts a batch, so they are driven one by one)"""
    c = P.conn()
    import duckdb
    n = 0
    bad = []
    for (p, t) in [("2020-Q1", "M"), ("2020A", "S"), ("2020-M03", "D"), ("2020-W10", "D"), ("2020-S1", "Q")]:
        try:
            r = c.execute(f"SELECT vtl_time_agg_tp(vtl_period_parse('{p}'), '{t}')").fetchone()
            bad.append((p, t, r))
        except duckdb.Error as e:
            if "2-1-19-1" not in str(e):
                bad.append((p, t, str(e)[:80]))
        n += 1
    ctx.count(("err", "time_agg_finer"), n)
    ctx.oblige("X: vtl_time_agg_tp raises VTL error 2-1-19-1 exactly for finer targets (model: AggFiner)", not bad, str(bad))
    lim = c.execute("SELECT " + ", ".join(f"vtl_period_limit('{i}')" for i in P.INDS)).fetchone()
    model = common.coq_eval(P.HEADER, ["(map period_limit_impl all_ind)"], "c08lim")[0]
    ctx.oblige("X: vtl_period_limit = period_limit_impl", list(lim) == model, f"{lim} vs {model}")


# ====================================================================================================== K: datasets through run()
class Case:
    def __init__(self, op, script, structs, rows, expr, check, ind, kw=None):
        self.op, self.script, self.structs, self.rows, self.expr, self.check, self.ind, self.kw = op, script, structs, rows, expr, check, ind, kw or {}
        self.res = None
        self.exp = None

    def replay_obj(self, extra=None):
        o = {"kind": "run", "op": self.op, "script": self.script, "structures": self.structs, "rows": self.rows, "kwargs": self.kw}
        o.update(extra or {})
        return o


def key_for(op: str, ind: str, predicted: bool) -> str:
    """timeshift (1bd5380) and fill_time_series (50e3447) were repaired: no failure is a known finding any more"""
    return f"{op}:{ind}:wrong-result"


def mk_rows(series, rng, measure=True):
    return [{"Id_1": sid, "Id_2": D.canon(p), "Me_1": float(rng.randint(-50, 50)) if measure else None} for sid, p in series]


def build_cases(ctx) -> List[Case]:
    rng = ctx.rng
    per = 2 if ctx.tier == "quick" else 12
    cases: List[Case] = []
    S = D.tp_structure()
    for ind in P.INDS:
        for _ in range(per):
            series = D.gen_series(rng, ind, rng.randint(1, 2), rng.randint(3, 7))
            rows = mk_rows(series, rng)
            ps = [p for _, p in series]
            n = rng.choice([1, -1, 2, -2, 3, 5, 13, -27, 53, 60, -60, 0])
            cases.append(Case("timeshift", f"DS_r <- timeshift(DS_1, {n});", S, rows, f"(k_shift {common.coq_z(n)} {D.coq_ps(ps)})",
                              check_timeshift(series, rows, n), ind))
            cases.append(Case("timeshift_inverse", f"DS_r <- timeshift(timeshift(DS_1, {n}), {-n});", S, rows,
                              f"(k_shift_inv {common.coq_z(n)} {D.coq_ps(ps)})", check_identity(series, rows, True), ind))
    for ind in P.INDS:
        for _ in range(1 if ctx.tier == "quick" else per // 2):
            series = D.gen_series(rng, ind, rng.randint(1, 2), rng.randint(3, 6))
            rows = mk_rows(series, rng)
            ps = [p for _, p in series]
            cases.append(Case("flow_to_stock", "DS_r <- flow_to_stock(DS_1);", S, rows, f"(k_index {D.coq_ps(ps)})",
                              check_flow(series, rows, "flow_to_stock"), ind))
            cases.append(Case("stock_to_flow", "DS_r <- stock_to_flow(DS_1);", S, rows, f"(k_index {D.coq_ps(ps)})",
                              check_flow(series, rows, "stock_to_flow"), ind))
            cases.append(Case("flow_stock_inverse", "DS_r <- stock_to_flow(flow_to_stock(DS_1));", S, rows, f"(k_index {D.coq_ps(ps)})",
                              check_identity(series, rows, False), ind))
            cases.append(Case("period_indicator", "DS_r <- period_indicator(DS_1);", S, rows, f"(k_index {D.coq_ps(ps)})",
                              check_period_indicator(series), ind))
            cases.append(Case("extractors", "DS_r <- DS_1[calc Me_2 := getyear(Id_2), Me_3 := getmonth(Id_2), Me_4 := dayofmonth(Id_2), "
                                            "Me_5 := dayofyear(Id_2)];", S, rows, f"(k_scalar {D.coq_ps(ps)})", check_columns(series, 4, 3), ind))
            targets = [t for t in P.INDS if P.RANK[t] >= P.RANK[ind] and t != "D"] or ["A"]
            t = rng.choice(targets)
            cases.append(Case("time_agg", f'DS_r <- DS_1[calc Me_2 := time_agg("{t}", Id_2)];', S, rows, f"(k_agg {P.COQ_IND[t]} {D.coq_ps(ps)})",
                              check_agg(series, t), ind))
            u = rng.choice(list(P.INDS))
            k = rng.choice([1, -1, 2, 7, 12, -13, 25])
            cases.append(Case("dateadd_tp", f'DS_r <- DS_1[calc Me_2 := dateadd(Id_2, {k}, "{u}")];', S, rows,
                              f"(k_tp_dateadd {common.coq_z(k)} {P.COQ_IND[u]} {D.coq_ps(ps)})", check_dates(series, 1, 3), ind))
            qs = [D.g_walk(p, rng.randint(-40, 40)) for p in ps]
            S2 = D.tp_structure(extra=[("Me_2", "Time_Period", "Measure", True)])
            rows2 = [dict(r, Me_2=D.canon(q)) for r, q in zip(rows, qs)]
            cases.append(Case("datediff_tp", "DS_r <- DS_1[calc Me_3 := datediff(Id_2, Me_2)];", S2, rows2,
                              f"(k_datediff {D.coq_ps(ps)} {D.coq_ps(qs)})", check_columns(series, 1, 4), ind))
    # fill_time_series, both modes, over data whose first / last years are 53-week / leap years, datapoints at the year boundaries
    for ind in P.INDS:
        for _ in range((2 if ind in "WD" else 1) * (1 if ctx.tier == "quick" else 6)):
            series = D.gen_fill_series(rng, ind)
            rows = mk_rows(series, rng)
            ps = [p for _, p in series]
            for mode in ("single", "all"):
                cases.append(Case("fill_time_series", f"DS_r <- fill_time_series(DS_1, {mode});", S, rows, f"(k_index {D.coq_ps(ps)})",
                                  check_fill(series, rows, mode), ind))
    # Date-typed measures
    Sd = D.tp_structure(extra=[("Me_2", "Date", "Measure", True), ("Me_3", "Date", "Measure", True)])
    import datetime as dt
    for _ in range(per * 2):
        series = D.gen_series(rng, "M", 1, rng.randint(3, 6))
        ps = [p for _, p in series]
        dates, dates2 = [], []
        for _p in ps:
            y = rng.choice(D.LEAP + D.PLAIN + D.W53)
            d = dt.date(y, 1, 1) + dt.timedelta(days=rng.choice([0, 1, 30, 58, 59, 60, 364, 365 if y in D.LEAP else 364, rng.randint(0, 364)]))
            dates.append(d.isoformat())
            dates2.append((d + dt.timedelta(days=rng.randint(-800, 800))).isoformat())
        rows = [{"Id_1": sid, "Id_2": D.canon(p), "Me_1": 1.0, "Me_2": a, "Me_3": b} for (sid, p), a, b in zip(series, dates, dates2)]
        zs = common.coq_list([D.coq_d(d) for d in dates])
        ws = common.coq_list([D.coq_d(d) for d in dates2])
        cases.append(Case("extractors_date", "DS_r <- DS_1[calc Me_4 := getyear(Me_2), Me_5 := getmonth(Me_2), Me_6 := dayofmonth(Me_2), "
                                             "Me_7 := dayofyear(Me_2)];", Sd, rows, f"(k_date_scalar {zs})", check_columns(series, 4, 5), "date"))
        u = rng.choice(list(P.INDS))
        k = rng.choice([1, -1, 2, 7, 12, -13, 25, 48])
        cases.append(Case("dateadd_date", f'DS_r <- DS_1[calc Me_4 := dateadd(Me_2, {k}, "{u}")];', Sd, rows,
                          f"(k_dateadd {common.coq_z(k)} {P.COQ_IND[u]} {zs})", check_dates(series, 1, 5), "date"))
        cases.append(Case("datediff_date", "DS_r <- DS_1[calc Me_4 := datediff(Me_2, Me_3)];", Sd, rows, f"(k_date_diff {zs} {ws})",
                          check_columns(series, 1, 5), "date"))
        t = rng.choice("ASQMW")
        conf = rng.choice(["first", "last"])
        cases.append(Case("time_agg_date", f'DS_r <- DS_1[calc Me_4 := time_agg("{t}", _, Me_2, {conf})];', Sd, rows,
                          f"(k_date_agg {P.COQ_IND[t]} {'true' if conf == 'last' else 'false'} {zs})", check_dates(series, 1, 5), "date"))
    return cases


# ---- predicates: each returns a list of (predicted_by_impl: bool, message) — empty = the property holds on this output
def _out_rows(case):
    names, rows = D.rows_of(case.res)
    return names, rows


def check_timeshift(series, rows, n):
    def chk(case):
        names, out = _out_rows(case)
        m = len(series)
        spec, impl = case.exp[:m], case.exp[m:]
        got = sorted((r[0], D.enc_p(D.parse_out(r[1])), D.num(r[2])) for r in out)
        want = sorted((sid, s, int(r["Me_1"])) for (sid, _), s, r in zip(series, spec, rows))
        pred = sorted((sid, s, int(r["Me_1"])) for (sid, _), s, r in zip(series, impl, rows))
        msgs = []
        ids = [(g[0], g[1]) for g in got]
        if len(set(ids)) != len(ids):
            msgs.append((got == pred, f"duplicate identifiers in the result: {[i for i in ids if ids.count(i) > 1][:2]}"))
        if got != want:
            bad = [(g, w) for g, w in zip(got, want) if g != w][:2]
            msgs.append((got == pred, f"timeshift by {n}: engine (series, period, value) vs calendar: {bad}"))
        return msgs
    return chk


def check_identity(series, rows, exp_is_impl_prediction):
    def chk(case):
        names, out = _out_rows(case)
        got = sorted((r[0], D.enc_p(D.parse_out(r[1])), D.num(r[2])) for r in out)
        want = sorted((sid, D.enc_p(p), int(r["Me_1"])) for (sid, p), r in zip(series, rows))
        if got != want:
            bad = [(g, w) for g, w in zip(got, want) if g != w][:2]
            pred = exp_is_impl_prediction and got == sorted((sid, e, int(r["Me_1"])) for (sid, _), e, r in zip(series, case.exp, rows))
            return [(pred, f"{case.script} is not the identity: {bad}")]
        return []
    return chk


def fill_shape_hit(series, mode):
    """does the range that has to be filled contain a week 53 / day 366 (the input shape of the known finding)?"""
    ind = series[0][1][1]
    if ind not in "WD":
        return False
    top = 53 if ind == "W" else 366
    groups = {}
    for sid, p in series:
        groups.setdefault(sid if mode == "single" else 0, []).append(p)
    for ps in groups.values():
        lo, hi = min(ps, key=lambda p: (p[0], p[2])), max(ps, key=lambda p: (p[0], p[2]))
        if mode == "all":
            lo, hi = (lo[0], ind, 1), (hi[0], ind, D.g_periods_in_year(ind, hi[0]))
        for y in range(lo[0], hi[0] + 1):
            if D.g_periods_in_year(ind, y) == top and (lo[0], lo[2]) <= (y, top) <= (hi[0], hi[2]):
                return True
    return False


def check_fill(series, rows, mode):
    def chk(case):
        case.shape_hit = fill_shape_hit(series, mode)
        names, out = _out_rows(case)
        idx = {D.enc_p(p): (case.exp[2 * k], case.exp[2 * k + 1]) for k, (_, p) in enumerate(series)}
        msgs = []
        outm = {(r[0], D.enc_p(D.parse_out(r[1]))): D.num(r[2]) for r in out}
        if len(outm) != len(out):
            msgs.append((False, "duplicate identifiers in the result"))
        lost = [(sid, D.canon(p)) for (sid, p), r in zip(series, rows) if outm.get((sid, D.enc_p(p)), "missing") != int(r["Me_1"])]
        if lost:
            msgs.append((case.shape_hit, f"input datapoints missing from (or changed in) the result: {lost[:3]}"))
        added = [k for k, v in outm.items() if k not in {(sid, D.enc_p(p)) for sid, p in series}]
        if any(outm[k] is not None for k in added):
            msgs.append((False, "a filled datapoint carries a non-null measure"))
        case.fill_out = sorted(outm)            # second Coq pass computes the indices of the OUTPUT periods
        case.fill_mode = mode
        return msgs
    return chk


def check_flow(series, rows, op):
    def chk(case):
        names, out = _out_rows(case)
        index = {(sid, D.enc_p(p)): case.exp[2 * k + 1] for k, (sid, p) in enumerate(series)}
        vals = {(sid, D.enc_p(p)): int(r["Me_1"]) for (sid, p), r in zip(series, rows)}
        want = {}
        for sid in {s for s, _ in series}:
            ks = sorted([k for k in index if k[0] == sid], key=lambda k: index[k])
            acc, prev = 0, None
            for k in ks:
                if op == "flow_to_stock":
                    acc += vals[k]
                    want[k] = acc
                else:
                    want[k] = vals[k] - (prev if prev is not None else 0)
                    prev = vals[k]
        got = {(r[0], D.enc_p(D.parse_out(r[1]))): D.num(r[2]) for r in out}
        if got != want:
            bad = [(k, got.get(k), want[k]) for k in sorted(want) if got.get(k) != want[k]][:3]
            return [(False, f"{op}: (series, period): engine vs running {'sum' if op == 'flow_to_stock' else 'difference'} in calendar order: {bad}")]
        return []
    return chk


def check_period_indicator(series):
    def chk(case):
        names, out = _out_rows(case)
        bad = [r for r in out if r[2] != D.parse_out(r[1])[1]]
        if bad or len(out) != len(series):
            return [(False, f"period_indicator: {bad[:2]} rows {len(out)}/{len(series)}")]
        return []
    return chk


def check_columns(series, ncols, first_col):
    def chk(case):
        names, out = _out_rows(case)
        got = {(r[0], D.enc_p(D.parse_out(r[1]))): [r[first_col + j] for j in range(ncols)] for r in out}
        bad = []
        for k, (sid, p) in enumerate(series):
            want = case.exp[ncols * k: ncols * (k + 1)]
            g = got.get((sid, D.enc_p(p)))
            if g != want:
                bad.append((sid, D.canon(p), g, want))
        return [(False, f"{case.op}: (series, period, engine, calendar): {bad[:3]}")] if bad else []
    return chk


def check_dates(series, ncols, first_col):
    def chk(case):
        names, out = _out_rows(case)
        got = {(r[0], D.enc_p(D.parse_out(r[1]))): D.enc_d(r[first_col]) for r in out}
        bad = []
        for k, (sid, p) in enumerate(series):
            if got.get((sid, D.enc_p(p))) != case.exp[k]:
                bad.append((sid, D.canon(p), got.get((sid, D.enc_p(p))), case.exp[k]))
        return [(False, f"{case.op}: (series, period, engine yyyymmdd, calendar): {bad[:3]}")] if bad else []
    return chk


def check_agg(series, t):
    return check_agg_col(series, t, 3)


def check_agg_col(series, t, col):
    def chk(case):
        names, out = _out_rows(case)
        got = {(r[0], D.enc_p(D.parse_out(r[1]))): r[col] for r in out}
        bad = []
        for k, (sid, p) in enumerate(series):
            g = got.get((sid, D.enc_p(p)))
            q = D.parse_out(g) if g else None
            if q is None or q[1] != t or D.enc_p(q) != case.exp[k]:
                bad.append((sid, D.canon(p), g, case.exp[k]))
        return [(False, f"{case.op} to {t}: (series, period, engine, calendar year*1000+number): {bad[:3]}")] if bad else []
    return chk


def k_datasets(ctx) -> None:
    t0 = time.time()
    cases = build_cases(ctx)
    if ctx.tier == "quick":      # keep every timeshift / fill case, a random half of the others
        keep = [c for c in cases if c.op.startswith("timeshift") or c.op == "fill_time_series"]
        rest = [c for c in cases if c not in keep]
        cases = keep + ctx.rng.sample(rest, len(rest) // 2)
    hist: Dict[str, int] = {}
    # corpus first
    corpus = []
    for c in cases:
        c.res = D.run(c.script, c.structs, c.rows, **c.kw)
        hist[c.op] = hist.get(c.op, 0) + 1
    ctx.log(f"K: {len(cases)} generated datasets run through vtlengine.run in {time.time() - t0:.1f}s ({len(corpus)} corpus cases)")
    exps = common.coq_eval(P.HEADER, [c.expr for c in cases], "c08k", shard=max(8, len(cases) // common.NCPU + 1), timeout=1500)
    n_bad = 0
    fills = []
    for c, e in zip(cases, exps):
        c.exp = e
        ctx.count(("k", c.op, c.ind, json.dumps(c.rows, sort_keys=True)[:2000]))
        if not c.res["ok"]:
            n_bad += 1
            ctx.violation(f"{c.op}:{c.ind}:engine-error:{c.res['err'][0]}", f"{c.script} on a valid series raised {c.res['err']}: {c.res['msg'][:200]}",
                          c.replay_obj({"observed": str(c.res["err"])}))
            continue
        try:
            msgs = c.check(c)
        except Exception as ex:  # noqa
            traceback.print_exc()
            ctx.oblige(f"K: predicate of {c.op} evaluated", False, f"{type(ex).__name__}: {ex}")
            continue
        if hasattr(c, "fill_out"):
            fills.append(c)
        for predicted, msg in msgs:
            n_bad += 1
            base = c.op.replace("_inverse", "") if c.op.startswith("timeshift") else c.op
            ctx.violation(key_for(base, c.ind, predicted), f"{c.script}: {msg}", c.replay_obj({"observed": msg}))
    # fill_time_series: the result must be gap-free in calendar order — indices of the OUTPUT periods from the specification
    if fills:
        # after the output periods, one probe per year of the output: the first period of the NEXT year (its index minus one is
        # the index of the year's last period)
        for c in fills:
            c.fill_years = sorted({e // 1000 for _, e in c.fill_out})
        exprs = ["(k_index " + D.coq_ps([(e // 1000, c.ind, e % 1000) for _, e in c.fill_out] + [(y + 1, c.ind, 1) for y in c.fill_years]) + ")"
                 for c in fills]
        idxs = common.coq_eval(P.HEADER, exprs, "c08kf", shard=max(4, len(fills) // common.NCPU + 1))
        for c, ix in zip(fills, idxs):
            year_end = {y: ix[2 * (len(c.fill_out) + j) + 1] - 1 for j, y in enumerate(c.fill_years)}
            per_series: Dict[int, List[Tuple[int, int]]] = {}
            for k, (sid, _e) in enumerate(c.fill_out):
                per_series.setdefault(sid, []).append((ix[2 * k + 1], ix[2 * k]))
            msgs = []
            for sid, lst in per_series.items():
                lst.sort()
                if any(v != 1 for _, v in lst):
                    msgs.append((False, f"series {sid}: the result contains a period that does not exist in the calendar"))
                gaps = [(a[0], b[0]) for a, b in zip(lst, lst[1:]) if b[0] - a[0] != 1]
                if gaps:
                    msgs.append((c.shape_hit, f"series {sid}: the filled series is not gap-free ({len(gaps)} holes in calendar order)"))
                # mode `all` fills whole years (the grid starts at the first period of the first year): it must then end at the
                # LAST period of the last year — week 53 / day 366 when the calendar has them
                if c.fill_mode == "all" and lst:
                    outs = sorted(e for s_, e in c.fill_out if s_ == sid)
                    if outs[0] % 1000 == 1 and lst[-1][0] != year_end[outs[-1] // 1000]:
                        msgs.append((False, f"series {sid}: the grid of mode `all` starts at the first period of {outs[0] // 1000} but ends at "
                                            f"{D.canon((outs[-1] // 1000, c.ind, outs[-1] % 1000))}, which is not the last period of {outs[-1] // 1000}"))
            for predicted, msg in msgs:
                n_bad += 1
                ctx.violation(key_for("fill_time_series", c.ind, predicted), f"{c.script}: {msg}", c.replay_obj({"observed": msg}))
    ctx.cov["k_operator_histogram"] = hist
    ctx.cov["k_cases"] = len(cases)
    ctx.cov["k_property_failures"] = n_bad
    for c in cases[:2]:
        ctx.sample({"script": c.script, "rows": c.rows[:4]})
    ctx.log(f"K: {len(cases)} cases, {n_bad} property failures on the engine's output, total {time.time() - t0:.1f}s")


def k_witnesses(ctx) -> None:
    """corpus first: past minimal failures replayed through vtlengine.run.  "expect": "pass" = repaired in /repo (the witnesses of
    C08_shift_before_fix_refuted / C08_next_before_fix_refuted): a failure is a regression and is reported under a key that is NOT
    a known finding; "expect": "known" = still open (none today): known key, and if it stops failing the model is stale."""
    S = D.tp_structure()
    files = sorted((common.CORPUS / "C08").glob("*.json"))
    for f in files:
        w = json.loads(f.read_text())
        rows = [{"Id_1": 1, "Id_2": p, "Me_1": float(k + 1)} for k, p in enumerate(w["periods"])]
        res = D.run(w["script"], S, rows)
        ctx.count(("corpus", f.name))
        rep = {"kind": "run", "script": w["script"], "structures": S, "rows": rows, "kwargs": {}}
        if not res["ok"]:
            ctx.violation(f"{w['key']}:engine-error", f"corpus {f.name}: {w['script']} raised {res['err']}", rep)
            continue
        out = D.rows_of(res)[1]
        if w["op"] == "timeshift":
            got = [r[1] for r in sorted(out, key=lambda r: D.num(r[2]))]
            failing = got != w["want"]
            what = f"{w['script']} on {w['periods']} returns {got}, the calendar gives {w['want']}"
        else:
            gotm = {r[1]: D.num(r[2]) for r in out}
            lost = [p for k, p in enumerate(w["periods"]) if gotm.get(p) != k + 1]
            failing = bool(lost) or ("want" in w and sorted(gotm) != sorted(w["want"]))
            what = (f"{w['script']} on {w['periods']} returns {sorted(gotm)}, the gap-free series is {w.get('want')}; "
                    f"input datapoints missing from the result: {lost}")
        rep.update({"expected": w.get("want", "every input datapoint present, gap-free"), "observed": [list(r) for r in out]})
        if failing:
            ctx.violation(w["key"], what + f" ({w.get('note', '')})", rep)
        elif w.get("expect") == "known":
            ctx.oblige(f"corpus case {f.name} still fails on the engine (next_impl and C08_macro_next_refuted are current)", False,
                       f"engine now returns {sorted(r[1] for r in out)}: update the model, the theorem, findings.d and this corpus entry")
    ctx.cov["corpus_cases"] = len(files)


# ====================================================================================================== entry points
def run(ctx):
    ctx.cov["rule"] = ("exhaustive: every (indicator, year 1900-2100, number 1..static max) x 13 scalar macro results x shifts "
                       "(quick 12/shard, thorough -60..60) + every date 1900-01-01..2100-12-31; distinct = shard (indicator, year) / year / "
                       "generated dataset; evaluations = single macro results compared")
    ctx.cov["exhaustive"] = True
    ok = ctx.prove("C08")
    okm, out = common.coq_make(P.COQ_TARGETS)
    ctx.oblige("Model/Period.vo builds", okm, out[-300:])
    for name, fn in (("x_periods", x_periods), ("x_calendar", x_calendar), ("x_errors", x_errors), ("k_witnesses", k_witnesses),
                     ("k_datasets", k_datasets)):
        try:
            fn(ctx)
        except Exception as e:  # noqa
            traceback.print_exc()
            ctx.oblige(f"{name} ran to completion", False, f"{type(e).__name__}: {str(e)[:300]}")
    ctx.trusted.append("T-macros tie (harness/translate/period.py): SQL batches over the engine's own macros, polynomial fingerprint "
                       "(base 1000003 mod 2^61) of each (indicator, year) shard computed in Coq and in numpy over the same value sequence; "
                       "a shard collision needs the difference polynomial to vanish at the base (probability ~2^-50 per shard for "
                       "non-adversarial differences); mismatching shards are localised pointwise")
    ctx.trusted.append("DuckDB 1.5.5 date builtins are only observed: their identification with Base/Calendar.v is X-checked on every date 1900-2100")
    ctx.assumptions.append("timeshift / fill_time_series over Date-typed identifiers (frequency inference) and series mixing several "
                           "period indicators are outside the generated datasets; fill_time_series is checked by model-free "
                           "predicates (no input lost, gap-free in calendar order, filled measures null, mode `all` covers whole years up to the calendar's last period)")
    ctx.assumptions.append("years outside 1900-2100 are covered by the theorems about the transcribed macros, not by the tie")


def replay(ctx, obj):
    kind = obj.get("kind")
    if kind == "macro_shift":
        got = confirm_macro_shift(obj["year"], obj["ind"], obj["num"], obj["n"])
        print(f"vtl_tp_shift({obj['year']}-{obj['ind']}{obj['num']}, {obj['n']}): expected {obj['expected']} observed {got}")
        return 0 if got == obj["expected"] else 1
    if kind == "macro_scalar":
        P.load_periods([obj["year"]])
        rows = P.sql_scalar_rows()[(obj["year"], obj["ind"])]
        got = rows[obj["num"] - 1][SCALAR_COLS.index(obj["column"])]
        print(f"{obj['column']} of {obj['year']}-{obj['ind']}{obj['num']}: expected {obj['expected']} observed {got}")
        return 0 if got == obj["expected"] else 1
    if kind == "macro_next":
        nxt = P.next_period_sql().replace("p.", "pp.")
        got = P.conn().execute(f"SELECT vtl_period_to_string({nxt}) FROM (SELECT {{'year': {obj['year']}, 'period_indicator': '{obj['ind']}', "
                               f"'period_number': {obj['num']}}}::vtl_time_period AS pp)").fetchone()[0]
        print(f"_TP_NEXT_PERIOD after {obj['year']}-{obj['ind']}{obj['num']}: expected {obj['expected']} observed {got}")
        return 0 if got == obj["expected"] else 1
    if kind == "run":
        res = D.run(obj["script"], obj["structures"], obj["rows"], **obj.get("kwargs", {}))
        print("script:", obj["script"])
        print("input rows:", obj["rows"])
        print("expected:", obj.get("expected", "the calendar-correct result (see 'what')"))
        print("observed:", D.rows_of(res)[1] if res["ok"] else (res["err"], res["msg"][:300]))
        print(obj.get("what"))
        return 1
    print("replay names a broken obligation only:", obj.get("what"))
    return 1
