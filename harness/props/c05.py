"""C05 — set operators match datapoints by identifiers across all operands.
Proof: Props/C05.v over Model/SetOps.v.  Tie K: generated set expressions (2-4 operands, nesting ≤ 2, arbitrary key overlaps,
conflicting measures) run on the real engine and evaluated by `seval` inside Coq on the same operands."""
from __future__ import annotations

import itertools
import json
from fractions import Fraction

import pandas as pd

import coqval as V
import engine
from common import CORPUS, coq_eval, coq_list

HEADER = "From Coq Require Import ZArith QArith String List.\nImport ListNotations.\nFrom VTL Require Import Base.Val Model.Table Model.SetOps.\nOpen Scope string_scope.\n"

ID_POOL = [("Id_1", "Integer"), ("Id_2", "String")]
ME_POOL = [("Me_1", ["Number", "Integer"]), ("Me_2", ["String", "Boolean"])]
KEYV = {"Integer": [1, 2, 3, 4], "String": ["a", "b", "c"]}


def gen_value(rng, typ):
    if rng.random() < 0.25:
        return None
    if typ == "Integer":
        return rng.choice([0, 1, -7, 42, 10 ** 9])
    if typ == "Number":
        return Fraction(rng.randrange(-40, 41), 4)
    if typ == "Boolean":
        return rng.random() < 0.5
    return rng.choice(["x", "y", "", "hello world", "Q1"])


def gen_case(rng, force_op=None, n_force=None):
    nid = rng.choice([1, 1, 2])
    ids = ID_POOL[:nid]
    nme = rng.choice([1, 2])
    mes = [(n, rng.choice(ts)) for n, ts in ME_POOL[:nme]]
    universe = list(itertools.product(*[KEYV[t][: rng.choice([2, 3])] for _, t in ids]))
    nds = n_force or rng.choice([2, 3, 3, 4])
    data = {}
    for i in range(1, nds + 1):
        cls = rng.choice(["all", "none", "some", "some", "some"])
        keys = universe if cls == "all" else [] if cls == "none" else [k for k in universe if rng.random() < 0.55]
        rows = [(list(k), [gen_value(rng, t) for _, t in mes]) for k in keys]
        rng.shuffle(rows)
        data[f"DS_{i}"] = rows
    names = list(data)

    def tree(depth):
        op = force_op if (force_op and depth == 0) else rng.choice(["union", "intersect", "setdiff", "symdiff"])
        n = 2 if op in ("setdiff", "symdiff") else (n_force if (n_force and depth == 0) else rng.choice([2, 3, 3, 4]))
        kids = []
        for j in range(n):
            if depth < 1 and rng.random() < 0.25:
                kids.append(tree(depth + 1))
            else:
                kids.append(names[j % len(names)] if depth == 0 and rng.random() < 0.7 else rng.choice(names))
        return (op, kids)
    return {"ids": ids, "mes": mes, "data": data, "expr": tree(0)}


def expr_text(e):
    if isinstance(e, str):
        return e
    return f"{e[0]}({', '.join(expr_text(k) for k in e[1])})"


def expr_coq(e, case):
    if isinstance(e, str):
        idt = [t for _, t in case["ids"]]
        met = [t for _, t in case["mes"]]
        return "(SLeaf " + coq_list([V.to_row(k, idt, m, met) for k, m in case["data"][e]]) + ")"
    op, kids = e
    if op == "union":
        return "(SUnion " + coq_list([expr_coq(k, case) for k in kids]) + ")"
    if op == "intersect":
        return "(SIntersect " + coq_list([expr_coq(k, case) for k in kids]) + ")"
    return f"({'SSetdiff' if op == 'setdiff' else 'SSymdiff'} {expr_coq(kids[0], case)} {expr_coq(kids[1], case)})"


def py_seval(e, case):
    """Python mirror of Model/SetOps.seval — used ONLY to steer shrinking; decisions come from Coq."""
    if isinstance(e, str):
        return [(tuple(k), tuple(m)) for k, m in case["data"][e]]
    op, kids = e
    ops = [py_seval(k, case) for k in kids]
    has = lambda k, rows: any(r[0] == k for r in rows)
    if op == "union":
        acc = []
        for d in ops:
            acc = acc + [r for r in d if not has(r[0], acc)]
        return acc
    if op == "intersect":
        return [r for r in ops[0] if all(has(r[0], d) for d in ops[1:])]
    a, b = ops
    sd = lambda x, y: [r for r in x if not has(r[0], y)]
    return sd(a, b) if op == "setdiff" else sd(a, b) + sd(b, a)


def run_engine(case, shuffle_cols=None):
    comps = [(n, t, "Identifier", False) for n, t in case["ids"]] + [(n, t, "Measure", True) for n, t in case["mes"]]
    dss = []
    dps = {}
    for i, (name, rows) in enumerate(case["data"].items()):
        cs = list(comps)
        if i % 2 == 1:  # different declared column order in every second operand: operators must align by name
            cs = cs[::-1]
        dss.append(engine.ds_struct(name, cs))
        cols = {c[0]: [] for c in cs}
        for k, m in rows:
            for (n, t), v in zip(case["ids"], k):
                cols[n].append(v)
            for (n, t), v in zip(case["mes"], m):
                cols[n].append(float(v) if isinstance(v, Fraction) else v)
        df = pd.DataFrame({n: pd.Series(vals, dtype="object") for n, vals in cols.items()})
        dps[name] = df
    script = f"DS_r <- {expr_text(case['expr'])};"
    res = engine.run_case(script, engine.structures(*dss), dps)
    if not res["ok"]:
        return script, ("ERR",) + tuple(res["err"]) + (res["msg"][:200],)
    d = res["datasets"]["DS_r"]
    order = [c[0] for c in d["comps"]]
    want = [n for n, _ in case["ids"]] + [n for n, _ in case["mes"]]
    idx = [order.index(n) for n in want]
    return script, V.sort_rows([tuple(r[i] for i in idx) for r in d["rows"]])


def canon_model_rows(rows, case):
    types = [t for _, t in case["ids"]] + [t for _, t in case["mes"]]
    out = []
    for r in rows:
        flat = V.from_row(r)
        out.append(tuple(V.canon_py(Fraction(x) if (t == "Number" and x is not None) else x, t) for x, t in zip(flat, types)))
    return V.sort_rows(out)


def canon_py_rows(rows, case):
    types = [t for _, t in case["ids"]] + [t for _, t in case["mes"]]
    return V.sort_rows([tuple(V.canon_py(x, t) for x, t in zip(k + m, types)) for k, m in rows])


def identical_nested_operands(e):
    """two textually identical NESTED operands somewhere in the expression (DuckDB fails to bind the repeated sub-query)"""
    if isinstance(e, str):
        return False
    kids = [expr_text(k) for k in e[1] if not isinstance(k, str)]
    return len(kids) != len(set(kids)) or any(identical_nested_operands(k) for k in e[1])


def classify(case, got=None):
    if (got is not None and isinstance(got, tuple) and got and got[0] == "ERR" and "2-1-1-1" in str(got)
            and ("INTERNAL Error" in str(got[-1]) or "Type mismatch for SET OPERATION" in str(got[-1])) and identical_nested_operands(case["expr"])):
        return "identical-nested-operands:duckdb-internal-error"
    e = case["expr"]
    n = len(e[1])
    nested = any(not isinstance(k, str) for k in e[1])
    return f"{e[0]}:{'3+' if n >= 3 else '2'}-operands{':nested' if nested else ''}"


def shrink(case):
    """greedy: drop rows / simplify while the engine still disagrees with the (python mirror of the) model"""
    def bad(c):
        _, got = run_engine(c)
        return got != canon_py_rows(py_seval(c["expr"], c), c)
    cur = json.loads(json.dumps(case, default=str))
    cur = case
    changed = True
    while changed:
        changed = False
        for name in list(cur["data"]):
            for i in range(len(cur["data"][name])):
                cand = dict(cur)
                cand["data"] = dict(cur["data"])
                cand["data"][name] = cur["data"][name][:i] + cur["data"][name][i + 1:]
                if bad(cand):
                    cur = cand
                    changed = True
                    break
            if changed:
                break
    return cur


def case_json(case):
    return {"ids": case["ids"], "mes": case["mes"], "expr": case["expr"],
            "data": {k: [[list(a), [str(x) if isinstance(x, Fraction) else x for x in b]] for a, b in v] for k, v in case["data"].items()}}


def case_from_json(j):
    def val(x, t):
        return Fraction(x) if (t == "Number" and x is not None) else x
    mes = [tuple(m) for m in j["mes"]]
    def te(e):
        return e if isinstance(e, str) else (e[0], [te(k) for k in e[1]])
    return {"ids": [tuple(i) for i in j["ids"]], "mes": mes, "expr": te(j["expr"]),
            "data": {k: [(list(a), [val(x, t) for x, (_, t) in zip(b, mes)]) for a, b in v] for k, v in j["data"].items()}}


def run(ctx):
    ok = ctx.prove("C05")
    engine.install(need_parser=True)
    n = 200 if ctx.tier == "quick" else 6000
    cases = []
    cdir = CORPUS / "C05"
    for p in sorted(cdir.glob("*.json")) if cdir.exists() else []:
        cases.append(case_from_json(json.loads(p.read_text())))
    n_corpus = len(cases)
    # exhaustive key-membership patterns for the flat operators (≤ 3 operands × 2 keys in quick; ≤ 4 × 3 in thorough)
    kmax, omax = (2, 3) if ctx.tier == "quick" else (3, 4)
    for op in ("union", "intersect", "setdiff", "symdiff"):
        for nops in ([2] if op in ("setdiff", "symdiff") else range(2, omax + 1)):
            for pattern in itertools.product([0, 1], repeat=nops * kmax):
                if ctx.tier == "quick" and ctx.rng.random() < 0.5 and nops == 3:
                    continue
                data = {}
                for i in range(nops):
                    data[f"DS_{i + 1}"] = [([k + 1], [Fraction(10 * (i + 1) + k, 4)]) for k in range(kmax) if pattern[i * kmax + k]]
                cases.append({"ids": ID_POOL[:1], "mes": [("Me_1", "Number")], "data": data,
                              "expr": (op, [f"DS_{i + 1}" for i in range(nops)])})
    n_exh = len(cases) - n_corpus
    while len(cases) < n_corpus + n_exh + n:
        cases.append(gen_case(ctx.rng))
    ctx.log(f"{n_corpus} corpus + {n_exh} exhaustive membership patterns + {n} generated cases")
    model = coq_eval(HEADER, [f"seval {expr_coq(c['expr'], c)}" for c in cases], "c05")
    hist = {}
    dis = 0
    for c, m in zip(cases, model):
        script, got = run_engine(c)
        want = canon_model_rows(m, c)
        cl = classify(c)
        hist[cl] = hist.get(cl, 0) + 1
        ctx.count((script, json.dumps(case_json(c)["data"], sort_keys=True)))
        if len(ctx.cov["samples"]) < 4:
            ctx.sample({"script": script, "operands": case_json(c)["data"], "engine_rows": got if isinstance(got, list) else list(got), "model_rows": want})
        if got != want:
            dis += 1
            if dis <= 3:
                small = shrink(c)
                script, got = run_engine(small)
                want = canon_py_rows(py_seval(small["expr"], small), small)
                c = small
                if ctx._known_key(classify(c, got)) is None:
                    import hashlib
                    cdir.mkdir(parents=True, exist_ok=True)
                    cj = json.dumps(case_json(c), sort_keys=True)
                    (cdir / (hashlib.sha1(cj.encode()).hexdigest()[:10] + ".json")).write_text(cj)
            ctx.violation(classify(c, got), f"{script} on {case_json(c)['data']}: engine returns {got}, VTL set semantics (model seval) gives {want}",
                          {"case": case_json(c), "script": script, "engine": got, "expected": want})
    ctx.cov["rule"] = ("set expressions over 2-4 structurally compatible datasets (1-2 identifiers, 1-2 measures, nulls 25%, conflicting measures, "
                       "alternating declared column order), nesting ≤ 2; exhaustive key-membership patterns for flat operators; distinct = (script, data)")
    ctx.cov["distribution"] = hist
    ctx.cov["disagreements"] = dis
    ctx.oblige("K: engine = seval on every case (or reported as violation)", True)
    # --- set operators as a node of the core language (DSet, Model/Expr.v): composed with clauses / other operators in ONE
    #     statement, operands that are clause / operator results, columns declared in another order; evaluated by run_script
    import exprk
    q = ctx.tier == "quick"
    exprk.run_k(ctx, "C05", 40 if q else 3000, 15 if q else 800, kinds=["setop", "setop", "setop", "clause", "binary"], tag="c05k",
                nested_kinds=["setop", "setop", "clause", "clause", "binary", "elem"], directed={"setctx": 40 if q else 2000},
                corpus_dir="C05k", cov_key="composed", n_incompatible=6 if q else 100)
    ctx.cov["rule"] += ("; composed: scripts whose statements are set operators over inputs / clause results / operator results, a nested single-statement "
                        "stream and the directed family setctx (set operator under sub / filter+calc / keep…, as operand of dataset∘dataset, element-wise "
                        "and other set operators; keys agreeing on the surviving identifier and differing on the removed one), and operands with "
                        "different numbers of components (1-1-17-1) — engine vs run_script (DSet)")
    ctx.oblige("K: engine = run_script (DSet, Model/Expr.v) on every composed case (or reported as violation)", True)
    ctx.trusted.append("DuckDB 1.5.5 executes the emitted SQL (observed, not modelled); UNION ALL operand order is assumed preserved by the engine's "
                       "ROW_NUMBER() OVER () (hypothesis of C05_union_concat_is_union; exercised by every union case)")


def replay(ctx, obj):
    if "inputs" in obj.get("case", {}):   # a composed case (exprk format)
        import exprk
        return exprk.replay_case(obj)
    c = case_from_json(obj["case"])
    script, got = run_engine(c)
    want = canon_py_rows(py_seval(c["expr"], c), c)
    print("script:", script)
    print("expected:", want)
    print("observed:", got)
    return 0 if got == want else 1
