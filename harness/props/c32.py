"""C32 — execution failures surface as VTL errors, never as raw DuckDB / Python errors.

Proof: Props/C32.v (mapper decision lists = real mappers on every dumped message; stage handler flags = code; macro error literals
per origin stage; escape_closed / run_closed for programs of any size; faithful-pipeline refutations with witnesses).
Tie D+X: translate/sqlerr.py -> Gen/ErrLits.v (regenerated each run).  Tie K: generated scripts with runtime-failing values for every
operator family that can fail at run time + corpus scripts with their data, every outcome classified, the DuckDB message behind
every failure run through the Gallina mapper of the stage it was raised in and compared with what the engine raised.
The property predicate itself (semantic analysis passed, load validation passed, yet a non-VTL exception left run()) is evaluated
on every case."""
from __future__ import annotations

import json
import os
import re
import shutil
import subprocess
import sys
import tempfile
import traceback
from pathlib import Path
from typing import Any, Dict, List, Optional, Tuple

import common
from common import CORPUS, REPO, coq_string
from translate import errors as TE
from translate import sqlerr as TS

TESTS = REPO / "tests"

# ------------------------------------------------------------------------------------------------ helpers
ID = ("Id_1", "Integer", "Identifier", False)


def S(*dss):
    import engine
    return engine.structures(*[engine.ds_struct(n, comps) for n, comps in dss])


def ds(name, *measures, ids=(ID,)):
    return (name, list(ids) + [(m[0], m[1], m[2] if len(m) > 2 else "Measure", True) for m in measures])


def case(family, shape, script, structs, data, **kw):
    return {"family": family, "shape": shape, "script": script, "structs": structs, "data": data, "kw": kw}


def frame(cols: Dict[str, list]):
    import pandas as pd
    return pd.DataFrame(cols)


def ids(n):
    return list(range(1, n + 1))


# ------------------------------------------------------------------------------------------------ generated families
def gen_cases(rng, tier: str) -> List[dict]:
    """Every operator family that can fail at run time, at dataset / component / scalar level, with failing values drawn
    from edge pools.  `shape` is the stable identifier of the input shape (no random values in it)."""
    C: List[dict] = []
    big = 2 ** 63 - 1
    num1 = S(ds("DS_1", ("Me_1", "Number")))
    int1 = S(ds("DS_1", ("Me_1", "Integer")))
    num2 = S(ds("DS_1", ("Me_1", "Number")), ds("DS_2", ("Me_1", "Number")))
    int2 = S(ds("DS_1", ("Me_1", "Integer")), ds("DS_2", ("Me_1", "Integer")))
    str1 = S(ds("DS_1", ("Me_1", "String")))

    def pick(pool, k=3):
        return [rng.choice(pool) for _ in range(k)]

    # ---- division / mod by zero
    zeros = [0, 0.0, -0.0]
    nums = [1, -1, 7.5, 1e10, -3.25, 0]
    for lvl in ("ds-ds", "ds-const", "calc-comp", "calc-const", "scalar", "filter", "aggr"):
        for op in ("/", "mod"):
            a = pick(nums)
            d1 = {"DS_1": frame({"Id_1": ids(3), "Me_1": [float(x) for x in a]}),
                  "DS_2": frame({"Id_1": ids(3), "Me_1": [1.0, float(rng.choice(zeros)), 2.0]})}
            e = (lambda x, y: f"{x} / {y}") if op == "/" else (lambda x, y: f"mod({x}, {y})")
            if lvl == "ds-ds":
                C.append(case("div_zero", f"{op}:{lvl}", f"DS_r <- {e('DS_1', 'DS_2')};", num2, d1))
            elif lvl == "ds-const":
                C.append(case("div_zero", f"{op}:{lvl}", f"DS_r <- {e('DS_1', '0')};", num1, {"DS_1": d1["DS_1"]}))
            elif lvl == "calc-comp":
                st = S(ds("DS_1", ("Me_1", "Number"), ("Me_2", "Number")))
                dd = {"DS_1": frame({"Id_1": ids(3), "Me_1": [float(x) for x in a], "Me_2": [0.0, 1.0, 0.0]})}
                C.append(case("div_zero", f"{op}:{lvl}", f"DS_r <- DS_1[calc Me_3 := {e('Me_1', 'Me_2')}];", st, dd))
            elif lvl == "calc-const":
                C.append(case("div_zero", f"{op}:{lvl}", f"DS_r <- DS_1[calc Me_3 := {e('Me_1', '0')}];", num1, {"DS_1": d1["DS_1"]}))
            elif lvl == "scalar":
                C.append(case("div_zero", f"{op}:{lvl}", f"sc_r <- {e(str(rng.choice([1, 5, 0])), '0')};", num1, {"DS_1": d1["DS_1"]}))
            elif lvl == "filter":
                C.append(case("div_zero", f"{op}:{lvl}", f"DS_r <- DS_1[filter {e('Me_1', '0')} > 1];", num1, {"DS_1": d1["DS_1"]}))
            else:
                C.append(case("div_zero", f"{op}:{lvl}", f"DS_r <- DS_1[aggr Me_3 := sum({e('Me_1', '0')}) group by Id_1];", num1, {"DS_1": d1["DS_1"]}))
    # integer division operands
    C.append(case("div_zero", "/:int-ds-ds", "DS_r <- DS_1 / DS_2;", int2,
                  {"DS_1": frame({"Id_1": ids(2), "Me_1": [4, 5]}), "DS_2": frame({"Id_1": ids(2), "Me_1": [0, 2]})}))

    # ---- ln / log / sqrt / power / exp domain and overflow
    bad = {"ln": [0.0, -1.0, -1e-9], "sqrt": [-1.0, -4.0, -1e300], "exp": [1000.0, 710.0, 1e6]}
    for op, pool in bad.items():
        vals = [1.0] + pick(pool, 2)
        dd = {"DS_1": frame({"Id_1": ids(3), "Me_1": vals})}
        C.append(case("num_domain", f"{op}:ds", f"DS_r <- {op}(DS_1);", num1, dd))
        C.append(case("num_domain", f"{op}:calc", f"DS_r <- DS_1[calc Me_2 := {op}(Me_1)];", num1, dd))
        C.append(case("num_domain", f"{op}:scalar", f"sc_r <- {op}({rng.choice(pool)});", num1, dd))
    for base, arg, tag in [("2", [0.0, -3.0], "arg<=0"), ("-2", [8.0, 4.0], "base<0"), ("0", [8.0, 4.0], "base=0"), ("1", [8.0, 4.0], "base=1")]:
        dd = {"DS_1": frame({"Id_1": ids(2), "Me_1": arg})}
        C.append(case("num_domain", f"log:{tag}:ds", f"DS_r <- log(DS_1, {base});", num1, dd))
        C.append(case("num_domain", f"log:{tag}:calc", f"DS_r <- DS_1[calc Me_2 := log(Me_1, {base})];", num1, dd))
        C.append(case("num_domain", f"log:{tag}:scalar", f"sc_r <- log({arg[0]}, {base});", num1, dd))
    for b, e, tag in [([10.0, 1e200], "400", "overflow"), ([-8.0, -2.0], "0.5", "neg-frac"), ([0.0, 0.0], "-1", "zero-neg")]:
        dd = {"DS_1": frame({"Id_1": ids(2), "Me_1": b})}
        C.append(case("power", f"{tag}:ds", f"DS_r <- power(DS_1, {e});", num1, dd))
        C.append(case("power", f"{tag}:calc", f"DS_r <- DS_1[calc Me_2 := power(Me_1, {e})];", num1, dd))
        C.append(case("power", f"{tag}:scalar", f"sc_r <- power({b[0]}, {e});", num1, dd))
    C.append(case("power", "int-overflow:ds", "DS_r <- power(DS_1, 40);", int1, {"DS_1": frame({"Id_1": ids(2), "Me_1": [10, 99]})}))

    # ---- integer overflow / huge values
    for op, tag in [("DS_1 + DS_2", "+"), ("DS_1 * DS_2", "*"), ("DS_1 - DS_2", "-")]:
        dd = {"DS_1": frame({"Id_1": ids(2), "Me_1": [big, -big]}), "DS_2": frame({"Id_1": ids(2), "Me_1": [big if tag != "-" else -big, 5]})}
        C.append(case("int_overflow", f"{tag}:ds-ds", f"DS_r <- {op};", int2, dd))
    C.append(case("int_overflow", "+:calc-const", "DS_r <- DS_1[calc Me_2 := Me_1 + 1];", int1, {"DS_1": frame({"Id_1": ids(2), "Me_1": [big, 1]})}))
    C.append(case("int_overflow", "*:scalar", f"sc_r <- {big} * 2;", int1, {"DS_1": frame({"Id_1": ids(1), "Me_1": [1]})}))
    C.append(case("int_overflow", "literal>int64:ds", "DS_r <- DS_1 + 99999999999999999999;", int1, {"DS_1": frame({"Id_1": ids(1), "Me_1": [1]})}))
    C.append(case("int_overflow", "literal>int64:scalar", "sc_r <- 99999999999999999999 + 1;", int1, {"DS_1": frame({"Id_1": ids(1), "Me_1": [1]})}))
    C.append(case("int_overflow", "sum:aggr", "DS_r <- sum(DS_1 group by Id_2);",
                  S(ds("DS_1", ("Me_1", "Integer"), ids=(ID, ("Id_2", "Integer", "Identifier", False)))),
                  {"DS_1": frame({"Id_1": ids(3), "Id_2": [1, 1, 1], "Me_1": [big, big, big]})}))
    C.append(case("int_overflow", "abs-min:ds", "DS_r <- abs(DS_1);", int1, {"DS_1": frame({"Id_1": ids(1), "Me_1": [-(2 ** 63)]})}))
    C.append(case("int_overflow", "unary-minus-min:ds", "DS_r <- - DS_1;", int1, {"DS_1": frame({"Id_1": ids(1), "Me_1": [-(2 ** 63)]})}))
    C.append(case("int_overflow", "number*huge:ds", "DS_r <- DS_1 * DS_1;", num1, {"DS_1": frame({"Id_1": ids(2), "Me_1": [1e17, 9.9e17]})}))
    C.append(case("int_overflow", "number-sum-huge:aggr", "DS_r <- sum(DS_1 group by Id_2);",
                  S(ds("DS_1", ("Me_1", "Number"), ids=(ID, ("Id_2", "Integer", "Identifier", False)))),
                  {"DS_1": frame({"Id_1": ids(3), "Id_2": [1, 1, 1], "Me_1": [9.9e17, 9.9e17, 9.9e17]})}))
    C.append(case("int_overflow", "cast-number->integer:huge", "DS_r <- DS_1[calc Me_2 := cast(Me_1, integer)];", num1,
                  {"DS_1": frame({"Id_1": ids(2), "Me_1": [1e17, 9.9e17]})}))
    C.append(case("int_overflow", "round-digits:huge", "DS_r <- round(DS_1, 400);", num1, {"DS_1": frame({"Id_1": ids(1), "Me_1": [1.5]})}))
    C.append(case("int_overflow", "trunc-digits:neg-huge", "DS_r <- trunc(DS_1, -400);", num1, {"DS_1": frame({"Id_1": ids(1), "Me_1": [1.5]})}))

    # ---- strings: substr / instr / replace / very long
    sv = ["abcdef", "", "a", "xyz" * 5]
    for args, tag in [("0, 1", "start0"), ("-1, 2", "start<0"), ("2, -1", "len<0"), ("100, 5", "start>len"), (f"1, {big}", "len-huge"),
                      (f"{big}, 1", "start-huge")]:
        dd = {"DS_1": frame({"Id_1": ids(3), "Me_1": pick(sv)})}
        C.append(case("substr", f"{tag}:ds", f"DS_r <- substr(DS_1, {args});", str1, dd))
        C.append(case("substr", f"{tag}:calc", f"DS_r <- DS_1[calc Me_2 := substr(Me_1, {args})];", str1, dd))
        C.append(case("substr", f"{tag}:scalar", f'sc_r <- substr("abcdef", {args});', str1, dd))
    for args, tag in [('"a", 0', "start0"), ('"a", -1', "start<0"), ('"a", 1, 0', "occ0"), ('"a", 1, -2', "occ<0"), ('"", 1, 1', "empty-pattern"),
                      (f'"a", {big}', "start-huge")]:
        dd = {"DS_1": frame({"Id_1": ids(3), "Me_1": pick(sv)})}
        C.append(case("instr", f"{tag}:ds", f"DS_r <- instr(DS_1, {args});", str1, dd))
        C.append(case("instr", f"{tag}:calc", f"DS_r <- DS_1[calc Me_2 := instr(Me_1, {args})];", str1, dd))
        C.append(case("instr", f"{tag}:scalar", f'sc_r <- instr("banana", {args});', str1, dd))
    long_s = "x" * (200000 if tier == "thorough" else 50000)
    C.append(case("long_string", "data:ds", "DS_r <- DS_1 || DS_1;", str1, {"DS_1": frame({"Id_1": ids(2), "Me_1": [long_s, "a"]})}))
    C.append(case("long_string", "data:len", "DS_r <- length(DS_1);", str1, {"DS_1": frame({"Id_1": ids(2), "Me_1": [long_s, "a"]})}))
    C.append(case("long_string", "constant:calc", f'DS_r <- DS_1[calc Me_2 := Me_1 || "{long_s[:20000]}"];', str1, {"DS_1": frame({"Id_1": ids(1), "Me_1": ["a"]})}))
    C.append(case("long_string", "replace-empty:ds", 'DS_r <- replace(DS_1, "", "y");', str1, {"DS_1": frame({"Id_1": ids(1), "Me_1": ["abc"]})}))
    for pat, tag in [("(", "unbalanced"), ("[a-", "bad-class"), ("*a", "leading-star"), ("a{2,1}", "bad-repeat"), ("\\\\", "backslash")]:
        dd = {"DS_1": frame({"Id_1": ids(2), "Me_1": ["abc", "a("]})}
        C.append(case("match_characters", f"{tag}:ds", f'DS_r <- match_characters(DS_1, "{pat}");', str1, dd))
        C.append(case("match_characters", f"{tag}:calc", f'DS_r <- DS_1[calc Me_2 := match_characters(Me_1, "{pat}")];', str1, dd))
        C.append(case("match_characters", f"{tag}:scalar", f'sc_r <- match_characters("abc", "{pat}");', str1, dd))
    str2c = S(ds("DS_1", ("Me_1", "String"), ("Me_2", "String")))
    for meth in ("hamming", "levenshtein", "damerau_levenshtein", "jaro_winkler"):
        dd = {"DS_1": frame({"Id_1": ids(2), "Me_1": ["abc", "abcd"], "Me_2": ["abd", "ab"]})}
        C.append(case("string_distance", f"{meth}:calc", f"DS_r <- DS_1[calc Me_3 := string_distance({meth}, Me_1, Me_2)];", str2c, dd))
        C.append(case("string_distance", f"{meth}:scalar", f'sc_r <- string_distance({meth}, "abc", "ab");', str2c, dd))

    # ---- casts: every (source type, target type) pair with values that do not convert
    TYPES = {"Integer": "integer", "Number": "number", "String": "string", "Boolean": "boolean", "Date": "date",
             "Time_Period": "time_period", "Time": "time", "Duration": "duration"}
    badvals = {
        "String": ["abc", "", "1.5x", "2020-13-45", "12e999", "9" * 30, "TRUE ", "2020-Q9", "P1Y2M", "1,5", " 12 "],
        "Integer": [big, -5, 0, 20201345, 2],
        "Number": [1.5, -0.5, 1e300, 1e17, 2.0],
        "Boolean": [True, False],
        "Date": ["2020-01-15", "9999-12-31", "0001-01-01"],
        "Time_Period": ["2020-Q1", "2020-M12", "2020-W53", "2020", "2020-D366", "2020-S2"],
        "Time": ["2020-01-01/2020-03-15", "2020-01-01/2020-12-31", "2020-06-01/2020-01-01"],
        "Duration": ["A", "M", "D"],
    }
    masks = {"Date": ['"YYYY-MM-DD"', '"DD/MM/YYYY"', '"bad"'], "Time_Period": ['"YYYY-MM"'], "Number": ['"DD.DDD"', '"D"'], "String": ['"YYYY"']}
    for src, pool in badvals.items():
        for tgt, kw in TYPES.items():
            if src == tgt:
                continue
            st = S(ds("DS_1", ("Me_1", src)))
            vals = list(pool)   # every failing value of the pool (which one DuckDB meets first does not matter)
            rng.shuffle(vals)
            dd = {"DS_1": frame({"Id_1": ids(len(vals)), "Me_1": vals})}
            C.append(case("cast", f"{src}->{tgt}:calc", f"DS_r <- DS_1[calc Me_2 := cast(Me_1, {kw})];", st, dd))
            C.append(case("cast", f"{src}->{tgt}:ds", f"DS_r <- cast(DS_1, {kw});", st, dd))
            v0 = pool[0]
            lit = f'"{v0}"' if isinstance(v0, str) else ("true" if v0 is True else "false" if v0 is False else repr(v0))
            if src in ("Date", "Time_Period", "Time", "Duration"):
                lit = f"cast({lit}, {TYPES[src]})"
            C.append(case("cast", f"{src}->{tgt}:scalar", f"sc_r <- cast({lit}, {kw});", st, dd))
            for mk in masks.get(tgt, []) if src == "String" else masks.get(src, []) if tgt == "String" else []:
                C.append(case("cast", f"{src}->{tgt}:mask:{mk.strip(chr(34))}", f"DS_r <- DS_1[calc Me_2 := cast(Me_1, {kw}, {mk})];", st, dd))

    # ---- the cast rejections added by the cast repairs: ordinary expected VTL errors (RunTimeError with a catalogued code)
    for tag, val, tgt, code in [("String->Integer:3.5", "3.5", "integer", "2-1-5-1"), ("String->Duration:abc", "abc", "duration", "2-1-5-1"),
                                ("String->Time_Period:2020X1", "2020X1", "time_period", "2-1-5-1"), ("String->Date:inf", "inf", "date", "2-1-19-8")]:
        c = case("cast_rejection", tag, f"DS_r <- DS_1[calc Me_2 := cast(Me_1, {tgt})];", str1,
                 {"DS_1": frame({"Id_1": ids(2), "Me_1": [val, val]})})
        c["expect"] = ("Runtime", code)
        C.append(c)

    # ---- time: time_agg to a finer indicator, comparisons of different indicators, min/max, period output formats
    tp1 = S(ds("DS_1", ("Me_1", "Time_Period")))
    tpid = S(("DS_1", [("Id_1", "Time_Period", "Identifier", False), ("Me_1", "Number", "Measure", True)]))
    periods = {"A": "2020", "S": "2020-S1", "Q": "2020-Q3", "M": "2020-M07", "W": "2020-W33", "D": "2020-D200"}
    for src_i, src_v in periods.items():
        for tgt in ("A", "S", "Q", "M", "W", "D"):
            dd = {"DS_1": frame({"Id_1": ids(2), "Me_1": [src_v, src_v]})}
            C.append(case("time_agg", f"{src_i}->{tgt}:calc", f'DS_r <- DS_1[calc Me_2 := time_agg("{tgt}", Me_1)];', tp1, dd))
            if rng.random() < 0.5 or tier == "thorough":
                ddi = {"DS_1": frame({"Id_1": [src_v], "Me_1": [1.0]})}
                C.append(case("time_agg", f"{src_i}->{tgt}:ds", f'DS_r <- time_agg("{tgt}", _, DS_1);', tpid, ddi))
                C.append(case("time_agg", f"{src_i}->{tgt}:group", f'DS_r <- sum(DS_1 group all time_agg("{tgt}"));', tpid, ddi))
            C.append(case("time_agg", f"{src_i}->{tgt}:scalar", f'sc_r <- time_agg("{tgt}", cast("{src_v}", time_period));', tp1, dd))
    tp2c = S(ds("DS_1", ("Me_1", "Time_Period"), ("Me_2", "Time_Period")))
    tp2d = S(ds("DS_1", ("Me_1", "Time_Period")), ds("DS_2", ("Me_1", "Time_Period")))
    pv = list(periods.values())
    for op in ("<", ">", "<=", ">=", "=", "<>"):
        a, b = rng.sample(pv, 2)
        dd = {"DS_1": frame({"Id_1": ids(2), "Me_1": [a, a], "Me_2": [b, a]})}
        C.append(case("period_compare", f"{op}:calc", f"DS_r <- DS_1[calc Me_3 := Me_1 {op} Me_2];", tp2c, dd))
        C.append(case("period_compare", f"{op}:filter", f"DS_r <- DS_1[filter Me_1 {op} Me_2];", tp2c, dd))
        C.append(case("period_compare", f"{op}:ds-ds", f"DS_r <- DS_1 {op} DS_2;", tp2d,
                      {"DS_1": frame({"Id_1": ids(2), "Me_1": [a, a]}), "DS_2": frame({"Id_1": ids(2), "Me_1": [b, a]})}))
        C.append(case("period_compare", f"{op}:ds-const", f'DS_r <- DS_1 {op} cast("{b}", time_period);', tp1, {"DS_1": frame({"Id_1": ids(2), "Me_1": [a, a]})}))
        C.append(case("period_compare", f"{op}:scalar", f'sc_r <- cast("{a}", time_period) {op} cast("{b}", time_period);', tp1, {"DS_1": frame({"Id_1": ids(1), "Me_1": [a]})}))
    for ag in ("min", "max", "count", "median", "avg", "sum"):
        dd = {"DS_1": frame({"Id_1": ids(3), "Me_1": rng.sample(pv, 3)})}
        C.append(case("period_aggregate", f"{ag}:group-all", f"DS_r <- {ag}(DS_1 group except Id_1);", tp1, dd))
        C.append(case("period_aggregate", f"{ag}:aggr", f"DS_r <- DS_1[aggr Me_2 := {ag}(Me_1) group by Id_1];", tp1, dd))
    C.append(case("period_compare", "between:calc", 'DS_r <- DS_1[calc Me_3 := between(Me_1, cast("2020-Q1", time_period), cast("2020-M12", time_period))];', tp1,
                  {"DS_1": frame({"Id_1": ids(2), "Me_1": ["2020-Q2", "2020-M03"]})}))
    C.append(case("period_compare", "in-set:filter", 'DS_r <- DS_1[filter Me_1 in {"2020Q1", "2020M1"}];', tp1, {"DS_1": frame({"Id_1": ids(2), "Me_1": ["2020-Q1", "2020-M01"]})}))
    # analytic / order by on mixed periods
    C.append(case("period_aggregate", "rank:analytic", "DS_r <- DS_1[calc Me_2 := rank(over (order by Me_1))];", tp1, {"DS_1": frame({"Id_1": ids(3), "Me_1": rng.sample(pv, 3)})}))
    C.append(case("period_aggregate", "first_value:analytic", "DS_r <- first_value(DS_1 over (order by Id_1));", tp1, {"DS_1": frame({"Id_1": ids(3), "Me_1": rng.sample(pv, 3)})}))

    fmts = ("vtl", "sdmx_gregorian", "sdmx_reporting", "natural")
    odd = {"A": ["2020", "2020A", "0001"], "S": ["2020-S1", "2020S2"], "Q": ["2020-Q1", "2020Q4"], "M": ["2020-M01", "2020M12", "2020-02"],
           "W": ["2020-W01", "2020W53", "2021-W53"], "D": ["2020-D001", "2020D366", "2021-D366", "2020-02-29"]}
    for fmt in fmts:
        for ind, pool in odd.items():
            v = pick(pool, 2)
            dd = {"DS_1": frame({"Id_1": ids(2), "Me_1": v})}
            C.append(case("period_output_format", f"{fmt}:{ind}:dataset-measure", "DS_r <- DS_1;", tp1, dd, time_period_output_format=fmt))
            C.append(case("period_output_format", f"{fmt}:{ind}:dataset-identifier", "DS_r <- DS_1;", tpid,
                          {"DS_1": frame({"Id_1": [pool[0]], "Me_1": [1.0]})}, time_period_output_format=fmt))
            C.append(case("period_output_format", f"{fmt}:{ind}:scalar", f'sc_r <- cast("{pool[0]}", time_period);', tp1, dd, time_period_output_format=fmt))
            C.append(case("period_output_format", f"{fmt}:{ind}:cast-to-string", "DS_r <- DS_1[calc Me_2 := cast(Me_1, string)];", tp1, dd, time_period_output_format=fmt))
            C.append(case("period_output_format", f"{fmt}:{ind}:output-folder", "DS_r <- DS_1;", tp1, dd, time_period_output_format=fmt, output_folder="@TMP"))
            if rng.random() < 0.4 or tier == "thorough":
                C.append(case("period_output_format", f"{fmt}:{ind}:not-persistent", "DS_a := DS_1; DS_r <- DS_a;", tp1, dd, time_period_output_format=fmt,
                              return_only_persistent=False))
    C.append(case("period_output_format", "invalid-format", "DS_r <- DS_1;", tp1, {"DS_1": frame({"Id_1": ids(1), "Me_1": ["2020"]})}, time_period_output_format="iso"))
    C.append(case("period_output_format", "output-format-invalid", "DS_r <- DS_1;", tp1, {"DS_1": frame({"Id_1": ids(1), "Me_1": ["2020"]})}, output_folder="@TMP", output_format="xlsx"))
    C.append(case("period_output_format", "parquet-output", "DS_r <- DS_1;", tp1, {"DS_1": frame({"Id_1": ids(1), "Me_1": ["2020-Q1"]})}, output_folder="@TMP", output_format="parquet",
                  time_period_output_format="sdmx_gregorian"))

    # ---- ratio_to_report with zero sums, other analytics
    for vals, tag in [([0.0, 0.0, 0.0], "all-zero"), ([1.0, -1.0, 0.0], "cancel"), ([None, None, None], "all-null")]:
        st = S(ds("DS_1", ("Me_1", "Number"), ids=(ID, ("Id_2", "Integer", "Identifier", False))))
        dd = {"DS_1": frame({"Id_1": ids(3), "Id_2": [1, 1, 1], "Me_1": vals})}
        C.append(case("ratio_to_report", f"{tag}:ds", "DS_r <- ratio_to_report(DS_1 over (partition by Id_2));", st, dd))
        C.append(case("ratio_to_report", f"{tag}:calc", "DS_r <- DS_1[calc Me_2 := ratio_to_report(Me_1 over (partition by Id_2))];", st, dd))
    C.append(case("analytic", "lag-huge-offset", f"DS_r <- lag(DS_1, {big} over (order by Id_1));", num1, {"DS_1": frame({"Id_1": ids(2), "Me_1": [1.0, 2.0]})}))
    C.append(case("analytic", "window-huge", f"DS_r <- sum(DS_1 over (order by Id_1 data points between {big} preceding and current data point));", num1,
                  {"DS_1": frame({"Id_1": ids(2), "Me_1": [1.0, 2.0]})}))
    C.append(case("analytic", "avg-empty", "DS_r <- avg(DS_1 group except Id_1);", num1, {"DS_1": frame({"Id_1": [], "Me_1": []})}))
    C.append(case("analytic", "stddev-single", "DS_r <- stddev_samp(DS_1 group except Id_1);", num1, {"DS_1": frame({"Id_1": [1], "Me_1": [1.0]})}))
    C.append(case("analytic", "var-huge", "DS_r <- var_pop(DS_1 group except Id_1);", num1, {"DS_1": frame({"Id_1": ids(2), "Me_1": [9.9e17, -9.9e17]})}))

    # ---- dateadd / datediff / date parts / duration conversions
    dt1 = S(ds("DS_1", ("Me_1", "Date")))
    dt2 = S(ds("DS_1", ("Me_1", "Date"), ("Me_2", "Date")))
    dvals = ["2020-02-29", "9999-12-31", "0001-01-01", "2020-12-31 23:59:59"]
    for shift, unit, tag in [(1, "Y", "leap+1Y"), (10 ** 7, "Y", "year-overflow"), (-(10 ** 7), "Y", "year-underflow"), (10 ** 12, "D", "days-huge"),
                             (1, "X", "bad-unit"), (1, "W", "week"), (big, "M", "shift-int64max")]:
        dd = {"DS_1": frame({"Id_1": ids(2), "Me_1": pick(dvals, 2)})}
        C.append(case("dateadd", f"{tag}:calc", f'DS_r <- DS_1[calc Me_2 := dateadd(Me_1, {shift}, "{unit}")];', dt1, dd))
        C.append(case("dateadd", f"{tag}:ds", f'DS_r <- dateadd(DS_1, {shift}, "{unit}");', dt1, dd))
        C.append(case("dateadd", f"{tag}:scalar", f'sc_r <- dateadd(cast("2020-02-29", date), {shift}, "{unit}");', dt1, dd))
        C.append(case("dateadd", f"{tag}:period-calc", f'DS_r <- DS_1[calc Me_2 := dateadd(Me_1, {shift}, "{unit}")];', tp1,
                      {"DS_1": frame({"Id_1": ids(2), "Me_1": ["2020-Q1", "2020-M12"]})}))
    C.append(case("datediff", "date-date:calc", "DS_r <- DS_1[calc Me_3 := datediff(Me_1, Me_2)];", dt2,
                  {"DS_1": frame({"Id_1": ids(2), "Me_1": ["0001-01-01", "2020-01-01"], "Me_2": ["9999-12-31", None]})}))
    C.append(case("datediff", "period-period-mixed:calc", "DS_r <- DS_1[calc Me_3 := datediff(Me_1, Me_2)];", tp2c,
                  {"DS_1": frame({"Id_1": ids(2), "Me_1": ["2020-Q1", "2020"], "Me_2": ["2020-M12", "2020-W53"]})}))
    C.append(case("datediff", "date-period:calc", "DS_r <- DS_1[calc Me_3 := datediff(Me_1, Me_2)];", S(ds("DS_1", ("Me_1", "Date"), ("Me_2", "Time_Period"))),
                  {"DS_1": frame({"Id_1": ids(1), "Me_1": ["2020-01-01"], "Me_2": ["2020-Q4"]})}))
    C.append(case("datediff", "time-interval:calc", "DS_r <- DS_1[calc Me_3 := datediff(Me_1, Me_2)];", S(ds("DS_1", ("Me_1", "Time"), ("Me_2", "Time"))),
                  {"DS_1": frame({"Id_1": ids(1), "Me_1": ["2020-01-01/2020-02-01"], "Me_2": ["2020-01-01/2020-03-01"]})}))
    for fn in ("daytoyear", "daytomonth"):
        for v, tag in [(-1, "negative"), (big, "int64max"), (0, "zero")]:
            C.append(case("duration_conv", f"{fn}:{tag}:calc", f"DS_r <- DS_1[calc Me_2 := {fn}(Me_1)];", int1, {"DS_1": frame({"Id_1": ids(1), "Me_1": [v]})}))
            C.append(case("duration_conv", f"{fn}:{tag}:scalar", f"sc_r <- {fn}({v});", int1, {"DS_1": frame({"Id_1": ids(1), "Me_1": [1]})}))
    for fn in ("yeartoday", "monthtoday"):
        for v, tag in [("P1Y2D", "ok-ish"), ("bad", "malformed"), ("P999999999999Y1D", "huge"), ("", "empty"), ("P1M1D", "month-form")]:
            C.append(case("duration_conv", f"{fn}:{tag}:calc", f"DS_r <- DS_1[calc Me_2 := {fn}(Me_1)];", str1, {"DS_1": frame({"Id_1": ids(1), "Me_1": [v]})}))
            C.append(case("duration_conv", f"{fn}:{tag}:scalar", f'sc_r <- {fn}("{v}");', str1, {"DS_1": frame({"Id_1": ids(1), "Me_1": ["a"]})}))
    for fn in ("year", "month", "dayofmonth", "dayofyear"):
        C.append(case("date_parts", f"{fn}:period:calc", f"DS_r <- DS_1[calc Me_2 := {fn}(Me_1)];", tp1, {"DS_1": frame({"Id_1": ids(3), "Me_1": ["2020-W53", "2020", "2021-D366"]})}))
        C.append(case("date_parts", f"{fn}:date:calc", f"DS_r <- DS_1[calc Me_2 := {fn}(Me_1)];", dt1, {"DS_1": frame({"Id_1": ids(2), "Me_1": ["9999-12-31", "0001-01-01"]})}))

    # ---- time series operators on irregular / out-of-calendar periods
    for script, tag in [("DS_r <- timeshift(DS_1, 1);", "timeshift+1"), (f"DS_r <- timeshift(DS_1, {10 ** 9});", "timeshift-huge"),
                        ("DS_r <- timeshift(DS_1, -3000);", "timeshift-before-year-0"),
                        ("DS_r <- fill_time_series(DS_1, all);", "fill-all"), ("DS_r <- fill_time_series(DS_1, single);", "fill-single"),
                        ("DS_r <- flow_to_stock(DS_1);", "flow_to_stock"), ("DS_r <- stock_to_flow(DS_1);", "stock_to_flow"),
                        ("DS_r <- period_indicator(DS_1);", "period_indicator")]:
        for vals, vtag in [(["2020-W52", "2020-W53", "2021-W01"], "weeks53"), (["2020-Q1", "2020-M03", "2020"], "mixed"), (["2021-W54", "2021-M13", "2021-D366"], "out-of-calendar"),
                           (["9999-M12", "9999-Q4", "9999"], "year9999")]:
            dd = {"DS_1": frame({"Id_1": vals, "Me_1": [1.0, 2.0, 3.0]})}
            C.append(case("time_series", f"{tag}:{vtag}", script, tpid, dd))
    dtid = S(("DS_1", [("Id_1", "Date", "Identifier", False), ("Me_1", "Number", "Measure", True)]))
    for script, tag in [("DS_r <- timeshift(DS_1, 1);", "timeshift+1"), ("DS_r <- fill_time_series(DS_1, all);", "fill-all"), (f"DS_r <- timeshift(DS_1, {10 ** 8});", "timeshift-huge")]:
        C.append(case("time_series", f"{tag}:date-irregular", script, dtid, {"DS_1": frame({"Id_1": ["2020-01-31", "2020-02-29", "2020-04-30"], "Me_1": [1.0, 2.0, 3.0]})}))
        C.append(case("time_series", f"{tag}:date-single", script, dtid, {"DS_1": frame({"Id_1": ["9999-12-31"], "Me_1": [1.0]})}))

    # ---- conditionals / structure shapes known to produce wrong SQL
    two = S(ds("DS_1", ("Me_1", "Integer")), ds("DS_2", ("Me_1", "Integer")))
    d2 = {"DS_1": frame({"Id_1": ids(2), "Me_1": [10, 20]}), "DS_2": frame({"Id_1": ids(2), "Me_1": [1, 2]})}
    C.append(case("if_dataset_condition", "inline-comparison", "DS_r <- if DS_1 > 15 then DS_1 else DS_2;", two, d2))
    C.append(case("if_dataset_condition", "named-condition", "DS_c := DS_1 > 15; DS_r <- if DS_c then DS_1 else DS_2;", two, d2))
    C.append(case("if_dataset_condition", "case-inline", "DS_r <- case when DS_1 > 15 then DS_1 else DS_2;", two, d2))
    C.append(case("if_dataset_condition", "nvl-inline", "DS_r <- nvl(DS_1 / DS_2, 0);", two, d2))
    C.append(case("if_dataset_condition", "if-scalar-cond-ds", "DS_r <- if 1 > 0 then DS_1 else DS_2;", two, d2))
    C.append(case("case_variant_names", "measures:Me_1/me_1", "DS_r <- DS_1;", S(ds("DS_1", ("Me_1", "Integer"), ("me_1", "Integer"))),
                  {"DS_1": frame({"Id_1": ids(2), "Me_1": [1, 2], "me_1": [3, 4]})}))
    C.append(case("case_variant_names", "datasets:DS_1/ds_1", "DS_r <- DS_1 + ds_1;", S(ds("DS_1", ("Me_1", "Integer")), ds("ds_1", ("Me_1", "Integer"))),
                  {"DS_1": frame({"Id_1": ids(2), "Me_1": [1, 2]}), "ds_1": frame({"Id_1": ids(2), "Me_1": [3, 4]})}))
    C.append(case("case_variant_names", "result-vs-input:ds_1<-DS_1", "ds_1 <- DS_1;", int1, {"DS_1": frame({"Id_1": ids(2), "Me_1": [1, 2]})}))
    C.append(case("case_variant_names", "calc-new:me_1", "DS_r <- DS_1[calc me_1 := Me_1 + 1];", int1, {"DS_1": frame({"Id_1": ids(2), "Me_1": [1, 2]})}))
    C.append(case("case_variant_names", "rename:me_1", "DS_r <- DS_1[rename Me_2 to me_1];", S(ds("DS_1", ("Me_1", "Integer"), ("Me_2", "Integer"))),
                  {"DS_1": frame({"Id_1": ids(2), "Me_1": [1, 2], "Me_2": [1, 2]})}))
    C.append(case("odd_names", "quoted-component", "DS_r <- DS_1[calc Me_2 := 'Me 1' + 1];", S(ds("DS_1", ("Me 1", "Integer"))), {"DS_1": frame({"Id_1": ids(1), "Me 1": [1]})}))
    C.append(case("odd_names", "double-quote-in-name", 'DS_r <- DS_1;', S(ds("DS_1", ('Me"1', "Integer"))), {"DS_1": frame({"Id_1": ids(1), 'Me"1': [1]})}))
    C.append(case("odd_names", "sql-keyword-name", "DS_r <- DS_1[calc select := Me_1 + 1];", int1, {"DS_1": frame({"Id_1": ids(1), "Me_1": [1]})}))
    C.append(case("odd_names", "string-constant-with-quote", "DS_r <- DS_1[calc Me_2 := Me_1 || \"it's\"];", str1, {"DS_1": frame({"Id_1": ids(1), "Me_1": ["a"]})}))
    C.append(case("odd_names", "data-with-quote-backslash", 'DS_r <- DS_1 || DS_1;', str1, {"DS_1": frame({"Id_1": ids(2), "Me_1": ["it's", "a\\b\"c"]})}))

    # ---- joins / set ops / membership on empty and null-heavy data
    C.append(case("empty_data", "inner_join", "DS_r <- inner_join(DS_1, DS_2 using Id_1);", S(ds("DS_1", ("Me_1", "Integer")), ds("DS_2", ("Me_2", "Integer"))),
                  {"DS_1": frame({"Id_1": [], "Me_1": []}), "DS_2": frame({"Id_1": [], "Me_2": []})}))
    C.append(case("empty_data", "no-datapoints", "DS_r <- DS_1 + 1;", int1, {}))
    C.append(case("empty_data", "all-null-measure", "DS_r <- sum(DS_1 group except Id_1);", num1, {"DS_1": frame({"Id_1": ids(2), "Me_1": [None, None]})}))
    C.append(case("empty_data", "median-empty", "DS_r <- median(DS_1 group except Id_1);", num1, {"DS_1": frame({"Id_1": [], "Me_1": []})}))
    return C


# ------------------------------------------------------------------------------------------------ corpus
def corpus_cases(rng, n: Optional[int]) -> List[dict]:
    out = []
    dirs = sorted(p for p in TESTS.rglob("data/vtl") if p.is_dir())
    allv = []
    for d in dirs:
        base = d.parent
        if not (base / "DataStructure" / "input").is_dir():
            continue
        for v in sorted(d.glob("*.vtl")):
            allv.append((base, v))
    if n is not None and n < len(allv):
        allv = rng.sample(allv, n)
    for base, v in sorted(allv):
        code = v.stem
        js = []
        for j in sorted((base / "DataStructure" / "input").glob(f"{code}-*.json")):
            m = re.fullmatch(re.escape(code) + r"-(?:DS_)?(\d+)\.json", j.name)
            if m:
                js.append((int(m.group(1)), j))
        if not js:
            continue
        structs = {"datasets": [], "scalars": []}
        data: Dict[str, Any] = {}
        try:
            for i, j in sorted(js):
                d = json.loads(j.read_text())
                for dsj in d.get("datasets", []):
                    structs["datasets"].append(dsj)
                    csv = base / "DataSet" / "input" / (j.stem + ".csv")
                    if csv.exists():
                        data[dsj["name"]] = csv
                structs["scalars"] += d.get("scalars", [])
        except Exception:
            continue
        if not structs["scalars"]:
            del structs["scalars"]
        rel = str(v.relative_to(TESTS))
        extra = {}
        vd = base / "ValueDomain"
        if vd.is_dir():
            vds = sorted(vd.glob("*.json"))
            if vds:
                extra["value_domains"] = vds
        out.append({"family": "corpus", "shape": rel, "script": v.read_text(), "structs": structs, "data": data, "kw": extra, "corpus": True})
    return out


# ------------------------------------------------------------------------------------------------ running one case
FUNC_STAGE = [
    ("apply_time_period_representation", None, "SFetchRepr"),
    ("_build_dataset_fetch_select", None, "SFetchSelect"),
    ("save_datapoints_duckdb", "DROP TABLE", "SDrop"), ("save_datapoints_duckdb", None, "SSave"),
    ("_fetch_result_impl", None, "SFetchSelect"), ("fetch_result", None, "SFetchSelect"),
    ("_normalize_time_period_columns", None, "SLoadNormalize"),
    ("validate_no_duplicates", None, "SLoadValidate"), ("validate_temporal_columns", None, "SLoadValidate"),
    ("_validate_loaded_table", "DROP TABLE", "SDrop"), ("_validate_loaded_table", None, "SLoadValidate"),
    ("_create_table", None, "SLoadCreate"), ("_create_empty_table", None, "SLoadCreate"),
    ("register_dataframes", "build_create_table_sql", "SLoadCreate"), ("register_dataframes", None, "SLoadInsert"),
    ("load_datapoints_duckdb", "build_create_table_sql", "SLoadCreate"), ("load_datapoints_duckdb", None, "SLoadInsert"),
    ("_load_parquet", "build_create_table_sql", "SLoadCreate"), ("_load_parquet", None, "SLoadInsert"),
    ("cleanup_scheduled_datasets", "DROP TABLE", "SDrop"),
    ("initialize_time_types", None, "SInitMacros"),
    ("execute_queries", "CREATE TABLE", "SExec"),
    ("format_time_period_external_representation", None, "SPostFormat"), ("format_date_iso8601", None, "SPostFormat"),
    ("transpile", None, "STranspile"),
]
PRE_STAGES = [("create_ast", "parse"), ("load_datasets", "structures"), ("visit_Start", "semantic"), ("extract_datapoint_paths", "inputs"),
              ("load_value_domains", "inputs"), ("load_external_routines", "inputs"), ("_check_script", "inputs"),
              ("configured_connection", "connection"), ("check_value", "inputs")]


def stage_of(exc: BaseException) -> str:
    """innermost engine frame of the traceback -> pipeline stage"""
    import linecache
    tb = exc.__traceback__
    frames = []
    while tb is not None:
        co = tb.tb_frame.f_code
        frames.append((co.co_name, co.co_filename, tb.tb_lineno))
        tb = tb.tb_next
    for name, fn, ln in reversed(frames):
        if "/vtlengine/" not in fn:
            continue
        src = linecache.getline(fn, ln)
        ctx = "".join(linecache.getline(fn, k) for k in range(max(1, ln - 3), ln + 4))
        for f, needle, st in FUNC_STAGE:
            if name == f and (needle is None or needle in src or needle in ctx):
                return st
        if "/duckdb_transpiler/Transpiler/" in fn or "/ViralPropagation/" in fn:
            return "STranspile"
    for name, fn, ln in reversed(frames):
        for f, st in PRE_STAGES:
            if name == f:
                return st
    names = [n for n, fn, _ in frames if "/vtlengine/" in fn]
    if "run" in names and len(names) == 1:
        return "SPostFormat"
    return "?"


def underlying_duckdb(exc: BaseException):
    import duckdb
    seen = 0
    e: Optional[BaseException] = exc
    while e is not None and seen < 6:
        if isinstance(e, duckdb.Error):
            return e
        e = e.__cause__ or e.__context__
        seen += 1
    return None


def run_case(c: dict, tmp_root: Path) -> dict:
    """semantic analysis, load validation, run(); everything classified"""
    import engine
    import vtlengine
    kw = dict(c["kw"])
    out_dir = None
    if kw.get("output_folder") == "@TMP":
        out_dir = Path(tempfile.mkdtemp(dir=tmp_root))
        kw["output_folder"] = out_dir
    sem_kw = {k: v for k, v in kw.items() if k in ("value_domains", "external_routines")}
    r: Dict[str, Any] = {"family": c["family"], "shape": c["shape"], "sem": "n/a", "load": "n/a"}
    res = engine.run_case(c["script"], c["structs"], c["data"], **kw)
    if res["ok"]:
        r["run"] = ("OK", None)
    else:
        e = res["exc"]
        r["run"] = res["err"]
        r["msg"] = res["msg"]
        r["exc_class"] = type(e).__name__
        db = underlying_duckdb(e)
        r["stage"] = stage_of(db if db is not None else e)
        if db is not None:
            r["db_msg"] = str(db)
            r["db_cls"] = type(db).__name__
        if r["run"][0] in ("RawDuckDB", "RawPython"):
            # the property's preconditions, evaluated only where they decide something
            sem = engine.semantic_case(c["script"], c["structs"], **sem_kw)
            r["sem"] = "ok" if sem["ok"] else sem["err"]
            try:
                import copy
                vtlengine.validate_dataset(copy.deepcopy(c["structs"]),
                                           {k: (v.copy() if hasattr(v, "copy") else v) for k, v in c["data"].items()} or None)
                r["load"] = "ok"
            except Exception as e2:  # noqa
                r["load"] = engine.classify_error(e2)
    if out_dir is not None:
        shutil.rmtree(out_dir, ignore_errors=True)
    return r


def _worker_init():
    os.environ[common.GUARD] = "1"
    import engine
    engine.install(need_parser=True)


_WTMP: Optional[Path] = None


def _worker_run(c: dict) -> dict:
    global _WTMP
    if _WTMP is None:
        _WTMP = Path(tempfile.mkdtemp(prefix="c32w_"))
        import atexit
        atexit.register(shutil.rmtree, _WTMP, True)
    try:
        return run_case(c, _WTMP)
    except Exception as e:  # the harness itself must not hide a case
        return {"family": c["family"], "shape": c["shape"], "sem": "?", "load": "?", "run": ("HarnessError", type(e).__name__),
                "msg": f"{type(e).__name__}: {e}"[:300]}


def run_cases_parallel(cases: List[dict], workers: int = common.NCPU, per_case_timeout: int = 180) -> List[dict]:
    """runs the cases in spawned worker processes (each with its own engine + parser front end); order preserved"""
    import multiprocessing as mp
    from concurrent.futures import ProcessPoolExecutor, TimeoutError as FTimeout
    out: List[dict] = []
    ctxm = mp.get_context("spawn")
    with ProcessPoolExecutor(max_workers=workers, mp_context=ctxm, initializer=_worker_init) as ex:
        futs = [ex.submit(_worker_run, c) for c in cases]
        for c, f in zip(cases, futs):
            try:
                out.append(f.result(timeout=per_case_timeout))
            except FTimeout:
                out.append({"family": c["family"], "shape": c["shape"], "sem": "?", "load": "?", "run": ("Timeout", None), "msg": "case timed out"})
            except Exception as e:
                out.append({"family": c["family"], "shape": c["shape"], "sem": "?", "load": "?", "run": ("HarnessError", type(e).__name__),
                            "msg": f"{type(e).__name__}: {e}"[:300]})
    return out


def load_stored() -> List[dict]:
    """minimised past failures (corpus/C32/case_*.json), run before anything else"""
    import pandas as pd
    out = []
    for p in sorted((CORPUS / "C32").glob("case_*.json")) if (CORPUS / "C32").is_dir() else []:
        try:
            d = json.loads(p.read_text())
            data = {k: (pd.DataFrame(v) if isinstance(v, dict) else Path(v)) for k, v in (d.get("data") or {}).items()}
            out.append({"family": d["family"], "shape": d["shape"], "script": d["script"], "structs": d["structs"], "data": data,
                        "kw": d.get("kw") or {}, "stored": p.name})
        except Exception as e:
            print(f"[warn] unreadable stored case {p}: {e}", flush=True)
    return out


def store_case(key: str, rep: dict) -> None:
    import hashlib
    if rep.get("env") or rep.get("family") == "corpus":
        return
    d = CORPUS / "C32"
    d.mkdir(parents=True, exist_ok=True)
    kw = {k: v for k, v in (rep.get("kw") or {}).items() if k in ("time_period_output_format", "output_format")}
    if (rep.get("kw") or {}).get("output_folder"):
        kw["output_folder"] = "@TMP"
    if (rep.get("kw") or {}).get("return_only_persistent") == "False":
        kw["return_only_persistent"] = False
    h = hashlib.sha1(key.encode()).hexdigest()[:10]
    (d / f"case_{h}.json").write_text(json.dumps({"key": key, "family": rep["family"], "shape": rep["shape"], "script": rep["script"],
                                                  "structs": rep["structs"], "data": rep["data"], "kw": kw}, indent=1, default=str) + "\n")


def is_violation(r: dict) -> bool:
    return r["sem"] == "ok" and r["load"] == "ok" and r["run"][0] in ("RawDuckDB", "RawPython")


def config_cases() -> List[dict]:
    """configurations that need a fresh process (they leave module globals changed).  Only the variables whose range the
    engine documents AND validates with a coded error (0-4-1-1) are driven outside their range; the others get valid values."""
    return [{"family": "config", "shape": f"VTL_DUCKDB_DECIMAL_WIDTH={w}", "env": {"VTL_DUCKDB_DECIMAL_WIDTH": str(w)}} for w in (45, 39, 5, -1, 38, 6)] + \
           [{"family": "config", "shape": f"OUTPUT_NUMBER_SIGNIFICANT_DIGITS={w}", "env": {"OUTPUT_NUMBER_SIGNIFICANT_DIGITS": str(w)}} for w in (16, 5, -1, 15, 6)] + \
           [{"family": "config", "shape": "VTL_THREADS=4", "env": {"VTL_THREADS": "4"}},
            {"family": "config", "shape": "VTL_MEMORY_LIMIT=1GB", "env": {"VTL_MEMORY_LIMIT": "1GB"}},
            {"family": "config", "shape": "VTL_USE_IN_MEMORY_DB=0", "env": {"VTL_USE_IN_MEMORY_DB": "0"}}]


CONFIG_CHILD = r'''
import json, sys
sys.path[:0] = [%(harness)r, %(src)r]
import engine
engine.install(need_parser=True)
import pandas as pd
S = engine.structures(engine.ds_struct("DS_1", [("Id_1", "Integer", "Identifier", False), ("Me_1", "Number", "Measure", True)]))
r = engine.run_case("DS_r <- DS_1 * 2;", S, {"DS_1": pd.DataFrame({"Id_1": [1, 2], "Me_1": [1.5, 2.5]})})
sem = engine.semantic_case("DS_r <- DS_1 * 2;", S)
out = {"sem": "ok" if sem["ok"] else list(sem["err"]), "run": ["OK", None] if r["ok"] else list(r["err"]), "msg": r.get("msg", "")}
if not r["ok"]:
    import props.c32 as P
    e = r["exc"]
    db = P.underlying_duckdb(e)
    out["stage"] = P.stage_of(db if db is not None else e)
    out["exc_class"] = type(e).__name__
    if db is not None:
        out["db_msg"] = str(db); out["db_cls"] = type(db).__name__
print("RESULT " + json.dumps(out))
'''


def run_config_case(c: dict) -> dict:
    env = dict(os.environ)
    env.update(c["env"])
    env["PYTHONPATH"] = f"{common.VERIF / 'harness'}:{REPO / 'src'}"
    code = CONFIG_CHILD % {"harness": str(common.VERIF / "harness"), "src": str(REPO / "src")}
    try:
        p = subprocess.run(["/venv/bin/python", "-c", code], env=env, stdout=subprocess.PIPE, stderr=subprocess.STDOUT, text=True, timeout=120)
    except subprocess.TimeoutExpired:
        return {"family": "config", "shape": c["shape"], "sem": "ok", "load": "ok", "run": ("Timeout", None), "msg": "child timed out", "stage": "?"}
    m = re.search(r"^RESULT (.*)$", p.stdout, re.M)
    if not m:
        return {"family": "config", "shape": c["shape"], "sem": "ok", "load": "ok", "run": ("ChildCrash", None), "msg": p.stdout[-400:], "stage": "?"}
    d = json.loads(m.group(1))
    d.update({"family": "config", "shape": c["shape"], "load": "ok", "run": tuple(d["run"])})
    if isinstance(d["sem"], list):
        d["sem"] = tuple(d["sem"])
    return d


# ------------------------------------------------------------------------------------------------ model side
KIND = {"Semantic": "KSemantic", "Runtime": "KRuntime", "DataLoad": "KDataLoad", "InputValidation": "KInputValidation", "Syntax": "KSyntax",
        "OtherVTL": "KOtherVTL"}


def model_outcomes(pairs: List[Tuple[str, str]]) -> List[Any]:
    """apply_mapper (stage_mapper_impl stage) (RawDB msg), evaluated by Coq, for every (stage, message)"""
    header = "From Coq Require Import String List. Import ListNotations. Open Scope string_scope.\nFrom VTL Require Import Model.ErrMap."
    # the message is not echoed in the result (coq_eval treats the word "Error" in the output as a failure)
    proj = "(fun e => match e with VTL k c => (Some k, c) | _ => (None, EmptyString) end)"
    exprs = [f"{proj} (apply_mapper (stage_mapper_impl {st}) (RawDB {coq_string(m)}))" for st, m in pairs]
    return common.coq_eval(header, exprs, "c32k", shard=200)


STAGE_SHORT = {"STranspile": "transpile", "SInitMacros": "init-macros", "SLoadCreate": "load-create", "SLoadInsert": "load-insert",
               "SLoadNormalize": "load-normalize", "SLoadValidate": "load-validate", "SExec": "exec", "SFetchRepr": "fetch-repr",
               "SFetchSelect": "fetch", "SSave": "save", "SDrop": "drop", "SPostFormat": "post-format"}
LEVELS = ("ds", "calc", "scalar", "ds-ds", "ds-const", "calc-comp", "calc-const", "filter", "aggr", "group", "dataset-measure", "dataset-identifier",
          "cast-to-string", "output-folder", "not-persistent", "period-calc")


def key_of(r: dict) -> str:
    """stable identifier: exception class, stage, family, variant (the level — dataset / calc / scalar ... — is not part of it,
    except where the level decides the stage)"""
    st = STAGE_SHORT.get(r.get("stage", "?"), r.get("stage", "?"))
    parts = r["shape"].split(":")
    if r["family"] != "corpus" and len(parts) > 1 and parts[-1] in LEVELS:
        parts = parts[:-1]
    return f"raw:{r.get('exc_class', r['run'][1])}:{st}:{r['family']}:{':'.join(parts)}"


def record_messages(new: List[dict]) -> int:
    """raw DuckDB messages observed -> corpus/C32/messages.json (read by the translator on the next run); one per (stage, class, first line shape)"""
    p = CORPUS / "C32" / "messages.json"
    p.parent.mkdir(parents=True, exist_ok=True)
    cur = json.loads(p.read_text()) if p.exists() else []

    def norm(m):
        return re.sub(r"\d+", "N", m.split("\n")[0])[:80]
    seen = {(d["stage"], d.get("cls"), norm(d["msg"])) for d in cur}
    added = 0
    for d in new:
        k = (d["stage"], d.get("cls"), norm(d["msg"]))
        if k not in seen and d["stage"] in TS.STAGES:
            seen.add(k)
            cur.append(d)
            added += 1
    if added:
        cur.sort(key=lambda d: (d["stage"], d.get("cls") or "", d["msg"]))
        p.write_text(json.dumps(cur, indent=1) + "\n")
    return added


# ------------------------------------------------------------------------------------------------ the check
def run(ctx):
    import engine
    engine.install(need_parser=True)
    # 1. translators -> Gen/Errors.v, Gen/ErrLits.v
    sites, cat = TE.scan()
    TE.emit(sites, cat)
    d = TS.emit()
    ctx.oblige("T-sqlerr: every error( site resolved to a literal template with an origin stage", not d["unresolved"], "; ".join(d["unresolved"][:5]))
    for note in d["notes"]:
        ctx.log("T-sqlerr note:", note)
    ctx.cov["secondary_tie_notes"] = d["notes"]
    crash = [m for m, (q, l) in d["table"] if q[0] == "Crash" or l[0] == "Crash"]
    ctx.oblige("T-sqlerr: the real mappers return (never raise) on every dumped message", not crash, repr(crash[:2]))
    ctx.cov.update({"error_literal_sites": len(d["sites"]), "literal_instances_x_stage": len(d["lits"]), "mapper_table_rows": len(d["table"]),
                    "raw_duckdb_messages": len(d["raw"]), "stage_flags_from_code": d["flags"]})
    for s in d["sites"][:3]:
        ctx.sample({"site": s.get("id"), "stages": s.get("stages"), "parts": s["parts"]})
    for m, _ in d["table"]:
        ctx.count(("row", m))
    # 2. proofs
    proved = ctx.prove("C32")
    # 3. K: generated + corpus + configurations
    tmp_root = Path(tempfile.mkdtemp(prefix="c32_"))
    results: List[dict] = []
    cases = gen_cases(ctx.rng, ctx.tier)
    if ctx.tier == "quick":      # quick: at most two levels (dataset / calc / scalar ...) of every (family, variant); thorough: all
        byv: Dict[Tuple[str, str], List[dict]] = {}
        for c in cases:
            parts = c["shape"].split(":")
            v = ":".join(parts[:-1]) if len(parts) > 1 and parts[-1] in LEVELS else c["shape"]
            byv.setdefault((c["family"], v), []).append(c)
        cases = []
        for k in byv:
            g = byv[k]
            ctx.rng.shuffle(g)
            g.sort(key=lambda c: 0 if c["shape"].split(":")[-1] in ("dataset-measure", "ds", "ds-ds") else 1)   # one dataset-level case always
            cases += g[:2]
    n_corpus = 60 if ctx.tier == "quick" else None
    ccases = corpus_cases(ctx.rng, n_corpus)
    stored = load_stored()
    ctx.log(f"K: {len(cases)} generated cases, {len(ccases)} corpus scripts, {len(stored)} stored cases, {len(config_cases())} configurations")
    hist: Dict[str, Dict[str, int]] = {}
    try:
        allc = stored + cases + ccases      # minimised past failures first
        for c, r in zip(allc, run_cases_parallel(allc)):
            if r["run"][0] == "HarnessError":
                ctx.oblige(f"case ran: {c['family']}:{c['shape']}", False, r.get("msg", ""))
            r["case"] = c
            results.append(r)
            ctx.count((c["family"], c["shape"]))
            h = hist.setdefault(c["family"], {})
            k = r["run"][0] + (":" + str(r["run"][1]) if r["run"][1] else "")
            h[k] = h.get(k, 0) + 1
        from concurrent.futures import ThreadPoolExecutor
        ccs = config_cases()
        with ThreadPoolExecutor(max_workers=4) as tp:
            cres = list(tp.map(run_config_case, ccs))
        for c, r in zip(ccs, cres):
            r["case"] = c
            results.append(r)
            ctx.count(("config", c["shape"]))
            h = hist.setdefault("config", {})
            k = r["run"][0] + (":" + str(r["run"][1]) if r["run"][1] else "")
            h[k] = h.get(k, 0) + 1
    finally:
        shutil.rmtree(tmp_root, ignore_errors=True)
    ctx.cov["input_distribution"] = hist
    ctx.cov["cases_total"] = len(results)
    ctx.cov["raw_outcomes_with_failed_precondition"] = sum(1 for r in results if r["run"][0] in ("RawDuckDB", "RawPython") and not is_violation(r))
    ctx.cov["outcome_kinds"] = {}
    for r in results:
        ctx.cov["outcome_kinds"][r["run"][0]] = ctx.cov["outcome_kinds"].get(r["run"][0], 0) + 1
    ctx.cov["rule"] = ("K: every generated (family, shape) case + sampled corpus scripts run through semantic_analysis, validate_dataset and run(); "
                       "distinct = (family, shape); X: every row of the dumped mapper table")
    # 3b. model vs engine on every failure that has a DuckDB error behind it
    withdb = [r for r in results if r.get("db_msg") and r.get("stage") in TS.STAGES]
    pairs = sorted({(r["stage"], r["db_msg"]) for r in withdb})
    if proved and pairs:
        try:
            vals = dict(zip(pairs, model_outcomes(pairs)))
        except Exception as e:
            vals = {}
            ctx.oblige("K: model evaluation of the observed DuckDB messages ran", False, f"{type(e).__name__}: {e}"[:500])
        dis = 0
        stages_seen: Dict[str, int] = {}
        for r in withdb:
            mv = vals.get((r["stage"], r["db_msg"]))
            if mv is None:
                continue
            stages_seen[r["stage"]] = stages_seen.get(r["stage"], 0) + 1
            if isinstance(mv, tuple) and mv[0] is not None:
                model = (mv[0][1], mv[1][1])
                eng = (KIND.get(r["run"][0], r["run"][0]), r["run"][1])
            else:
                model = ("RawDB",)
                eng = ("RawDB",) if r["run"][0] == "RawDuckDB" else (KIND.get(r["run"][0], r["run"][0]), r["run"][1])
            if model != eng:
                dis += 1
                ctx.oblige(f"K: model = engine for a DuckDB error raised in {r['stage']} ({r['family']}:{r['shape']})", False,
                           f"message {r['db_msg'][:120]!r}: model {model}, engine {eng}")
        ctx.oblige("K: Gallina stage mapper agrees with the engine on every observed DuckDB failure", dis == 0,
                   f"{dis} disagreements over {len(withdb)} failures")
        ctx.cov["k_duckdb_failures_compared"] = len(withdb)
        ctx.cov["k_stages_exercised_by_duckdb_errors"] = stages_seen
        for st in ("SExec", "SFetchRepr", "SLoadCreate", "SLoadInsert"):
            ctx.oblige(f"K: stage {st} exercised by a real DuckDB failure", stages_seen.get(st, 0) > 0, "no generated case failed there")
    added = record_messages([{"stage": r["stage"], "cls": r.get("db_cls"), "msg": r["db_msg"]} for r in withdb])
    ctx.cov["new_raw_messages_recorded"] = added
    # 3b'. cases with a stated expected VTL error (the cast rejections)
    for r in results:
        exp = (r.get("case") or {}).get("expect")
        if exp:
            ctx.oblige(f"K: {r['family']} [{r['shape']}] raises the expected VTL error {exp}", tuple(r["run"]) == tuple(exp),
                       f"observed {r['run']} {r.get('msg', '')[:160]}")
    # 3c. the property predicate itself
    nv = 0
    for r in results:
        if r["run"][0] in ("HarnessError", "Timeout", "ChildCrash"):
            ctx.oblige(f"case evaluated: {r['family']}:{r['shape']}", False, r.get("msg", "")[:200])
            continue
        if not is_violation(r):
            continue
        nv += 1
        c = r["case"]
        rep = {"family": r["family"], "shape": r["shape"], "script": c.get("script"), "structs": c.get("structs"), "env": c.get("env"),
               "data": {k: (v.to_dict(orient="list") if hasattr(v, "to_dict") else str(v)) for k, v in (c.get("data") or {}).items()},
               "kw": {k: str(v) for k, v in (c.get("kw") or {}).items()},
               "expected": "results or a VTLEngineException with a catalogued code", "observed": f"{r.get('exc_class')}: {r.get('msg', '')[:300]}",
               "stage": r.get("stage")}
        if ctx._known_key(key_of(r)) is None:
            store_case(key_of(r), rep)      # a new failure joins the corpus that is run first next time
        ctx.violation(key_of(r), f"{r['family']} [{r['shape']}]: semantic analysis and load validation pass, run() lets a raw "
                                 f"{r.get('exc_class')} escape from stage {r.get('stage')}: {r.get('msg', '')[:160]}", rep)
    ctx.cov["raw_escapes"] = nv
    ctx.log(f"K: {len(results)} cases, {nv} raw escapes after semantic analysis and load validation passed, "
            f"{len(withdb)} DuckDB failures compared with the model; histogram {json.dumps(ctx.cov['outcome_kinds'])}")
    ctx.trusted.append("T-sqlerr translator (harness/translate/sqlerr.py): scanner of error( in the .sql files and in Python string templates, "
                       "macro dependency closure from the engine's own _macro_graph, ast scan of try/except around conn.execute; the real mappers "
                       "are called on duckdb.Error(message) objects (they only read str(error))")
    ctx.trusted.append("stage attribution of an observed failure: innermost engine frame of the traceback (function name + source line)")
    ctx.trusted.append("str.lower() is modelled on ASCII letters only (DuckDB messages and the patterns are ASCII; a non-ASCII character whose "
                       "lower-casing yields ASCII, e.g. U+212A, is outside the model)")
    ctx.assumptions.append("the set of DuckDB-native error messages reachable from generated SQL is enumerated empirically (probes + every message "
                           "observed by the correspondence, corpus/C32/messages.json), not derived")
    ctx.assumptions.append("'passes load validation' is evaluated with vtlengine.validate_dataset on the same structures and datapoints")


def replay(ctx, obj):
    import engine
    engine.install(need_parser=True)
    import pandas as pd
    if obj.get("env"):
        r = run_config_case({"shape": obj["shape"], "env": obj["env"]})
    else:
        data = {}
        for k, v in (obj.get("data") or {}).items():
            data[k] = pd.DataFrame(v) if isinstance(v, dict) else Path(v)
        kw = dict(obj.get("kw") or {})
        for k in ("return_only_persistent",):
            if k in kw:
                kw[k] = kw[k] == "True"
        if "value_domains" in kw:
            kw["value_domains"] = [Path(p) for p in re.findall(r"PosixPath\('([^']+)'\)", kw["value_domains"])]
        c = {"family": obj.get("family"), "shape": obj.get("shape"), "script": obj["script"], "structs": obj["structs"], "data": data, "kw": kw}
        tmp = Path(tempfile.mkdtemp(prefix="c32r_"))
        try:
            r = run_case(c, tmp)
        finally:
            shutil.rmtree(tmp, ignore_errors=True)
    print("expected:", obj.get("expected"))
    print("observed:", r["run"], r.get("exc_class"), (r.get("msg") or "")[:300], "| stage", r.get("stage"), "| semantic", r["sem"], "| load", r.get("load"))
    return 1 if is_violation(r) else 0


if __name__ == "__main__":  # exploration aid
    import random
    import engine
    engine.install(need_parser=True)
    rng = random.Random(1)
    which = sys.argv[1] if len(sys.argv) > 1 else "gen"
    cs = gen_cases(rng, "quick") if which == "gen" else corpus_cases(rng, int(sys.argv[2]) if len(sys.argv) > 2 else 100)
    tmp = Path(tempfile.mkdtemp(prefix="c32x_"))
    import collections
    H = collections.Counter()
    for c in cs:
        r = run_case(c, tmp)
        H[(r["sem"], r["load"], r["run"][0])] += 1
        if is_violation(r) or "-v" in sys.argv:
            print(("VIOL " if is_violation(r) else "     ") + key_of(r), "|", r["sem"], r["load"], r["run"], (r.get("msg") or "")[:150].replace("\n", " "))
    shutil.rmtree(tmp, ignore_errors=True)
    print(H)
