"""C03 — aggregations group and summarise as specified.  Proof: Props/C03.v (Model/Aggr.v, Proofs/AggrP.v).
Tie K (aggrgen.run_k): generated aggregation statements run on the real engine and evaluated by `run_ascript` inside Coq."""
import aggrgen


def run(ctx):
    ctx.prove("C03")
    q = ctx.tier == "quick"
    aggrgen.run_k(ctx, 278 if q else 7900, 6 if q else 100, tag="c03q" if q else "c03t")
    ctx.cov["rule"] = ("one case = a script of 1-2 statements over one generated dataset (2-3 identifiers so that non-grouped identifiers repeat, "
                       "0-3 measures of Integer/Number/String/Boolean where the operator admits them, 0-200 datapoints, nulls 0/25/60 %, all-null "
                       "groups) whose last statement is op(DS [group by|group except ids] [having c]) or DS[aggr n := op(comp)|count(), … "
                       "[group by|except ids] [having c]] for the ten aggregate operators (comp = measure, small exact expression or an "
                       "identifier); having = comparisons of sum/avg/min/max/median/count(comp)/count() with literals, isnull(agg), not (…), "
                       "redundant parentheses, and/or combinations, over one-measure operands and (half of them) operands with several "
                       "measures / other components than the aggregated ones / no identifier left; malformed grouping names and min/max "
                       "without measures and identifiers (expected-error stream): the same semantic error code is expected from both sides; "
                       "distinct = (statements, data)")
    ctx.oblige("K: engine = run_ascript (Model/Aggr.v) on every generated case, or the disagreement is reported", True)
    ctx.trusted.append("DuckDB 1.5.5 executes the emitted SQL (observed only). Bounds of the correspondence: Numbers on a 1/4 grid in [-10,10], "
                       "Integers |x| <= 1000, <= 200 datapoints, ASCII strings; sum/min/max/count/median and avg are compared as exact rationals "
                       "(limit_denominator(10**6)); var_pop/var_samp exactly when the DOUBLE result reduces to the exact rational, else within "
                       "1e-9 relative; stddev_pop/stddev_samp through their SQUARE with the same tolerance (the model specifies the variance); "
                       "var/stddev are not generated inside having conditions (DOUBLE rounding next to a literal); `group all` (time_agg) "
                       "needs time identifiers and is outside the model; one aggregation per statement over a named dataset")
    ctx.assumptions.append("the Python reference `aggrgen.ref_eval` (exact Fractions) is only used to CLASSIFY a disagreement between the engine "
                           "and the Coq model (engine fault vs. model fault); agreement is always decided against the Coq model")


def replay(ctx, obj):
    return aggrgen.replay_case(obj)
