"""C18 - CSV, DataFrame (strings / native dtypes) and Parquet inputs with the same content behave identically.

Theorems: Props/C18.v (loaders_agree refuted with witnesses, loaders_agree_partial on the decidable sub-domain agree18).
Tie K: every generated table is written in the four forms and driven through the real run('DS_r <- DS_1;'); the same tables are
evaluated in the faithful Coq model (Model/Loader.v, four acceptors) and compared outcome by outcome; then the PROPERTY
predicate (all forms rejected with an input error, or all accepted with equal values) is evaluated on the engine outcomes."""
from __future__ import annotations

import loadergen as L

KEYS = ["csv", "df_str", "df_nat", "parquet", "pq_nat"]


def run(ctx):
    n = 60 if ctx.tier == "quick" else 6000       # + directed tables: quick ~365 tables, thorough ~6800
    ctx.cov["rule"] = ("one case = one content table (structure 0-2 identifiers, 1-3 measures/attributes over the 8 scalar types, 0-5 rows, "
                       "at most one labelled focus cell, 0-3 structural violations) supplied as CSV, DataFrame of str, DataFrame with "
                       "native dtypes and Parquet; distinct = (component types/roles, focus family+value, violations, row count)")
    r = L.campaign(ctx, KEYS, n, kcheck_per_pattern=40 if ctx.tier == "quick" else 400)
    found = []
    n_claim = n_exempt = 0
    for case, eng in zip(r["cases"], r["eng"]):
        f = case.get("focus")
        if L.c18_exempt(f) and L.focus_cell(case) is not None:
            n_exempt += 1
            continue
        n_claim += 1
        for rel, forms, detail in L.c18_problems(case, eng):
            found.append((case, rel, forms, detail))
    ctx.cov["property_evaluations"] = {"tables_with_claim": n_claim, "exempt_documented_csv_behaviour": n_exempt,
                                       "exemptions": L.C18_EXEMPT, "tables_violating": len(found)}
    ctx.log(f"C18 predicate: {n_claim} tables, {len(found)} with forms that disagree, {n_exempt} exempt")
    L.report(ctx, found, "input forms disagree:")
    ctx.trusted.append("harness/loadergen.py: generator, the writers of the four forms (csv text, pandas, pyarrow), canonicaliser of results "
                       "(dates as (y,m,d,h,mi,s,us), periods as (year, indicator, number), Numbers via limit_denominator); "
                       "pandas / pyarrow / DuckDB themselves")
    ctx.trusted.append("T-regex translator (harness/translate/regex.py): CPython's re._parser parse tree -> Gen/Regex.v; ASCII subjects")
    ctx.assumptions.append("modelled domain: ASCII cells (UTF-8 passes through String only), numeric literals without '_' separators, "
                           "fractional literals of at most 15 significant digits on the CSV Integer path, DECIMAL(28,10)")
    ctx.assumptions.append("a CSV field cannot distinguish '' from null and docs/data_types.rst documents the stripping of surrounding "
                           "double quotes for CSV: these two families are exempt from the equality claim")


def replay(ctx, obj):
    return L.replay_case(ctx, obj, KEYS, L.c18_problems)
