"""C06 — analytic (window) functions compute over the specified partitions and frames.
Proof: Props/C06.v over Model/Analytic.v.  Tie K (analyticgen): generated invocations (all functions x frame shapes x asc/desc, dataset
level and inside calc) run on the real engine, on TWO input row orders, and evaluated by the same Gallina functions inside Coq."""
from __future__ import annotations

import json

import analyticgen as A
import engine
from common import CORPUS

PID = "C06"


def directed_groups(rng):
    """edge cases run on every tier: every function at both levels, every frame-bound kind pair, empty / single-row / all-null inputs,
    zero-sum ratio_to_report, rank with ties"""
    groups = []
    # every function at both levels, twice, over one numeric dataset
    d = A.gen_dataset(rng, nrows=12, measure_types=["Integer", "Number"])
    perm = list(range(len(d["rows"])))
    rng.shuffle(perm)
    invs = []
    for fun in A.ALL_FUNS:
        for lv in (["calc"] if fun == "rank" else ["ds", "calc"]) * 2:
            inv = None
            for _ in range(10):
                inv = A.gen_invocation(rng, d["shape"], fun, lv)
                if inv is not None:
                    break
            if inv is not None:
                invs.append(inv)
    for i in range(0, len(invs), 12):
        groups.append({"ds": d, "invs": invs[i:i + 12], "perm": perm})
    # every valid (lo kind, hi kind) pair for sum / first_value / count
    d = A.gen_dataset(rng, nrows=14, measure_types=["Integer"])
    kinds = [("up", 0), ("prec", 2), ("prec", 0), ("cur", 0), ("foll", 1), ("foll", 3), ("uf", 0)]
    invs = []
    for a in kinds:
        for b in kinds:
            if a[0] == b[0] and a[0] in ("up", "uf"):
                continue
            lo, hi = A.normalise_bounds(a, b)
            if not A.frame_valid(lo, hi):
                continue
            f = rng.choice(["sum", "first_value", "last_value", "max", "avg"])
            invs.append({"level": "calc", "f": f, "operand": "Me_1", "target": "Me_9", "part": ["Id_1"], "ord": [["Id_2", rng.random() < 0.4]],
                         "win": {"mode": "data", "a": list(a), "b": list(b)}, "ties": False})
    for i in range(0, len(invs), 13):
        groups.append({"ds": d, "invs": invs[i:i + 13], "perm": list(reversed(range(len(d["rows"]))))})
    # empty, single row, all-null measure
    for n in (0, 1):
        groups.append(A.make_group(rng, 6, nrows=n, measure_types=["Integer", "Number"]))
    d0 = A.gen_dataset(rng, nrows=6, measure_types=["Integer"])
    d0["rows"] = [(k, [None for _ in m]) for k, m in d0["rows"]]
    g0 = {"ds": d0, "invs": [], "perm": list(reversed(range(6)))}
    for f in ("sum", "count", "avg", "min", "ratio_to_report", "first_value", "var_samp"):
        inv = A.gen_invocation(rng, d0["shape"], f, "ds" if len(d0["shape"].ms) == 1 or f != "count" else "calc")
        if inv:
            g0["invs"].append(inv)
    groups.append(g0)
    # zero-sum ratio_to_report -> runtime error 2-1-3-1 (one statement per script so the error is attributed)
    dz = A.gen_dataset(rng, nrows=12, measure_types=["Integer"])
    dz["shape"].ms[:] = dz["shape"].ms[:1]
    id2s = []
    for k, _ in dz["rows"]:
        if k[1] not in id2s:
            id2s.append(k[1])
    id1 = dz["rows"][0][0][0]
    vals = [5, -5, 0, None] if len(id2s) >= 4 else [5, -5]
    dz["rows"] = [([id1, b], [v]) for b, v in zip(id2s, vals)]
    groups.append({"ds": dz, "invs": [{"level": "ds", "f": "ratio_to_report", "part": ["Id_1"], "ord": [], "win": None, "ties": False}],
                   "perm": list(reversed(range(len(dz["rows"]))))})
    groups.append({"ds": dz, "invs": [{"level": "calc", "f": "ratio_to_report", "operand": "Me_1", "target": "Me_9", "part": ["Id_1"], "ord": [], "win": None,
                                       "ties": False}], "perm": list(reversed(range(len(dz["rows"]))))})
    # numeric-only functions over String/Boolean operands -> Semantic 1-1-1-1 (small groups: a failing script is re-run per statement)
    for _ in range(3):
        groups.append(A.make_type_error_group(rng, 4))
    return [g for g in groups if g["invs"]]


def run_groups(ctx, pool, groups, tag, stats, shrink_budget, futs=None):
    renames = [A.result_renames(g) for g in groups]
    if futs is None:
        futs = pool.submit([A.group_job(g) for g in groups])  # the engine works in the pool ...
    model = A.eval_groups(groups, renames, tag)               # ... while Coq evaluates the same cases
    ctx.log(f"{tag}: model evaluated ({sum(len(g['invs']) for g in groups)} cases in {len(groups)} groups)")
    eng = pool.gather(futs)
    ctx.log(f"{tag}: engine done")
    for g, ren, er, mo in zip(groups, renames, eng, model):
        if "harness_error" in er:
            ctx.oblige("K: engine worker ran the group", False, er["harness_error"] + "\n" + er.get("tb", ""))
            continue
        n = len(g["ds"]["rows"])
        stats["rows"]["0" if n == 0 else "1-3" if n <= 3 else "4-12" if n <= 12 else "13-30"] += 1
        for i, inv in enumerate(g["invs"]):
            cj = A.case_json(g, i)
            ctx.count(A.case_hash(cj))
            for k, v in (("function", inv["f"]), ("level", inv["level"]), ("frame", A.frame_shape(inv)),
                         ("partition", "+".join(inv["part"]) or "(none)"),
                         ("order", ",".join(("m" if c.startswith("Me") else c) + ("↓" if d else "↑") for c, d in inv["ord"]) or "(none)")):
                stats[k][v] = stats[k].get(v, 0) + 1
            if inv.get("type_error"):
                stats["function"]["(non-numeric operand -> 1-1-1-1)"] = stats["function"].get("(non-numeric operand -> 1-1-1-1)", 0) + 1
            if inv.get("ties"):
                stats["function"]["rank(ties)"] = stats["function"].get("rank(ties)", 0) + 1
            ea, eb = er["a"][i], er["b"][i]
            if not ea["ok"]:
                stats["engine_errors"][str(tuple(ea["err"]))] = stats["engine_errors"].get(str(tuple(ea["err"])), 0) + 1
            if len(ctx.cov["samples"]) < 6 and n >= 3:
                ctx.sample({"vtl": "DS_r <- " + cj["vtl"] + ";", "rows": n, "engine": ea["ds"]["rows"][:3] if ea["ok"] and ea["ds"] else str(ea.get("err"))})
            hyp, parsed = mo[i]
            needs = inv["f"] not in ("rank", "ratio_to_report")
            if needs and not inv.get("ties"):
                stats["total_order_hypothesis"]["holds" if hyp is True else "fails"] += 1
                if hyp is not True:   # the generator promised an order that is total inside every partition
                    ctx.oblige("K: generated case satisfies the theorems' hypothesis total_order", False, f"DS_r <- {cj['vtl']};")
            else:
                stats["total_order_hypothesis"]["not needed (rank, ratio_to_report)"] += 1
            d_model = A.compare_one(ea, parsed)
            d_perm = None if inv.get("ties") and inv["f"] != "rank" else A.perm_diff(ea, eb)
            if d_model is None and d_perm is None:
                continue
            if not ea["ok"] and tuple(ea["err"])[0] == "Syntax":   # the generator wrote something the grammar rejects: a harness defect, never a finding
                ctx.oblige("K: generated statement is accepted by the engine's parser", False, f"DS_r <- {cj['vtl']}; :: {ea['msg'][:200]}")
                continue
            stats["disagreements"] += 1
            kind = "perm" if d_perm else "value"
            key = A.stable_key(inv, kind)
            what = f"DS_r <- {cj['vtl']}; :: " + (d_perm or d_model)
            if ctx._known_key(key) is None and shrink_budget[0] > 0:
                shrink_budget[0] -= 1
                try:
                    cj = shrink(pool, cj, tag)
                    what = f"DS_r <- {cj['vtl']}; :: " + (verdict(pool, cj, tag + "_v") or what)
                except Exception as e:  # noqa
                    ctx.log("shrink failed:", e)
                cdir = CORPUS / PID
                cdir.mkdir(parents=True, exist_ok=True)
                (cdir / (A.case_hash(cj)[:10] + ".json")).write_text(json.dumps(cj, sort_keys=True, default=str))
            ctx.violation(key, what, {"case": cj, "disagreement": d_model, "permutation": d_perm})


def observe_no_order_by(ctx, pool):
    """outside the property's quantifier (no order by => nothing is ordered, every datapoint of a partition is a peer): recorded, not judged.
    The engine applies the default frame `unbounded preceding .. current data point` in PHYSICAL row order."""
    d = A.gen_dataset(ctx.rng, nrows=9, measure_types=["Integer"])
    inv = {"level": "ds", "f": "sum", "part": ["Id_1"], "ord": [], "win": None, "ties": True}
    g = {"ds": d, "invs": [inv], "perm": list(reversed(range(len(d["rows"]))))}
    er = pool.map([A.group_job(g)])[0]
    if "harness_error" in er:
        return
    diff = A.perm_diff(er["a"][0], er["b"][0])
    ctx.cov["observations"] = [{"statement": "DS_r <- " + A.inv_text(inv) + ";", "outside_quantifier": "no order by clause",
                                "result_depends_on_input_row_order": diff is not None, "detail": (diff or "")[:300]}]


def verdict(pool, cj, tag):
    g = A.group_from_case(cj)
    ren = A.result_renames(g)
    er = pool.map([A.group_job(g)])[0]
    if "harness_error" in er:
        return "harness error: " + er["harness_error"]
    mo = A.eval_groups([g], [ren], tag)[0]
    if g["invs"][0].get("ties") and g["invs"][0]["f"] != "rank":
        return A.compare_one(er["a"][0], mo[0][1])
    return A.perm_diff(er["a"][0], er["b"][0]) or A.compare_one(er["a"][0], mo[0][1])


def shrink(pool, cj, tag):
    """drop input datapoints while the disagreement persists"""
    cur = cj
    i = 0
    while i < len(cur["dataset"]["rows"]) and len(cur["dataset"]["rows"]) > 0:
        cand = json.loads(json.dumps(cur))
        del cand["dataset"]["rows"][i]
        cand["perm"] = list(reversed(range(len(cand["dataset"]["rows"]))))
        if verdict(pool, cand, tag + "_shr") is not None:
            cur = cand
        else:
            i += 1
    return cur


def run(ctx):
    quick = ctx.tier == "quick"
    engine.install(need_parser=True)
    pool = A.EnginePool(workers=8 if quick else 12)
    stats = {"function": {}, "level": {}, "frame": {}, "partition": {}, "order": {}, "rows": {"0": 0, "1-3": 0, "4-12": 0, "13-30": 0},
             "engine_errors": {}, "disagreements": 0, "total_order_hypothesis": {"holds": 0, "fails": 0, "not needed (rank, ratio_to_report)": 0}}
    budget = [3]
    try:
        cdir = CORPUS / PID
        corpus = [A.group_from_case(json.loads(p.read_text())) for p in sorted(cdir.glob("*.json"))] if cdir.exists() else []
        directed = directed_groups(ctx.rng)
        n_dir = sum(len(g["invs"]) for g in directed)
        target = 220 if quick else 6000
        groups, n = [], 0
        while n < target:
            g = A.make_type_error_group(ctx.rng, 3) if ctx.rng.random() < 0.08 else A.make_group(ctx.rng, ctx.rng.choice([10, 12, 12, 14]))
            if g["invs"]:
                groups.append(g)
                n += len(g["invs"])
        groups = corpus + directed + groups          # corpus first
        batches = [groups[i:i + 250] for i in range(0, len(groups), 250)]
        first = pool.submit([A.group_job(g) for g in batches[0]])   # the engine starts on the first batch while the proofs are rebuilt
        ctx.log(f"{len(groups)} groups generated; first batch submitted to the engine pool")
        ctx.prove(PID)
        ctx.log("proofs rebuilt")
        for bi, batch in enumerate(batches):
            run_groups(ctx, pool, batch, "c06_k", stats, budget, futs=first if bi == 0 else None)
        observe_no_order_by(ctx, pool)
    finally:
        pool.close()
    ctx.cov["distribution"] = {k: (dict(sorted(v.items(), key=lambda x: -x[1])) if isinstance(v, dict) and k != "rows" else v) for k, v in stats.items()}
    ctx.cov["distribution"].update({"corpus": len(corpus), "directed": n_dir, "generated": n})
    ctx.cov["rule"] = ("one analytic invocation per statement over an input dataset with identifiers Id_1 (partition, Integer/String, 1-3 values) and Id_2 "
                       "(order, Integer/Number/String, 12 values), 0-30 datapoints, 1-3 measures (Integer/Number/String/Boolean, nulls 0-50%); functions sum avg "
                       "count min max median stddev_pop stddev_samp var_pop var_samp first_value last_value lag lead rank ratio_to_report; partition by Id_1 | "
                       "(none) | Id_1,Id_2 | Id_2; order by lists that are total inside each partition (identifier, or measure then identifiers; asc/desc; "
                       "explicit asc), plus rank ordered by a measure only (ties); windows omitted | data points | range (Integer/Number identifier key) with "
                       "bounds unbounded / 0-3 preceding / current / 0-3 following, also written in swapped order; dataset level and inside calc (new or "
                       "overwritten component); dataset-level count over several measures; numeric-only functions over String/Boolean operands (expected Semantic "
                       "1-1-1-1); every case run on two input row orders; distinct = (dataset, invocation)")
    ctx.oblige("K: engine = Model/Analytic.v (d_analytic / d_calc_analytic) on every generated case and engine(input) = engine(permuted input), "
               "or the disagreement is reported", True)
    ctx.trusted.append("DuckDB 1.5.5 executes the emitted SQL (observed only). Bounds of the correspondence: ASCII strings; |Integer| <= 100 and Numbers on a 1/4 grid "
                       "in [-10,10] so that avg/var/stddev recovered through limit_denominator(10^6) are exact; stddev compared through its square; the swap of two "
                       "same-direction window bounds done by the engine's AST constructor is mirrored by the generator (normalise_bounds), not by the model; "
                       "frames DuckDB rejects at parse time (start after end by kind), analytic invocations without order by and lag/lead without offset are "
                       "not generated; declared component types reach the model only as the Integer/Number flags of d_analytic_t / d_calc_analytic_t")


def replay(ctx, obj):
    engine.install(need_parser=True)
    pool = A.EnginePool(workers=1)
    try:
        cj = obj["case"]
        g = A.group_from_case(cj)
        ren = A.result_renames(g)
        er = pool.map([A.group_job(g)])[0]
        mo = A.eval_groups([g], [ren], "c06_replay")[0]
        print("statement: DS_r <-", cj["vtl"], ";")
        print("input    :", json.dumps(cj["dataset"], default=str))
        if "harness_error" in er:
            print("harness error:", er["harness_error"])
            return 1
        ea, eb = er["a"][0], er["b"][0]
        print("engine   :", ea["ds"] if ea["ok"] else (ea["err"], ea["msg"]))
        print("permuted :", eb["ds"]["rows"] if eb["ok"] and eb["ds"] else (eb.get("err"), eb.get("msg")))
        print("model    :", A.exprk.model_result(mo[0][1], None), "| total_order:", mo[0][0])
        d1, d2 = A.compare_one(ea, mo[0][1]), A.perm_diff(ea, eb)
        print("verdict  :", "agree" if (d1 is None and d2 is None) else (d2 or d1))
        return 0 if (d1 is None and d2 is None) else 1
    finally:
        pool.close()
