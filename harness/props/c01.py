"""C01 — element-wise operators compute VTL values over matched datapoints.  Proof: Props/C01.v.  Tie K (exprk.run_k)."""
import exprk


def run(ctx):
    ctx.prove("C01")
    q = ctx.tier == "quick"
    exprk.run_k(ctx, "C01", 180 if q else 12000, 30 if q else 600,
                kinds=["elem", "elem", "elem", "binary", "binary", "binary", "clause", "setop"], tag="c01",
                directed={"nest21": 30 if q else 800, "setctx": 10 if q else 300})
    ctx.cov["rule"] = ("scripts of 1-4 statements, each ONE dataset-level operator (dataset∘dataset, dataset∘scalar, unary, parameterised, set operator "
                       "over 2-3 operands that may be clause/operator results) or a clause chain with component expressions of depth ≤ 3 over 2-3 input "
                       "datasets (1-2 identifiers, 1-3 measures of Integer/Number/String/Boolean, 0-12 rows, nulls 25%, controlled key overlap, structures "
                       "shared between datasets half of the time, columns declared in another order); a nested single-statement stream (depth 2-3, "
                       "incl. set operators); directed single-statement families: nest21 = (DS_a(Id_1,Id_2) ∘ DS_b(Id_1)) as an operand of another "
                       "dataset∘dataset operator on either side with several datapoints per Id_1 value, setctx = a set operator under sub / "
                       "filter+calc / a dataset∘dataset or element-wise operator / another set operator; distinct = (script, data)")
    ctx.oblige("K: engine = run_script (Model/Expr.v) on every generated case, or the disagreement is reported", True)
    ctx.trusted.append("DuckDB 1.5.5 executes the emitted SQL (observed only). Bounds of the correspondence: ASCII strings; |integers| ≤ 1000 in data so "
                       "that BIGINT overflow is out of range; Numbers on a 1/4 grid (exact in DOUBLE); mod, ln/exp/log/sqrt, power with non-integer "
                       "exponent, instr/replace are not generated (mod sign convention and transcendental digits are not modelled)")


def replay(ctx, obj):
    return exprk.replay_case(obj)
