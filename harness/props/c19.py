"""C19 - run() rejects every input that violates its declared structure, accepts every other input and returns each value as the
value it denotes.

Theorems: Props/C19.v (structure_violations_rejected for ALL tables by induction; value_accept_iff_valid_repr refuted per type with
witnesses, partial theorems on decidable sub-domains; the regex matcher is proved correct and its regex ASTs are regenerated from the
engine's pattern strings each run).
Tie: T-regex (D + K against Python re and DuckDB regexp_matches) + K through the real run() in the four input forms, compared with the
faithful model; then the property predicate is evaluated on the engine outcomes against the DOCUMENTED formats (Coq `denote`)."""
from __future__ import annotations

import loadergen as L

KEYS = ["csv", "df_str", "df_nat", "parquet", "pq_nat"]


def _problems(den):
    def f(case, eng):
        if den is None:
            return []
        return L.c19_problems(case, eng, L.spec_expectation(case, den))
    return f


def run(ctx):
    n = 60 if ctx.tier == "quick" else 6000       # + directed tables: quick ~365 tables, thorough ~6800
    ctx.cov["rule"] = ("one case = one content table (0-2 identifiers, 1-3 measures/attributes over the 8 types, nullable mixes, 0-5 rows, "
                       "at most one focus cell from a labelled family: every documented format, boundary and invalid values, 0-3 injected "
                       "structural violations) through run() in four forms; expectation from the Coq spec `denote` (docs/data_types.rst); "
                       "distinct = (component types/roles, focus family+value, violations, row count)")
    r = L.campaign(ctx, KEYS, n)
    if not r["den"]:
        return
    found = []
    stats = {"claim_accept": 0, "claim_reject": 0, "no_claim_documentation_silent": 0}
    for case, eng in zip(r["cases"], r["eng"]):
        exp = L.spec_expectation(case, r["den"])
        if not exp["claim"]:
            stats["no_claim_documentation_silent"] += 1
            continue
        stats["claim_accept" if exp["accept"] else "claim_reject"] += 1
        for rel, forms, detail in L.c19_problems(case, eng, exp):
            found.append((case, rel, forms, detail))
    stats["tables_violating"] = len(found)
    ctx.cov["property_evaluations"] = stats
    ctx.log(f"C19 predicate: {stats}")
    L.report(ctx, found, "run() vs documented formats:")
    ctx.trusted.append("harness/loadergen.py: generator, the writers of the four forms, canonicaliser; the reading of docs/data_types.rst "
                       "that Model/Loader.v `denote` encodes (families whose status the documentation does not decide are labelled "
                       "'silent' and never produce a claim)")
    ctx.trusted.append("T-regex translator (harness/translate/regex.py): CPython's re._parser parse tree -> Gen/Regex.v; ASCII subjects")
    ctx.assumptions.append("modelled domain: ASCII cells, numeric literals without '_' separators, <= 15 significant digits for fractional "
                           "literals on the CSV Integer path, DECIMAL(28,10), Time_Period years 1000-9999 for claims")


def replay(ctx, obj):
    case = obj["case"]
    pairs = sorted({(L.comp_of(case, case["cols"][j])[1], v) for row in case["rows"] for j, v in enumerate(row)
                    if v is not None and L.comp_of(case, case["cols"][j]) is not None})
    den = L.run_denote(pairs, "denote_c19_replay")
    return L.replay_case(ctx, obj, KEYS, _problems(den))
