"""C09 — cast converts values according to the documented conversion table.

Proof : Props/C09.v over Model/Cast.v (value rules), Gen/Types.v + Gen/Cast.v (regenerated: the code's explicit/implicit tables,
        the doc tables, the real Cast.check_without_mask / Cast.dataset_validation on all 9x9 pairs).
Tie   : T-types (D+X, inside Coq) and K through the real engine: EXHAUSTIVE over the 8x8 documented (src, dst) pairs x a per-type
        value pool x the levels scalar / component / dataset (+ scalarvar: an input scalar given through scalar_values), outcome
        classes (semantic error / VTL error / value / raw error) compared with the doc table + rules, values compared with
        cast_val (evaluated inside Coq) for the modelled pairs and with the documented time rules otherwise; the levels must
        agree with each other; every escaping raw DuckDB/Python error is recorded.
The expectation of every (src, dst, value) is one of
   sem       the documented table forbids the pair                         -> SemanticError 1-1-5-4, before any data
   val v     the documented rule / the model gives v
   reject    the value cannot be converted                                 -> a coded VTL error (RunTimeError wanted)
   oneof     the documentation admits more than one reading (all listed)
   unspec    the documentation does not decide (lenient syntax, formats): only level agreement and "no raw error" are checked
"""
from __future__ import annotations

import datetime as _dt
import json
import re
import time
from collections import Counter, defaultdict
from fractions import Fraction
from typing import Any, Dict, List, Optional, Tuple

import castgen as G
import coqval as V
from common import CORPUS, coq_eval
from translate import cast as TC
from translate import types as T

HEADER = ("From Coq Require Import ZArith QArith String List.\nImport ListNotations.\n"
          "From VTL Require Import Base.Val Model.Types Model.Cast.\nOpen Scope string_scope.\n")
VTL_KINDS = ("Runtime", "InputValidation", "DataLoad", "OtherVTL", "Semantic")
MODELLED = {(s, d) for s in G.BASIC for d in G.BASIC} | {("Date", "String"), ("String", "Date"), ("Date", "Date"), ("Time", "String"),
                                                        ("Time", "Time"), ("Duration", "String"), ("String", "Duration"), ("Duration", "Duration"),
                                                        ("Time", "Time_Period")}      # calendar-exact in Coq (interval_period)
# String values whose acceptance the documentation does not decide (lenient numeric syntax; formats of the input side)
# (String -> Integer and String -> Duration are no longer here: since the repairs "cast("3.5", integer) returned 3" and "cast of a String
#  component to duration accepted any text" the engine's accepted syntax IS parse_int / parse_duration of Model/Cast.v, compared strictly)
UNSPEC = {
    ("String", "Number"): {"+5", "007", " 3 ", "5.", ".5", "1e3", "1_000", "nan", "inf"},
    ("String", "Date"): {"2020-01-15 10:30:00", "2020-01-15T10:30:00"},
    ("String", "Time"): {"2020", "2020-02", "2020-12-31/2020-01-01"},
    ("String", "Time_Period"): {"2020-01-15 10:30:00", "2020-01-15T10:30:00", "2021W53"},
}


# ================================================================================================ documented time rules (Python)
def _date(s: str) -> Optional[_dt.date]:
    if not re.fullmatch(r"\d{4}-\d{2}-\d{2}", s or ""):
        return None
    try:
        return _dt.date(int(s[:4]), int(s[5:7]), int(s[8:10]))
    except ValueError:
        return None


def _weeks_in_year(y: int) -> int:
    return _dt.date(y, 12, 28).isocalendar()[1]


def period_parse(s: str) -> Optional[Tuple[int, str, int]]:
    """the accepted input formats of docs/data_types.rst (Time_Period) -> (year, indicator, number), None when not one of them
    or out of range"""
    m = re.fullmatch(r"(\d{4})(A|-A1)?", s)
    if m:
        return (int(m.group(1)), "A", 1)
    for ind, rx in (("S", r"(\d{4})-?S(\d)"), ("Q", r"(\d{4})-?Q(\d)"), ("M", r"(\d{4})-?M(\d{1,2})"), ("M", r"(\d{4})-(\d{1,2})"),
                    ("W", r"(\d{4})-?W(\d{1,2})"), ("D", r"(\d{4})-?D(\d{1,3})")):
        m = re.fullmatch(rx, s)
        if m:
            y, n = int(m.group(1)), int(m.group(2))
            lim = {"S": 2, "Q": 4, "M": 12, "W": _weeks_in_year(y), "D": 366 if _dt.date(y, 12, 31).timetuple().tm_yday == 366 else 365}[ind]
            return (y, ind, n) if 1 <= n <= lim else None
    d = _date(s)
    if d:
        return (d.year, "D", d.timetuple().tm_yday)
    return None


def period_vtl(p: Tuple[int, str, int]) -> str:
    y, ind, n = p
    return f"{y}" if ind == "A" else f"{y}{ind}{n}"


def period_dates(p: Tuple[int, str, int]) -> Tuple[_dt.date, _dt.date]:
    y, ind, n = p
    if ind == "A":
        return _dt.date(y, 1, 1), _dt.date(y, 12, 31)
    if ind in ("S", "Q", "M"):
        k = {"S": 6, "Q": 3, "M": 1}[ind]
        m1 = (n - 1) * k + 1
        m2 = m1 + k - 1
        end = _dt.date(y + (m2 == 12), (m2 % 12) + 1, 1) - _dt.timedelta(days=1)
        return _dt.date(y, m1, 1), end
    if ind == "W":
        a = _dt.date.fromisocalendar(y, n, 1)
        return a, a + _dt.timedelta(days=6)
    a = _dt.date(y, 1, 1) + _dt.timedelta(days=n - 1)
    return a, a


def interval_period(s: str) -> Optional[str]:
    """Time -> Time_Period in the code's reading (interval_to_period_str / vtl_interval_to_period): the period whose dates are
    exactly the interval's, None when there is none"""
    m = re.fullmatch(r"(\d{4}-\d{2}-\d{2})/(\d{4}-\d{2}-\d{2})", s)
    if not m:
        return None
    a, b = _date(m.group(1)), _date(m.group(2))
    if not a or not b:
        return None
    if a == b:
        return period_vtl((a.year, "D", a.timetuple().tm_yday))
    cands = [(a.year, "A", 1)] + [(a.year, "S", i) for i in (1, 2)] + [(a.year, "Q", i) for i in range(1, 5)] + \
            [(a.year, "M", i) for i in range(1, 13)]
    iy, iw, idow = a.isocalendar()
    if idow == 1:
        cands.append((iy, "W", iw))
    for p in cands:
        if period_dates(p) == (a, b):
            return period_vtl(p)
    return None


def time_rule(src: str, dst: str, v: str) -> dict:
    """documented rule for the pairs outside the Coq model (and the code's own reading for the four pairs the doc table forbids)"""
    def val(x, basis):
        return {"kind": "val", "val": x, "basis": basis}
    rej = {"kind": "reject", "basis": "value cannot be converted"}
    unspec = {"kind": "unspec", "basis": "not decided by the documentation"}
    if src == dst or (src, dst) in (("Time", "String"), ("Duration", "String")):
        if src == "Time_Period":
            p = period_parse(v)
            return val(period_vtl(p), "identity, default vtl output format") if p else unspec
        if src == "Date":
            return val(canon_date(v), "identity")
        return val(v, "identity")
    if src == "Date":
        d = _date(v)
        if d is None:
            return unspec                         # Date value with a time part
        if dst == "Time_Period":
            return val(f"{d.year}D{d.timetuple().tm_yday}", 'doc: "Date to Time_Period: converts to daily period (2020-01-15 becomes 2020D15)"')
        if dst == "Time":
            return val(f"{v}/{v}", 'doc: "Date to Time: 2020-01-15 becomes 2020-01-15/2020-01-15"')
        if dst == "String":
            return val(v, "textual")
    if src == "Time_Period":
        p = period_parse(v)
        if p is None:
            return unspec
        if dst == "String":
            return val(period_vtl(p), "Time_Period output format vtl (default)")
        if dst == "Time":
            a, b = period_dates(p)
            return val(f"{a.isoformat()}/{b.isoformat()}", 'doc: "Time_Period to Time: 2020-Q1 becomes 2020-01-01/2020-03-31"')
        if dst == "Date":                          # code reading (doc table forbids)
            return val(period_dates(p)[0].isoformat(), "code: daily periods only") if p[1] == "D" else rej
    if src == "Time":
        if dst == "Date":                          # code reading
            a, _, b = v.partition("/")
            return val(a, "code: same-date intervals only") if a == b else rej
        if dst == "Time_Period":                   # code reading
            p = interval_period(v)
            return val(p, "code: the period matching the interval") if p else rej
    if src == "String":
        if dst == "Boolean":                       # code reading
            return val(v.strip().lower() == "true", "code: trim, lower-case, compare with 'true'")
        if dst == "Time":
            m = re.fullmatch(r"(\d{4}-\d{2}-\d{2})/(\d{4}-\d{2}-\d{2})", v)
            if m and _date(m.group(1)) and _date(m.group(2)) and _date(m.group(1)) <= _date(m.group(2)):
                return val(v, "ISO 8601 interval")
            return rej
        if dst == "Time_Period":
            if "/" in v:
                p = interval_period(v)
                return {"kind": "oneof", "alts": [rej] + ([val(p, "code: interval_to_period_str")] if p else []),
                        "basis": "an interval is not a documented Time_Period input format (reject) / the code's reference converts the matching period"}
            p = period_parse(v)
            return val(period_vtl(p), "documented accepted input formats, vtl output format") if p else rej
        if dst == "Duration":
            iso = {"P1Y": "A", "P6M": "S", "P3M": "Q", "P1M": "M", "P1W": "W", "P7D": "W", "P1D": "D"}
            if v in ("A", "S", "Q", "M", "W", "D"):
                return val(v, "documented single-letter indicator")
            if v in iso:
                return {"kind": "oneof", "alts": [val(iso[v], "ISO-8601 code of the indicator (Duration.explicit_cast)"), rej],
                        "basis": "the documentation lists only the single-letter codes; the code's reference also maps ISO-8601 codes"}
            return rej
    return unspec


def canon_date(v: Any) -> Any:
    """Date values: 'YYYY-MM-DD' when the time part is zero, else 'YYYY-MM-DDTHH:MM:SS' (documented output format)"""
    if not isinstance(v, str):
        return v
    m = re.fullmatch(r"(\d{4}-\d{2}-\d{2})[T ](\d{2}:\d{2}:\d{2})(\.0+)?", v)
    if m:
        return m.group(1) if m.group(2) == "00:00:00" else f"{m.group(1)}T{m.group(2)}"
    return v


# ================================================================================================ expectations
class Oracle:
    def __init__(self, d: dict, c: dict):
        self.doc_expl = d["doc"]["explicit"]
        self.doc_impl = d["doc"]["implicit"]
        self.code_expl, self.code_impl = d["expl"], d["impl"]
        self.doc_rename = c["doc_rename"]
        self.model: Dict[Tuple[str, str, str], Any] = {}

    def doc_allows(self, s: str, t: str) -> bool:
        if s == "Null":
            return True
        return G.CLS[t] in self.doc_expl[G.CLS[s]] or G.CLS[t] in self.doc_impl[G.CLS[s]]

    def code_allows(self, s: str, t: str) -> bool:
        if s == "Null":
            return True
        return G.CLS[t] in self.code_expl[G.CLS[s]] or G.CLS[t] in self.code_impl[G.CLS[s]]

    def rename(self, s: str, t: str) -> str:
        return "Me_1" if G.CLS[t] in self.doc_impl[G.CLS[s]] else self.doc_rename[G.CLS[t]]

    # ---- the Coq model, evaluated once for every (modelled pair, value)
    def eval_model(self, triples: List[Tuple[str, str, str]]):
        todo = [t for t in dict.fromkeys(triples) if (t[0], t[1]) in MODELLED and t not in self.model]
        exprs = []
        for s, d, k in todo:
            v = G.POOLD[s][k][0]
            typ = s if s in ("Integer", "Number", "Boolean") else "String"
            pv = None if v is None else (Fraction(v) if s == "Number" else v)
            exprs.append(f"cast_val {G.COQ[s]} {G.COQ[d]} {V.to_val(pv, typ)}")
        res = coq_eval(HEADER, exprs, "c09_model") if exprs else []
        for t, r in zip(todo, res):
            if r[0] == "Ok":
                self.model[t] = ("val", V.from_val(r[1]))
            else:
                self.model[t] = ("err", r[1][1] if isinstance(r[1], tuple) else str(r[1]))
        return len(exprs)

    def expect(self, s: str, d: str, k: str) -> dict:
        v = G.POOLD[s][k][0]
        if not self.doc_allows(s, d):
            e = {"kind": "sem", "basis": "documented table: conversion not supported"}
            if self.code_allows(s, d):
                m = self.model.get((s, d, k)) if (s, d) in MODELLED and (s, d) != ("String", "Boolean") else None
                if v is None:
                    e["code_reading"] = {"kind": "val", "val": None, "basis": "null"}
                elif m is not None and m[0] == "val":
                    e["code_reading"] = {"kind": "val", "val": m[1], "basis": "Model/Cast.v cast_val (code's reading, calendar-exact)"}
                elif m is not None and m[1] == "2-1-5-1":
                    e["code_reading"] = {"kind": "reject", "basis": "Model/Cast.v cast_val: runtime error"}
                else:
                    e["code_reading"] = time_rule(s, d, v)
            return e
        if v is None:
            return {"kind": "val", "val": None, "basis": "null converts to null"}
        if k in UNSPEC.get((s, d), ()):
            return {"kind": "unspec", "basis": "syntax/format not decided by the documentation"}
        if (s, d) in MODELLED:
            m = self.model.get((s, d, k))
            if m is None:
                return {"kind": "unspec", "basis": "model not evaluated"}
            if m[0] == "val":
                if (s, d) == ("Integer", "Number") and G.klass(s, k) == "big>2^53":
                    return {"kind": "unspec", "nolevels": True, "basis": "not representable as a double (output rounding belongs to C30)"}
                return {"kind": "val", "val": m[1], "basis": "Model/Cast.v cast_val"}
            if m[1] == "2-1-5-1":
                return {"kind": "reject", "basis": "Model/Cast.v cast_val: runtime error"}
            return time_rule(s, d, v)          # value outside the model (e.g. a Date with a time part)
        return time_rule(s, d, v)


def same_value(dst: str, a: Any, b: Any) -> bool:
    if a is None or b is None:
        return a is None and b is None
    if dst == "Number":
        try:
            return Fraction(a) == Fraction(b)
        except Exception:
            return False
    if dst == "Date":
        return canon_date(a) == canon_date(b)
    if isinstance(a, bool) or isinstance(b, bool):
        return isinstance(a, bool) and isinstance(b, bool) and a == b
    return a == b


def observe(o: dict) -> Tuple:
    """engine outcome -> ('val', v) | ('sem',) | ('vtlerr', kind, code) | ('raw', kind, name)"""
    if o["ok"]:
        return ("val", o["val"])
    kind, code = o["err"]
    if kind == "Semantic" and code == "1-1-5-4":
        return ("sem",)
    if kind in VTL_KINDS:
        return ("vtlerr", kind, code)
    return ("raw", kind, code)


def matches(e: dict, obs: Tuple, s: str, d: str) -> Optional[str]:
    """None when the observation satisfies the expectation, else the family of the deviation"""
    k = e["kind"]
    if obs[0] == "raw":
        return "raw"
    if k == "unspec":
        return None
    if k == "sem":
        return None if obs[0] == "sem" else "notsem"
    if k == "val":
        if obs[0] == "val":
            dd = d
            if (s, d) == ("Date", "String"):
                dd = "Date"                       # Date -> String: the documentation does not fix the text of a zero time part
            return None if same_value(dd, e["val"], obs[1]) else "value"
        return "reject"
    if k == "reject":
        return None if obs[0] in ("vtlerr", "sem") else "accept"
    if k == "oneof":
        fams = [matches(a, obs, s, d) for a in e["alts"]]
        if any(f is None for f in fams):
            return None
        return "value" if obs[0] == "val" else "reject"
    return None


# ================================================================================================ planning + running
def plan(oracle: Oracle, tier: str, levels: List[str]) -> List[dict]:
    cases = []
    for s in G.TYPES:
        for d in G.TYPES:
            keys = G.pool_for(s, d, tier)
            for lvl in levels:
                both_forbid = not oracle.doc_allows(s, d) and not oracle.code_allows(s, d)
                if tier != "thorough":
                    # quick: input scalars only where their path can differ (time-typed sources, String -> Boolean); a pair forbidden by
                    # both tables runs with data at the scalar and dataset levels (semantic_analysis alone covers all three levels)
                    if lvl == "scalarvar" and not (s in ("Time", "Date", "Time_Period", "Duration") and not both_forbid) \
                            and (s, d) != ("String", "Boolean"):
                        continue
                    if both_forbid and lvl == "component":
                        continue
                if not oracle.doc_allows(s, d) and not oracle.code_allows(s, d):
                    if tier == "thorough" and lvl in ("scalar", "scalarvar"):
                        for k in keys:       # one statement per script: every value meets the semantic error itself
                            cases.append({"src": s, "dst": d, "level": lvl, "vals": [k], "expect_sem": True})
                    else:
                        cases.append({"src": s, "dst": d, "level": lvl, "vals": keys, "expect_sem": True})
                    continue
                okb, alone, seen_cls = [], [], set()
                for k in keys:
                    e = oracle.expect(s, d, k)
                    e = e.get("code_reading", e) if e["kind"] == "sem" else e
                    if e["kind"] != "reject":
                        okb.append(k)
                    elif tier == "thorough" or G.klass(s, k) not in seen_cls:
                        seen_cls.add(G.klass(s, k))      # quick: one value of every class among those expected to be rejected
                        alone.append(k)
                for i in range(0, len(okb), 24):
                    cases.append({"src": s, "dst": d, "level": lvl, "vals": okb[i:i + 24]})
                for k in alone:
                    cases.append({"src": s, "dst": d, "level": lvl, "vals": [k]})
    for d in G.TYPES:                     # the literal null (type Null) converts to every type
        cases.append({"src": "Null", "dst": d, "level": "scalar", "vals": ["null"]})
    # engine-level round trips Date -> Time_Period -> Date (daily periods) and Integer -> String -> Integer, one script each
    dates = [k for k, _, c_ in G.POOL["Date"] if c_ not in ("null", "datetime")]
    cases.append({"src": "Date", "dst": "Date", "level": "scalar", "vals": dates, "mode": "script", "roundtrip": "Date->Time_Period->Date",
                  "script": "\n".join(f'r_{i} <- cast(cast(cast("{k}", date), time_period), date);' for i, k in enumerate(dates))})
    ints = [k for k, _, c_ in G.POOL["Integer"] if c_ != "null"]
    cases.append({"src": "Integer", "dst": "Integer", "level": "scalar", "vals": ints, "mode": "script", "roundtrip": "Integer->String->Integer",
                  "script": "\n".join(f"r_{i} <- cast(cast({k}, string), integer);" for i, k in enumerate(ints))})
    for s in G.TYPES:                     # structure predicted by semantic_analysis (no data at all)
        for d in G.TYPES:
            for lvl in G.LEVELS:
                cases.append({"src": s, "dst": d, "level": lvl, "vals": [G.pool_keys(s)[0]], "mode": "semantic"})
    return cases


def corpus_cases() -> List[dict]:
    """minimal failing cases of past findings (regression witnesses: `observed` is what the engine answered when the finding was made)"""
    out = []
    p = CORPUS / "C09"
    if p.exists():
        for f in sorted(p.glob("*.json")):
            try:
                o = json.loads(f.read_text())
                if o["src"] in G.POOL and o["dst"] in G.TYPES and o["value"] in G.POOLD[o["src"]]:
                    out.append({"src": o["src"], "dst": o["dst"], "level": o["level"], "vals": [o["value"]], "corpus": f.name,
                                "key": o.get("key"), "before": o.get("observed")})
            except Exception:
                pass
    return out


class Findings:
    def __init__(self):
        self.by_key: Dict[str, dict] = {}

    def add(self, key: str, what: str, example: dict):
        f = self.by_key.setdefault(key, {"what": what, "examples": []})
        if len(f["examples"]) < 6:
            f["examples"].append(example)


def script_of(s: str, d: str, lvl: str, k: str) -> str:
    return G.build({"src": s, "dst": d, "level": lvl, "vals": [k]})["script"]


def judge(ctx, oracle: Oracle, obs_all: Dict[Tuple[str, str, str], Dict[str, dict]], levels: List[str], F: Findings, matrix: dict):
    for (s, d, k), bylvl in sorted(obs_all.items()):
        e = oracle.expect(s, d, k)
        cls = G.klass(s, k)
        cell = matrix.setdefault(f"{s}->{d}", {})
        table_mismatch = e["kind"] == "sem" and oracle.code_allows(s, d)
        ee = e["code_reading"] if table_mismatch else e
        fams: Dict[str, Optional[str]] = {}
        exs: Dict[str, dict] = {}
        seen: Dict[str, Tuple] = {}
        for lvl in levels:
            if lvl not in bylvl:
                continue
            if lvl == "scalarvar" and s == "Date" and cls == "datetime":
                continue      # an input scalar of type Date loses its time part already in `r <- sc_0;` (not a cast matter)
            o = bylvl[lvl]
            obs = observe(o)
            seen[lvl] = obs
            c = cell.setdefault(lvl, Counter())
            c["n"] += 1
            c["obs:" + ("value" if obs[0] == "val" else "semantic" if obs[0] == "sem" else "vtl-error" if obs[0] == "vtlerr" else "raw-error")] += 1
            if obs[0] == "vtlerr":
                c[f"errkind:{obs[1]}:{obs[2]}"] += 1
            ctx.count((s, d, lvl, k))
            fam = matches(ee, obs, s, d)
            fams[lvl] = fam
            exs[lvl] = {"src": s, "dst": d, "level": lvl, "value": k, "class": cls, "script": script_of(s, d, lvl, k),
                        "input": G.POOLD[s][k][0], "expected": ee, "observed": list(obs), "msg": o.get("msg", "")[:200]}
            if fam is None:
                c["verdict:" + ("unspecified" if ee["kind"] == "unspec" else "code-reading" if table_mismatch else "agree")] += 1
                if ee["kind"] == "reject" and obs[0] == "vtlerr" and obs[1] != "Runtime":
                    c["note:rejected-with-non-Runtime-kind"] += 1
            else:
                c["verdict:deviates"] += 1
        flagged = False
        only_var = fams.get("scalarvar") not in (None, "raw") and all(f is None for l_, f in fams.items() if l_ != "scalarvar")
        for lvl, fam in fams.items():
            if fam is None:
                continue
            flagged = True
            ex, obs = exs[lvl], seen[lvl]
            if fam == "raw":
                F.add(f"raw:{s}->{d}:{obs[2]}", f"cast {s} -> {d}: a raw {obs[1]} error ({obs[2]}) escapes instead of a VTL error "
                      f"(also violates C32)", ex)
            elif only_var:
                F.add(f"scalarvar:{s}->{d}", f"cast {s} -> {d} of an INPUT SCALAR (run(scalar_values=...)): the declared type of the scalar is ignored "
                      f"and the result differs from the documented conversion, although literal / component / dataset level conform", ex)
            elif fam == "notsem":
                F.add(f"notsem:{s}->{d}", f"cast {s} -> {d}: neither the documented table nor the code's table allows it, but the engine "
                      f"does not answer SemanticError 1-1-5-4", ex)
            elif fam == "accept":
                F.add(f"accept:{s}->{d}", f"cast {s} -> {d}: a value that cannot be converted is accepted (no error): the result is not a "
                      f"value of the target type", ex)
            else:
                F.add(f"value:{s}->{d}", f"cast {s} -> {d}: the documented conversion is not performed (wrong value, or a convertible value "
                      f"rejected)", ex)
        # the levels must agree with each other
        if len(seen) > 1 and not flagged and not ee.get("nolevels"):
            def norm(x):
                if x[0] != "val":
                    return (x[0],)
                return ("val", canon_date(x[1]) if d == "Date" or (s, d) == ("Date", "String") else x[1])
            main = {lv: norm(x) for lv, x in seen.items() if lv != "scalarvar"}
            vals_main = {json.dumps(v_, default=str) for v_ in main.values()}
            ex = {"src": s, "dst": d, "level": next(iter(seen)), "value": k, "class": cls, "script": script_of(s, d, next(iter(seen)), k),
                  "input": G.POOLD[s][k][0], "by_level": {lv: list(x) for lv, x in seen.items()}, "expected": ee}
            if len(vals_main) > 1:
                cell.setdefault("_levels_disagree", Counter())[cls] += 1
                F.add(f"levels:{s}->{d}", f"cast {s} -> {d}: the same value gives different outcomes at the scalar / component / dataset levels", ex)
            elif "scalarvar" in seen and vals_main and json.dumps(norm(seen["scalarvar"]), default=str) not in vals_main:
                cell.setdefault("_scalarvar_disagrees", Counter())[cls] += 1
                ex["level"] = "scalarvar"
                ex["script"] = script_of(s, d, "scalarvar", k)
                F.add(f"scalarvar:{s}->{d}", f"cast {s} -> {d} of an INPUT SCALAR (run(scalar_values=...)): the declared type of the scalar is ignored "
                      f"and the result differs from the literal / component / dataset levels", ex)
        # renaming rule + result type at dataset level
        o = bylvl.get("dataset")
        if o and o["ok"]:
            want = oracle.rename(s, d)
            if o.get("measure") != want:
                F.add(f"rename:{s}->{d}", f"cast {s} -> {d} on a mono-measure dataset: measure is {o.get('measure')!r}, documented rule gives {want!r}",
                      {"src": s, "dst": d, "level": "dataset", "value": k, "script": script_of(s, d, "dataset", k), "input": G.POOLD[s][k][0]})
        for lvl in levels:
            o = bylvl.get(lvl)
            if o and o["ok"] and o.get("type") not in (None, G.CLS[d]):
                F.add(f"type:{s}->{d}", f"cast {s} -> {d}: the result is typed {o.get('type')}", {"src": s, "dst": d, "level": lvl, "value": k,
                                                                                               "script": script_of(s, d, lvl, k)})


def run(ctx):
    t0 = time.time()
    d = T.emit()
    c = TC.emit()
    oracle = Oracle(d, c)
    ok = ctx.prove("C09")
    F = Findings()

    # ---- the table predicates evaluated in Python on the dumped tables (concrete witnesses for the Coq statements)
    chk = dict(c["check"])
    ren = dict(c["rename"])
    rev = {v: k for k, v in G.CLS.items()}
    for s in G.TYPES:
        for t in G.TYPES:
            ctx.count(("table", s, t))
            ca, da = oracle.code_allows(s, t), oracle.doc_allows(s, t)
            if chk[(G.CLS[s], G.CLS[t])] != ca:
                F.add(f"check-vs-tables:{s}->{t}", f"Cast.check_without_mask({s},{t}) = {chk[(G.CLS[s], G.CLS[t])]} but explicit/implicit tables give {ca}",
                      {"src": s, "dst": t})
            if ca != da:
                F.add(f"table:{s}->{t}", f"cast {s} -> {t}: the documented table 'Supported conversions without mask' says "
                      f"{'supported' if da else 'not supported'}, EXPLICIT_WITHOUT_MASK_TYPE_PROMOTION_MAPPING/IMPLICIT says {'allowed' if ca else 'forbidden'}",
                      {"src": s, "dst": t, "level": "scalar", "value": G.pool_keys(s)[0], "script": script_of(s, t, "scalar", G.pool_keys(s)[0]),
                       "doc_allows": da, "code_allows": ca})
            if ca:
                want = "Me_1" if G.CLS[t] in d["impl"][G.CLS[s]] else d["comp_name"][G.CLS[t]]
                if ren[(G.CLS[s], G.CLS[t])] != want:
                    F.add(f"rename-validation:{s}->{t}", f"Cast.dataset_validation names the measure {ren[(G.CLS[s], G.CLS[t])]!r}, rule gives {want!r}",
                          {"src": s, "dst": t})
    for t in G.TYPES:
        if c["doc_rename"].get(G.CLS[t]) != d["comp_name"][G.CLS[t]]:
            F.add(f"rename-doc:{t}", f"documented generic measure name for {t} is {c['doc_rename'].get(G.CLS[t])!r}, COMP_NAME_MAPPING has "
                  f"{d['comp_name'][G.CLS[t]]!r}", {"dst": t})

    # ---- K: the engine
    levels = list(G.ALL_LEVELS)
    all_triples = [(s, t, k) for s in G.TYPES for t in G.TYPES for k in G.pool_for(s, t, ctx.tier)]
    corpus = corpus_cases()
    n_model = oracle.eval_model(all_triples + [(x["src"], x["dst"], x["vals"][0]) for x in corpus])
    ctx.log(f"model: cast_val evaluated inside Coq on {n_model} (pair, value) cases of the {len(MODELLED)} modelled pairs")
    cases = corpus + plan(oracle, ctx.tier, levels)
    ctx.cov["corpus_cases_run_first"] = len(corpus)
    ctx.log(f"K: {len(cases)} engine cases planned ({sum(1 for x in cases if x.get('mode') == 'semantic')} semantic-only) "
            f"after {time.time() - t0:.0f}s")
    results = G.run_parallel(cases, workers=16)
    obs_all: Dict[Tuple[str, str, str], Dict[str, dict]] = defaultdict(dict)
    sem_struct: Dict[Tuple[str, str, str], dict] = {}
    roundtrips: Dict[str, dict] = {}
    n_runs = 0
    for case, r in zip(cases, results):
        if "harness_error" in r:
            ctx.oblige(f"engine case {case['src']}->{case['dst']}@{case['level']} ran", False, r["harness_error"])
            continue
        if "semantic" in r:
            sem_struct[(case["src"], case["dst"], case["level"])] = r["semantic"]
            continue
        if "script_result" in r:
            rr = r["script_result"]
            bad = []
            if not rr["ok"]:
                bad = [("*", rr["err"], rr["msg"][:150])]
            else:
                for i, k in enumerate(case["vals"]):
                    got = rr["scalars"].get(f"r_{i}", (None, "MISSING"))[1]
                    ctx.count(("roundtrip", case["roundtrip"], k))
                    want = int(k) if case["src"] == "Integer" else k
                    if (canon_date(got) if case["src"] == "Date" else got) != want:
                        bad.append((k, got))
            roundtrips[case["roundtrip"]] = {"values": len(case["vals"]), "failures": bad}
            if bad:
                F.add(f"roundtrip:{case['roundtrip']}", f"engine round trip {case['roundtrip']} is not the identity: {bad[:4]}",
                      {"src": case["src"], "dst": case["dst"], "script": case["script"], "observed": bad[:6]})
            continue
        n_runs += r["runs"]
        for k, o in r["per_value"].items():
            obs_all[(case["src"], case["dst"], k)][case["level"]] = o
    ctx.log(f"K: {n_runs} engine runs, {sum(len(v) for v in obs_all.values())} (pair, value, level) outcomes in {time.time() - t0:.0f}s")
    matrix: Dict[str, dict] = {}
    judge(ctx, oracle, obs_all, levels, F, matrix)
    # regression witnesses: does the engine still answer what it answered when the finding was recorded?
    reg = {"cases": len(corpus), "answer_changed": [], "answer_unchanged": []}
    for x in corpus:
        o = obs_all.get((x["src"], x["dst"], x["vals"][0]), {}).get(x["level"])
        if o is None or not isinstance(x.get("before"), list):
            continue
        now = json.loads(json.dumps(list(observe(o)), default=str))
        (reg["answer_unchanged"] if now == x["before"] else reg["answer_changed"]).append(x.get("key"))
    ctx.cov["corpus_regression_witnesses"] = reg

    # ---- semantic_analysis alone: forbidden pairs are rejected before any data; allowed pairs predict type and measure name
    for (s, t, lvl), r in sorted(sem_struct.items()):
        ctx.count(("semantic", s, t, lvl))
        cell = matrix.setdefault(f"{s}->{t}", {}).setdefault("semantic_analysis", Counter())
        if not oracle.code_allows(s, t):
            good = (not r["ok"]) and r["err"] == ["Semantic", "1-1-5-4"]
            cell["rejected-before-data" if good else "NOT-rejected"] += 1
            if not good:
                F.add(f"notsem:{s}->{t}", f"cast {s} -> {t}: semantic_analysis() does not answer SemanticError 1-1-5-4",
                      {"src": s, "dst": t, "level": lvl, "value": G.pool_keys(s)[0], "script": script_of(s, t, lvl, G.pool_keys(s)[0]), "observed": r})
            continue
        if not r["ok"]:
            cell["error"] += 1
            continue
        cell["ok"] += 1
        if lvl == "dataset":
            comps = r["datasets"].get("DS_r") or []
            ms = [x for x in comps if x[1] == "Measure"]
            want = oracle.rename(s, t)
            if len(ms) != 1 or ms[0][0] != want or ms[0][2] != G.CLS[t]:
                F.add(f"rename:{s}->{t}", f"cast {s} -> {t} on a mono-measure dataset: semantic_analysis predicts measures {ms}, documented rule gives "
                      f"{want!r} of type {G.CLS[t]}", {"src": s, "dst": t, "level": "dataset", "value": G.pool_keys(s)[0],
                                                        "script": script_of(s, t, "dataset", G.pool_keys(s)[0])})

    # ---- report (a level disagreement of a pair that already has a value/accept finding is the same defect seen from another side)
    for key in [k_ for k_ in F.by_key if k_.startswith("levels:")]:
        pair = key.split(":", 1)[1]
        host = next((h for h in (f"value:{pair}", f"accept:{pair}") if h in F.by_key), None)
        if host:
            F.by_key[host]["examples"].extend(F.by_key.pop(key)["examples"][:2])
    for key in sorted(F.by_key):
        f = F.by_key[key]
        ex = f["examples"][0]
        vals = sorted({str(e.get("value")) for e in f["examples"]})
        lv = sorted({str(e.get("level")) for e in f["examples"]})
        ctx.violation(key, f"{f['what']}; e.g. {ex.get('script', '')!r} observed {ex.get('observed', ex.get('by_level'))} "
                           f"(values {vals[:6]}, levels {lv})", {"examples": f["examples"], **{k: ex.get(k) for k in ("src", "dst", "level", "value")}})
    ctx.cov["rule"] = ("exhaustive: every documented (src, dst) pair (8x8, + the literal null to the 8 types) x the value pool of the source type x "
                       "the levels scalar / scalarvar / component / dataset; distinct = (src, dst, level, value).  quick restricts String "
                       "sources to the value classes relevant to the target + one representative of every other family; thorough runs the "
                       "full cross product and every value of a forbidden pair in its own script")
    ctx.cov["exhaustive"] = True
    ctx.cov["pool_sizes"] = {s: len(G.pool_keys(s)) for s in G.TYPES}
    ctx.cov["pool_classes"] = {s: dict(Counter(c_ for _, _, c_ in G.POOL[s])) for s in G.TYPES}
    ctx.cov["levels"] = levels
    ctx.cov["engine_runs"] = n_runs
    ctx.cov["engine_roundtrips"] = roundtrips
    ctx.cov["model_cases_in_coq"] = n_model
    ctx.cov["matrix"] = {p: {lvl: dict(cnt) for lvl, cnt in row.items()} for p, row in sorted(matrix.items())}
    ctx.cov["finding_keys"] = sorted(F.by_key)
    tot = Counter()
    for row in matrix.values():
        for lvl, cnt in row.items():
            if lvl in levels:
                for k_, v_ in cnt.items():
                    if k_.startswith(("obs:", "verdict:")):
                        tot[k_] += v_
    ctx.cov["totals"] = dict(tot)
    for key in sorted(F.by_key)[:4]:
        ctx.sample({"key": key, **{k: F.by_key[key]["examples"][0].get(k) for k in ("script", "input", "expected", "observed")}})
    ctx.oblige("K: every planned engine case produced an outcome", all("harness_error" not in r for r in results),
               "; ".join(r.get("harness_error", "") for r in results if "harness_error" in r)[:300])
    ctx.trusted.append("T-types translators (harness/translate/types.py, cast.py): import of vtlengine.DataTypes / CastOperator, rst list-table "
                       "scanner for docs/data_types.rst")
    ctx.trusted.append("the Python rendering of the documented time rules (period formats, period dates, interval matching) in props/c09.py, "
                       "used as expectation for the pairs outside Model/Cast.v (*partial* model)")
    ctx.assumptions.append("masks are out of scope (the engine raises NotImplementedError for every mask)")
    ctx.assumptions.append("where docs/data_types.rst does not decide (lenient numeric syntax, text of a Date with zero time, ISO duration "
                           "codes, reversed intervals) the check only demands level agreement and the absence of raw errors")
    ctx.assumptions.append("the scalar level writes values of the types without literals as the inner cast of a String literal; "
                           "scalarvar passes them through run(scalar_values=...)")
    ctx.log(f"C09 done in {time.time() - t0:.0f}s: {len(F.by_key)} finding keys")


def replay(ctx, obj):
    import engine
    engine.install(need_parser=True)
    d = T.emit()
    c = TC.emit()
    oracle = Oracle(d, c)
    exs = obj.get("examples") or [obj]
    for ex in exs[:6]:
        s, t, lvl, k = ex.get("src"), ex.get("dst"), ex.get("level"), ex.get("value")
        if s is None or t is None or lvl is None or k is None or k not in G.POOLD.get(s, {}):
            print("table-level finding:", obj.get("what"))
            continue
        case = {"src": s, "dst": t, "level": lvl, "vals": [k]}
        b = G.build(case)
        oracle.eval_model([(s, t, k)])
        r = G.run_built(case, b)
        print("script   :", b["script"])
        print("input    :", repr(G.POOLD[s][k][0]), "structures:", json.dumps(b["structs"]), "scalar_values:", b["scalar_values"])
        print("expected :", oracle.expect(s, t, k))
        print("observed :", {k_: v_ for k_, v_ in r.items() if k_ != "comps"})
    print(obj.get("what") or obj.get("key") or "")
    return 1
