"""C21 — Time_Period values round-trip through every input and output representation.

Proof : Props/C21.v — spellings_agree, render_parse, render_error_iff_inexpressible, canonical_parse, render_injective, parse_in_valid for
        every valid period of every year 0..9999 (digit lemmas for the year field + finite sweep of the part after the year).
Tie X : translate/period.py — for every valid period of every indicator of 1900-2100 (and sampled years of 0001-9999, pointwise):
        * the engine's SQL macros (vtl_period_to_string / _parse / _normalize of every documented spelling / the four vtl_period_to_*)
          against the Gallina transcriptions (`*_impl`) AND against the specification (canonical / render / spellings);
        * the engine's Python functions (TimePeriodHandler.__str__, the four *_representation, check_time_period of every spelling,
          max_periods_in_year / next / previous / shift_period / period_dates) against their Gallina transcriptions and the specification;
        * Python vs SQL on every period and spelling (the property's last sentence), compared directly.
Tie K : run() itself: all periods through vtlengine.run for each output format, the rendered values fed back as input, every input
        spelling, DataFrame and CSV input paths."""
from __future__ import annotations

import os
import tempfile
import time
import traceback
from pathlib import Path
from typing import Any, Dict, List, Tuple

import common
from translate import period as P
from translate import period_ds as D

YEARS = list(range(P.Y0, P.Y1 + 1))
LOW_YEAR_KEY = "regression:year-below-1000:leading-zeros-dropped"   # repaired in /repo (aa363dc): not a known finding
GREG_KEY = "regression:render:sdmx_gregorian:inexpressible-indicator:raw-duckdb-error"   # repaired in /repo: not a known finding


def split_rows(rows):
    out = []
    for r in rows:
        i1 = r.index("#")
        i2 = r.index("#", i1 + 1)
        out.append((r[:i1], r[i1 + 1:i2], r[i2 + 1:]))
    return out


def py_vs_sql(ctx, sql, py, label) -> int:
    """The Python and SQL implementations agree: canonical string, four renderings, and the normal form of every spelling."""
    bad = []
    n = 0
    differ = []
    for k in sorted(sql):
        for num, (rs, rp) in enumerate(zip(sql[k], py[k]), 1):
            a = [rs[0]] + ["~NONE" if x == "~ERR" else x for x in rs[2:6]] + rs[6:]
            n += len(a)
            if a != rp:
                j = next(i for i, (x, y) in enumerate(zip(a, rp)) if x != y)
                bad.append((k, num, j, a[j], rp[j]))
            # every documented spelling denotes the same period as the others (engine-only predicate, both implementations)
            if set(rs[6:]) != {rs[0]} and k[0] >= 1:
                differ.append(("SQL vtl_period_normalize", k, num, rs[0], rs[6:]))
            if set(rp[5:]) != {rp[0]} and k[0] >= 1:
                differ.append(("Python check_time_period", k, num, rp[0], rp[5:]))
    ctx.count(None, n)
    if differ:
        w, k, num, c, got = differ[0]
        ctx.violation(f"spellings-disagree:{k[1]}", f"{label}: {w}: the documented spellings of {D.canon((k[0], k[1], num))} are read as {got}, "
                      f"canonical form {c} ({len(differ)} periods)", {"kind": "py_sql", "year": k[0], "ind": k[1], "num": num, "readings": got})
    if bad:
        low = [b for b in bad if b[0][0] < 1]
        other = [b for b in bad if b[0][0] >= 1]
        if other:
            k, num, j, a, b = other[0]
            ctx.violation(f"py-sql-disagree:{k[1]}:col{j}", f"{label}: period {D.canon((k[0], k[1], num))} item {j}: SQL gives {a!r}, Python gives {b!r} "
                          f"({len(other)} disagreements)", {"kind": "py_sql", "year": k[0], "ind": k[1], "num": num, "item": j, "sql": a, "python": b})
        if low:
            k, num, j, a, b = low[0]
            ctx.violation(LOW_YEAR_KEY, f"{label}: period {D.canon((k[0], k[1], num))} item {j}: SQL gives {a!r}, Python gives {b!r}",
                          {"kind": "py_sql", "year": k[0], "ind": k[1], "num": num, "item": j, "sql": a, "python": b})
    return len(bad)


def tier_years(ctx, n_quick: int) -> List[int]:
    """thorough: every year 1900-2100; quick: a sample (the string code looks at the year only through its four characters and its
    leap flag — proved for the SQL macros by PeriodP.render_impl_S4 / normalize_plain_S4 — so every kind of year is represented)"""
    if ctx.tier == "thorough":
        return YEARS
    return sorted(set(ctx.rng.sample(YEARS, min(n_quick, len(YEARS))) + [y for y in (1900, 2000, 2015, 2020, 2021, 2100) if y in YEARS]))


def x_strings(ctx) -> None:
    t0 = time.time()
    years = tier_years(ctx, 8)
    ctx.cov["x_string_years"] = len(years)
    P.load_periods(years)
    spec, sql = P.sql_string_rows()
    py = P.py_string_rows(years)
    keys = sorted(spec)
    nstr = sum(len(r) for d in (spec, sql, py) for v in d.values() for r in v)
    ctx.log(f"X: engine side (SQL macros + Python functions) evaluated on {sum(len(v) for v in spec.values())} valid periods, "
            f"{nstr} strings, in {time.time() - t0:.1f}s")
    t1 = time.time()
    fp = P.coq_fp("tie_string_fp", keys, {}, "c21x")
    ctx.log(f"X: Gallina side evaluated in {time.time() - t1:.1f}s")
    ctx.count(None, nstr)
    bad = {"spec": [], "sql": [], "py": []}
    for k in keys:
        ctx.count(("x", k))
        mine = [P.fps([x for r in d[k] for x in r]) for d in (spec, sql, py)]
        for name, a, b in zip(("spec", "sql", "py"), fp[k], mine):
            if a != b:
                bad[name].append(k)
    loc = {}
    todo = sorted(set(bad["spec"][:2] + bad["sql"][:2] + bad["py"][:2]))
    if todo:
        rows = P.coq_rows("tie_string_rows", todo, {}, "c21loc")
        for k in todo:
            sp = split_rows(rows[k])
            for idx, (name, eng) in enumerate((("spec", spec), ("sql", sql), ("py", py))):
                d = P.first_diff([c[idx] for c in sp], eng[k])
                if d:
                    loc[(name, k)] = d
    for name, what in (("sql", "vtl_period_to_string/_parse/_to_vtl/_to_sdmx_reporting/_to_sdmx_gregorian/_to_natural/_normalize = Gallina *_impl"),
                       ("py", "TimePeriodHandler.__str__/*_representation/check_time_period = Gallina py_* transcription")):
        detail = "; ".join(f"{k} number {loc[(name, k)][0] + 1} item {loc[(name, k)][1]}: model {loc[(name, k)][2]!r} engine {loc[(name, k)][3]!r}"
                           for k in bad[name][:2] if (name, k) in loc)
        ctx.oblige(f"X: {what}, every valid period and documented spelling of {len(years)} years of 1900-2100", not bad[name], f"{len(bad[name])} shards differ: {detail}")
    # engine vs the documented representation (the property itself)
    for k in bad["spec"][:2]:
        d = loc.get(("spec", k))
        ctx.violation(f"render-or-spelling:{k[1]}:differs-from-documented",
                      f"period number {d[0] + 1 if d else '?'} of {k}: documented {d[2] if d else '?'!r}, engine {d[3] if d else '?'!r}",
                      {"kind": "spec_row", "year": k[0], "ind": k[1], "diff": d})
    ctx.oblige(f"X: engine output = documented canonical form and renderings (Period.canonical/render), spellings aligned, {len(years)} years of 1900-2100",
               not bad["spec"], f"{len(bad['spec'])} shards")
    nb = py_vs_sql(ctx, sql, py, f"{len(years)} years of 1900-2100")
    ctx.cov["x_valid_periods"] = sum(len(v) for v in spec.values())
    ctx.cov["x_strings_compared"] = nstr
    ctx.cov["py_sql_disagreements_1900_2100"] = nb
    # error branch of the gregorian macro, one by one
    import duckdb
    okerr = []
    for i in "SQW":
        try:
            P.conn().execute(f"SELECT vtl_period_to_sdmx_gregorian('2020-{i}1')").fetchone()
            okerr.append(i)
        except duckdb.Error as e:
            if "2-1-19-21" not in str(e):
                okerr.append(i)
    ctx.oblige("X: vtl_period_to_sdmx_gregorian raises VTL error 2-1-19-21 for S, Q, W (model: SErr)", not okerr, str(okerr))


def x_sampled_years(ctx) -> None:
    """years of 0001..9999 outside 1900-2100, compared POINTWISE (this is also the path that localises fingerprint mismatches)"""
    n = 200 if ctx.tier == "thorough" else 3
    ys = sorted(set(([1, 4, 999, 1000, 1600, 9999] if ctx.tier == "thorough" else [4, 999, 1000, 9999])
                    + [ctx.rng.randint(1, 999) for _ in range(max(1, n // 10))]
                    + [ctx.rng.randint(1000, 9999) for _ in range(n)]))
    hi = [y for y in ys if y >= 1]      # since fix aa363dc the SQL side handles every year 1..9999
    lo = [y for y in ys if y < 1000]
    P.load_periods(hi)
    spec, sql = P.sql_string_rows()
    py = P.py_string_rows(ys)
    keys = [(y, i) for y in ys for i in P.INDS]
    # all sampled years by fingerprint; two of them (one below 1000, one above) pointwise as well
    fp = P.coq_fp("tie_string_fp", keys, {}, "c21sf")
    pw_years = [lo[len(lo) // 2], [y for y in hi if y >= 1000][len(hi) // 4]]
    pw_keys = [(y, i) for y in pw_years for i in (P.INDS if ctx.tier == "thorough" else "ASQMW")]
    rows = P.coq_rows("tie_string_rows", pw_keys, {}, "c21s")
    bad_sql, bad_py, bad_spec = [], [], []
    nstr = 0
    for k in keys:
        ctx.count(("sample", k))
        nstr += sum(len(r) for r in py[k]) + (sum(len(r) for r in sql[k]) + sum(len(r) for r in spec[k]) if k[0] >= 1 else 0)
        if fp[k][2] != P.fps([x for r in py[k] for x in r]):
            bad_py.append((k, "fingerprint"))
        if k[0] >= 1:
            if fp[k][1] != P.fps([x for r in sql[k] for x in r]):
                bad_sql.append((k, "fingerprint"))
            if fp[k][0] != P.fps([x for r in spec[k] for x in r]):
                bad_spec.append((k, "fingerprint"))
    for k in pw_keys:
        sp = split_rows(rows[k])
        d = P.first_diff([c[2] for c in sp], py[k])
        if d:
            bad_py.append((k, d))
        if k[0] >= 1:
            d = P.first_diff([c[1] for c in sp], sql[k])
            if d:
                bad_sql.append((k, d))
            d = P.first_diff([c[0] for c in sp], spec[k])
            if d:
                bad_spec.append((k, d))
    ctx.count(None, nstr)
    ctx.oblige(f"X: SQL string macros = Gallina *_impl on {len(hi)} sampled years of 0001..9999 (fingerprint; two years pointwise)", not bad_sql, str(bad_sql[:2]))
    ctx.oblige(f"X: Python functions = Gallina py_* on {len(ys)} sampled years of 0001..9999 (fingerprint; two years pointwise)", not bad_py, str(bad_py[:2]))
    ctx.oblige(f"X: engine = documented forms on {len(hi)} sampled years of 0001..9999 (fingerprint; two years pointwise)", not bad_spec, str(bad_spec[:2]))
    py_vs_sql(ctx, {k: v for k, v in sql.items()}, {k: py[k] for k in sql}, "sampled years")
    ctx.cov["sampled_years"] = ys
    # years below 1000: the Python side drops the leading zeros (documented form YYYY); reproduce through run()
    S = D.tp_structure()
    y = lo[0]
    rows_in = [{"Id_1": 1, "Id_2": f"{y:04d}-M01", "Me_1": 1.0}, {"Id_1": 2, "Id_2": f"{y:04d}", "Me_1": 2.0}]
    res = D.run("DS_r <- DS_1;", S, rows_in, time_period_output_format="sdmx_reporting")
    want = [f"{y:04d}-M01", f"{y:04d}-A1"]
    got = [r[1] for r in D.rows_of(res)[1]] if res["ok"] else [str(res["err"])]
    ctx.count(("lowyear", y))
    if got != want:
        ctx.violation(LOW_YEAR_KEY, f"run() with Time_Period inputs {[r['Id_2'] for r in rows_in]} (DataFrame) and sdmx_reporting output returns {got}, "
                                    f"documented representation {want} (regression of fix aa363dc: the year field must keep its four digits)",
                      {"kind": "run", "script": "DS_r <- DS_1;", "structures": S, "rows": rows_in,
                       "kwargs": {"time_period_output_format": "sdmx_reporting"}, "expected": want, "observed": got})


def x_py_shift(ctx) -> None:
    ys = tier_years(ctx, 3)
    keys = [(y, i) for y in ys for i in P.INDS]
    shifts = {k: sorted(set([-1, 1, ctx.rng.randint(-8, 8)])) for k in keys}
    t0 = time.time()
    py = P.py_shift_rows(ys, shifts)
    fp = P.coq_fp("tie_py_shift_fp", keys, {k: " " + P.zlist(v) for k, v in shifts.items()}, "c21ps")
    bad = [k for k in keys if fp[k][0] != P.fpz([x for r in py[k] for x in r])]
    n = sum(len(r) for v in py.values() for r in v)
    ctx.count(None, n)
    detail = ""
    if bad:
        ks = bad[:2]
        cr = P.coq_rows("tie_py_shift_rows", ks, {k: " " + P.zlist(shifts[k]) for k in ks}, "c21loc")
        for k in ks:
            d = P.first_diff(cr[k], py[k])
            detail += f"{k}: number {d[0] + 1 if d else '?'} column {d[1] if d else '?'}: model {d[2] if d else '?'} python {d[3] if d else '?'}; "
    ctx.oblige(f"X: max_periods_in_year/next_period/previous_period/shift_period/period_dates (Python) = Gallina py_* = calendar "
               f"shift/start/end, every valid period of {len(ys)} years", not bad, f"{len(bad)} shards: {detail}")
    ctx.log(f"X: python period arithmetic on {len(ys)} years, {n} values, {time.time() - t0:.1f}s")


# ====================================================================================================== K: run() round trips
def run_column(values: List[str], fmt: str, csv: bool = False) -> Dict[str, Any]:
    import pandas as pd
    import engine
    S = D.tp_structure()
    df = pd.DataFrame({"Id_1": list(range(len(values))), "Id_2": values, "Me_1": [1.0] * len(values)})
    if not csv:
        res = engine.run_case("DS_r <- DS_1;", S, {"DS_1": df}, time_period_output_format=fmt)
    else:
        with tempfile.TemporaryDirectory(prefix="c21_") as td:
            path = Path(td) / "DS_1.csv"
            df.to_csv(path, index=False)
            res = engine.run_case("DS_r <- DS_1;", S, {"DS_1": path}, time_period_output_format=fmt)
    if res["ok"]:
        rows = sorted(D.rows_of(res)[1], key=lambda r: r[0])
        res["column"] = [r[1] for r in rows]
    return res


def k_run_roundtrip(ctx) -> None:
    t0 = time.time()
    ys = sorted(set(tier_years(ctx, 6) + [4, 999]))      # years below 1000 round-trip since fix aa363dc
    P.load_periods(ys)
    spec, sql = P.sql_string_rows()     # rows: [canonical, vtl, reporting, gregorian|~NONE, natural, spellings...]
    per = [(k, num, r) for k in sorted(spec) for num, r in enumerate(spec[k], 1)]
    canon = [r[0] for _, _, r in per]
    reporting = [r[2] for _, _, r in per]
    nruns = 0
    paths = [False, True] if ctx.tier == "thorough" else [False]
    for csv in paths:
        tag = "CSV" if csv else "DataFrame"
        for fi, fmt in enumerate(P.FMTS):
            idx = [j for j, (_, _, r) in enumerate(per) if r[1 + fi] != "~NONE"]
            vals = [canon[j] for j in idx]
            res = run_column(vals, fmt, csv)
            nruns += 1
            ctx.count(("run", tag, fmt), len(vals))
            if not res["ok"]:
                ctx.violation(f"run:{fmt}:{tag}:engine-error", f"run() over {len(vals)} valid periods with output {fmt} raised {res['err']}: {res['msg'][:200]}",
                              {"kind": "column", "values": vals[:50], "fmt": fmt, "csv": csv})
                continue
            want = [per[j][2][1 + fi] for j in idx]
            bad = [(v, g, w) for v, g, w in zip(vals, res["column"], want) if g != w]
            if bad:
                ctx.violation(f"run:{fmt}:rendering-differs-from-documented", f"run() output format {fmt} ({tag}): input {bad[0][0]} rendered {bad[0][1]!r}, "
                              f"documented {bad[0][2]!r} ({len(bad)} of {len(vals)})", {"kind": "column", "values": [b[0] for b in bad[:20]], "fmt": fmt, "csv": csv,
                                                                                   "expected": [b[2] for b in bad[:20]]})
            # feed the rendered values back as input
            res2 = run_column(res["column"], "sdmx_reporting", csv)
            nruns += 1
            ctx.count(("feedback", tag, fmt), len(vals))
            want2 = [reporting[j] for j in idx]
            if not res2["ok"]:
                ctx.violation(f"feedback:{fmt}:{tag}:engine-error", f"feeding the {fmt} output back as input raised {res2['err']}: {res2['msg'][:200]}",
                              {"kind": "column", "values": res["column"][:50], "fmt": "sdmx_reporting", "csv": csv})
            else:
                bad = [(v, g, w) for v, g, w in zip(res["column"], res2["column"], want2) if g != w]
                if bad:
                    ctx.violation(f"feedback:{fmt}:not-the-same-period", f"{fmt} output {bad[0][0]!r} fed back as input denotes {bad[0][1]!r}, "
                                  f"original {bad[0][2]!r} ({len(bad)} of {len(vals)})", {"kind": "column", "values": [b[0] for b in bad[:20]],
                                                                                       "fmt": "sdmx_reporting", "csv": csv, "expected": [b[2] for b in bad[:20]]})
        # every documented spelling
        for k in range(P.MAXSP):
            idx = [j for j, (_, _, r) in enumerate(per) if len(r) > 5 + k]
            vals = [per[j][2][5 + k] for j in idx]
            res = run_column(vals, "sdmx_reporting", csv)
            nruns += 1
            ctx.count(("spelling", tag, k), len(vals))
            want = [reporting[j] for j in idx]
            if not res["ok"]:
                ctx.violation(f"spelling:{k}:{tag}:engine-error", f"run() over documented spellings (variant {k}, e.g. {vals[0]!r}) raised {res['err']}: {res['msg'][:200]}",
                              {"kind": "column", "values": vals[:50], "fmt": "sdmx_reporting", "csv": csv})
                continue
            bad = [(v, g, w) for v, g, w in zip(vals, res["column"], want) if g != w]
            if bad:
                ctx.violation(f"spelling:{k}:denotes-another-period", f"input spelling {bad[0][0]!r} ({tag}) is read as {bad[0][1]!r}, documented meaning {bad[0][2]!r} "
                              f"({len(bad)} of {len(vals)})", {"kind": "column", "values": [b[0] for b in bad[:20]], "fmt": "sdmx_reporting", "csv": csv,
                                                               "expected": [b[2] for b in bad[:20]]})
    # a format that cannot express the indicator must report a VTL error
    for i in "SQW":
        res = run_column([f"2020-{i}1" if i != "W" else "2020-W01"], "sdmx_gregorian")
        nruns += 1
        ctx.count(("greg", i))
        if res["ok"]:
            ctx.violation(f"render:sdmx_gregorian:{i}:no-error", f"sdmx_gregorian output of a {i} period returned {res['column']}", {"kind": "column", "values": [f"2020-{i}1"], "fmt": "sdmx_gregorian"})
        elif res["err"][0] in ("RawDuckDB", "RawPython"):
            ctx.violation(GREG_KEY, f"time_period_output_format='sdmx_gregorian' with a {i} period raises a raw {res['err'][1]} "
                                    f"({res['msg'][:120]}) instead of a VTL error (2-1-19-21 is only in the message text)",
                          {"kind": "column", "values": [f"2020-{i}1" if i != "W" else "2020-W01"], "fmt": "sdmx_gregorian", "expected": "a VTL error (RunTimeError 2-1-19-21)",
                           "observed": str(res["err"])})
    ctx.cov["k_runs"] = nruns
    ctx.cov["k_run_years"] = len(ys)
    ctx.cov["k_periods_per_run"] = len(per)
    ctx.log(f"K: {nruns} run() calls over {len(per)} periods of {len(ys)} years in {time.time() - t0:.1f}s")


def k_corpus(ctx) -> None:
    """corpus first: past minimal failures (all of them known findings today)"""
    import json
    files = sorted((common.CORPUS / "C21").glob("*.json"))
    for f in files:
        w = json.loads(f.read_text())
        res = run_column(w["values"], w["fmt"])
        ctx.count(("corpus", f.name))
        if "expected_error" in w:
            bad = res["ok"] or res["err"][0] in ("RawDuckDB", "RawPython")
            what = f"corpus {f.name}: output format {w['fmt']} on {w['values']}: " + (f"returned {res.get('column')}" if res["ok"] else f"raised raw {res['err']}") + ", a VTL error is required"
        else:
            got = res.get("column") if res["ok"] else [str(res["err"])]
            bad = got != w["expected"]
            what = f"corpus {f.name}: inputs {w['values']} come back as {got}, documented {w['expected']}"
        if bad:
            ctx.violation(w["key"], what, {"kind": "column", "values": w["values"], "fmt": w["fmt"], "expected": w.get("expected", "a VTL error")})
    ctx.cov["corpus_cases"] = len(files)


def k_multi_column(ctx) -> None:
    """Datasets with SEVERAL Time_Period components (an identifier and two nullable measures), nulls in some of them, through run()
    for each output format: in memory AND written to an output folder (CSV) and read back.  Every non-null period must be in the
    format's documented representation whatever else its datapoint holds, the file must hold what the in-memory result holds, and
    the file fed back as input must denote the same periods."""
    import pandas as pd
    import engine
    t0 = time.time()
    ys = sorted(set(tier_years(ctx, 2) + [4]))
    P.load_periods(ys)
    spec, _sql = P.sql_string_rows()    # rows: [canonical, vtl, reporting, gregorian|~NONE, natural, spellings...] (tied to Period.render)
    per = [r for k in sorted(spec) for r in spec[k]]
    S = engine.structures(engine.ds_struct("DS_1", [("Id_1", "Integer", "Identifier", False), ("Id_2", "Time_Period", "Identifier", False),
                                                    ("Me_1", "Time_Period", "Measure", True), ("Me_2", "Time_Period", "Measure", True)]))
    nrows = 4000 if ctx.tier == "thorough" else 400
    nruns = 0
    for fi, fmt in enumerate(P.FMTS):
        pool = [r for r in per if r[1 + fi] != "~NONE"]
        render = {r[0]: r[1 + fi] for r in pool}
        report = {r[0]: r[2] for r in pool}
        rows = []
        for k in range(nrows):
            shape = k % 4                      # both measures, only Me_1, only Me_2, none
            a, b, c = (ctx.rng.choice(pool)[0] for _ in range(3))
            rows.append((k, a, b if shape in (0, 1) else None, c if shape in (0, 2) else None))
        df = pd.DataFrame(rows, columns=["Id_1", "Id_2", "Me_1", "Me_2"])
        want = [(k, render[a], render[b] if b else None, render[c] if c else None) for k, a, b, c in rows]
        rep = {"kind": "multi", "rows": [list(r) for r in rows[:12]], "fmt": fmt}
        mem = engine.run_case("DS_r <- DS_1;", S, {"DS_1": df}, time_period_output_format=fmt)
        nruns += 1
        ctx.count(("multi", "memory", fmt), 3 * nrows)
        if not mem["ok"]:
            ctx.violation(f"multi-column:{fmt}:memory:engine-error", f"run() ({fmt}) on a dataset with three Time_Period components raised {mem['err']}: {mem['msg'][:200]}", rep)
            continue
        got = sorted((r[0], r[1], r[2], r[3]) for r in D.rows_of(mem)[1])
        bad = [(g, w) for g, w in zip(got, want) if g != w]
        if bad:
            ctx.violation(f"multi-column:{fmt}:memory:rendering-differs-from-documented",
                          f"run() output format {fmt}, in memory: datapoint {bad[0][0]} but the documented rendering is {bad[0][1]} ({len(bad)} of {nrows} datapoints)",
                          dict(rep, expected=list(bad[0][1]), observed=list(bad[0][0])))
        with tempfile.TemporaryDirectory(prefix="c21_of_") as td:
            res = engine.run_case("DS_r <- DS_1;", S, {"DS_1": df}, time_period_output_format=fmt, output_folder=td)
            nruns += 1
            ctx.count(("multi", "output_folder", fmt), 3 * nrows)
            f = Path(td) / "DS_r.csv"
            if not res["ok"] or not f.exists():
                ctx.violation(f"multi-column:{fmt}:output_folder:engine-error", f"run(output_folder=...) ({fmt}) failed: {res.get('err')} {res.get('msg', '')[:200]}", rep)
                continue
            back = pd.read_csv(f, dtype=str, keep_default_na=False)
            gotf = sorted((int(r.Id_1), r.Id_2, r.Me_1 or None, r.Me_2 or None) for r in back.itertuples())
            bad = [(g, w) for g, w in zip(gotf, want) if g != w]
            if bad or len(gotf) != len(want):
                g, w = bad[0] if bad else (("rows", len(gotf)), ("rows", len(want)))
                ctx.violation(f"multi-column:{fmt}:output_folder:rendering-differs-from-documented",
                              f"run(output_folder=...) output format {fmt}: DS_r.csv holds datapoint {g} but the documented rendering is {w} "
                              f"({len(bad)} of {nrows} datapoints; nulls in the other Time_Period components: {[x is None for x in w[2:]] if bad else ''})",
                              dict(rep, expected=list(w), observed=list(g), output_folder=True))
                continue
            # the written file fed back as input denotes the same periods
            res2 = engine.run_case("DS_r <- DS_1;", S, {"DS_1": f}, time_period_output_format="sdmx_reporting")
            nruns += 1
            want2 = [(k, report[a], report[b] if b else None, report[c] if c else None) for k, a, b, c in rows]
            got2 = sorted((r[0], r[1], r[2], r[3]) for r in D.rows_of(res2)[1]) if res2["ok"] else [(res2["err"], res2["msg"][:150])]
            if got2 != want2:
                bad2 = [(g, w) for g, w in zip(got2, want2) if g != w][:1]
                ctx.violation(f"multi-column:{fmt}:feedback:not-the-same-period", f"the {fmt} file written to output_folder, fed back as input: {bad2 or got2[:1]}",
                              dict(rep, output_folder=True))
    ctx.cov["k_multi_column_runs"] = nruns
    ctx.log(f"K: {nruns} run() calls on datasets with three Time_Period components and partial nulls (memory + output_folder) in {time.time() - t0:.1f}s")


def run(ctx):
    ctx.cov["rule"] = ("exhaustive on its domain: every valid period of the years taken (thorough: all of 1900-2100; quick: 14 of them) x (canonical form, parse, 4 renderings, every documented spelling) on the SQL "
                       "side and the Python side; sampled years of 0001-9999 pointwise; run()-level round trips; distinct = shard (indicator, year) "
                       "/ run; evaluations = strings compared")
    ctx.cov["exhaustive"] = ctx.tier == "thorough"
    ctx.prove("C21")
    okm, out = common.coq_make(P.COQ_TARGETS)
    ctx.oblige("Model/Period.vo builds", okm, out[-300:])
    for name, fn in (("k_corpus", k_corpus), ("x_strings", x_strings), ("x_sampled_years", x_sampled_years), ("x_py_shift", x_py_shift), ("k_run_roundtrip", k_run_roundtrip), ("k_multi_column", k_multi_column)):
        try:
            fn(ctx)
        except Exception as e:  # noqa
            traceback.print_exc()
            ctx.oblige(f"{name} ran to completion", False, f"{type(e).__name__}: {str(e)[:300]}")
    ctx.trusted.append("T-macros tie (harness/translate/period.py): SQL batches over the engine's own macros and direct calls of the Python "
                       "functions; polynomial fingerprint (base 1000003 mod 2^61) per (indicator, year) shard, pointwise localisation; "
                       "sampled years always pointwise")
    ctx.trusted.append("the list of documented spellings (translate/period.spellings) is the harness's reading of docs/data_types.rst "
                       "'Accepted input formats'; it is checked equal to Period.spellings on every period (spec fingerprint)")
    ctx.assumptions.append("docs/data_types.rst lists the examples 2020D-1, 2020D-01, 2020D-001 for the format YYYY-D[xx]x; they are read as "
                           "typos of 2020-D1 / 2020-D01 / 2020-D001 (the engine rejects the literal examples)")
    ctx.assumptions.append("CAST(varchar AS INTEGER) / int() are modelled on digit strings only (all documented spellings); surrounding "
                           "blanks, signs and lower-case indicators are outside the tie (C19 covers rejected inputs)")


def replay(ctx, obj):
    kind = obj.get("kind")
    if kind == "column":
        res = run_column(obj["values"], obj.get("fmt", "sdmx_reporting"), obj.get("csv", False))
        print("input values:", obj["values"][:20])
        print("expected:", obj.get("expected", "see 'what'"))
        print("observed:", res.get("column", (res.get("err"), res.get("msg", "")[:300]))[:20] if res["ok"] else (res["err"], res["msg"][:300]))
        print(obj.get("what"))
        return 1
    if kind == "run":
        res = D.run(obj["script"], obj["structures"], obj["rows"], **obj.get("kwargs", {}))
        print("script:", obj["script"], "rows:", obj["rows"])
        print("expected:", obj.get("expected"))
        print("observed:", [r[1] for r in D.rows_of(res)[1]] if res["ok"] else (res["err"], res["msg"][:300]))
        return 1
    if kind == "multi":
        import pandas as pd
        import engine
        S = engine.structures(engine.ds_struct("DS_1", [("Id_1", "Integer", "Identifier", False), ("Id_2", "Time_Period", "Identifier", False),
                                                        ("Me_1", "Time_Period", "Measure", True), ("Me_2", "Time_Period", "Measure", True)]))
        df = pd.DataFrame(obj["rows"], columns=["Id_1", "Id_2", "Me_1", "Me_2"])
        with tempfile.TemporaryDirectory(prefix="c21_of_") as td:
            kw = {"output_folder": td} if obj.get("output_folder") else {}
            res = engine.run_case("DS_r <- DS_1;", S, {"DS_1": df}, time_period_output_format=obj["fmt"], **kw)
            print("input rows:", obj["rows"], "format:", obj["fmt"], "output_folder:", bool(kw))
            print("expected (one datapoint):", obj.get("expected"))
            print("observed:", (Path(td) / "DS_r.csv").read_text() if kw and res["ok"] else (D.rows_of(res)[1] if res["ok"] else (res["err"], res["msg"][:300])))
        return 1
    if kind == "py_sql":
        print(obj)
        return 1
    print("replay names a broken obligation only:", obj.get("what"))
    return 1
