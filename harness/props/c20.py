"""C20 - validate_dataset() raises exactly when run() of a script that reads the dataset rejects the same input.

Theorems: Props/C20.v (validators_agree refuted with witnesses at value and table level; partial theorem on the decidable sub-domain
agree20).  Tie K: C19's input stream in DataFrame (str and native) and CSV form through the real validate_dataset() and run(), both
compared with the faithful models (accept_pandas / load_pandas vs accept_* / load_run); then the predicate
`validate raises <-> run raises` is evaluated on the engine outcomes."""
from __future__ import annotations

import loadergen as L

KEYS = ["csv", "df_str", "df_nat", "val_df", "val_csv", "val_dfn"]


def run(ctx):
    n = 60 if ctx.tier == "quick" else 6000       # + directed tables: quick ~365 tables, thorough ~6800
    ctx.cov["rule"] = ("C19's input stream (content tables with labelled focus cells and 0-3 structural violations); each table is given to "
                       "validate_dataset() and to run('DS_r <- DS_1;') as DataFrame of str, DataFrame with native dtypes and CSV file; "
                       "distinct = (component types/roles, focus family+value, violations, row count)")
    r = L.campaign(ctx, KEYS, n, kcheck_per_pattern=40 if ctx.tier == "quick" else 400)
    found = []
    n_pairs = 0
    for case, eng in zip(r["cases"], r["eng"]):
        n_pairs += 2 + (1 if L.has_native(case) else 0)
        for rel, forms, detail in L.c20_problems(case, eng):
            found.append((case, rel, forms, detail))
    ctx.cov["property_evaluations"] = {"validate_vs_run_pairs": n_pairs, "tables_violating": len(found)}
    ctx.log(f"C20 predicate: {n_pairs} validate/run pairs, {len(found)} tables where they disagree")
    L.report(ctx, found, "validate_dataset() vs run():")
    ctx.trusted.append("harness/loadergen.py: generator, the writers of the input forms, error classification (engine.classify_error); "
                       "pandas / pyarrow / DuckDB themselves")
    ctx.trusted.append("T-regex translator (harness/translate/regex.py): CPython's re._parser parse tree -> Gen/Regex.v; ASCII subjects")
    ctx.assumptions.append("'rejects' = raises any exception; validate_dataset on a CSV path of an EMPTY table with a Duration component is "
                           "excluded (pandas-3 string dtype reduction error of this sandbox, not vtlengine logic)")
    ctx.assumptions.append("the validator's failure class for Integer magnitudes >= 2^63 (DataLoadError vs raw OverflowError) depends on "
                           "pandas/pyarrow internals and is modelled as a rejection only")


def replay(ctx, obj):
    return L.replay_case(ctx, obj, KEYS, L.c20_problems)
