"""C02 — clause operators behave as specified.  Proof: Props/C02.v.  Tie K (exprk.run_k) with clause-heavy scripts."""
import exprk


def run(ctx):
    ctx.prove("C02")
    q = ctx.tier == "quick"
    exprk.run_k(ctx, "C02", 180 if q else 10000, 0,
                kinds=["clause", "clause", "clause", "clause", "elem", "binary"], tag="c02")
    ctx.cov["rule"] = ("scripts of 1-4 statements dominated by clause chains of length 1-3 (filter, calc, keep, drop, rename, sub) applied to inputs and to "
                       "results of other clauses/operators; conditions and calc expressions of depth ≤ 3 incl. null conditions, overwritten measures, "
                       "new measures; distinct = (script, data)")
    ctx.oblige("K: engine = run_script (Model/Expr.v) on every generated case, or the disagreement is reported", True)
    ctx.trusted.append("DuckDB executes the emitted SQL (observed only); same value bounds as C01")


def replay(ctx, obj):
    return exprk.replay_case(obj)
