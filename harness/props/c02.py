"""C02 — clause operators behave as specified.  Proof: Props/C02.v.  Tie K (exprk.run_k) with clause-heavy scripts."""
import exprk


def run(ctx):
    ctx.prove("C02")
    q = ctx.tier == "quick"
    exprk.run_k(ctx, "C02", 150 if q else 10000, 15 if q else 400,
                kinds=["clause", "clause", "clause", "clause", "elem", "binary", "setop"], tag="c02",
                nested_kinds=["clause", "clause", "clause", "binary", "setop", "elem"],
                directed={"chain": 40 if q else 1500, "setctx": 10 if q else 300},
                exclude_flags=("measure-renaming-operator",))
    ctx.cov["rule"] = ("scripts of 1-4 statements dominated by clause chains of length 1-4 IN ONE STATEMENT (filter, calc, keep, drop, rename, sub) applied "
                       "to inputs and to results of other clauses/operators; later clauses of a chain are biased towards the components an earlier calc / "
                       "rename of the same chain created (rename it, keep it, filter on it, compute from it, sub in between); conditions and calc "
                       "expressions of depth ≤ 3 incl. null conditions, overwritten measures, NEW measures; a nested stream (clauses applied to "
                       "dataset∘dataset / set-operator results in one statement) and the directed families chain (create, then rename/keep/filter/calc) and "
                       "setctx (clauses on set-operator results); single-statement cases whose operator renames its measure (bool_var…) are left to C01, "
                       "where that engine defect is recorded; distinct = (script, data)")
    ctx.oblige("K: engine = run_script (Model/Expr.v) on every generated case, or the disagreement is reported", True)
    ctx.trusted.append("DuckDB executes the emitted SQL (observed only); same value bounds as C01")


def replay(ctx, obj):
    return exprk.replay_case(obj)
