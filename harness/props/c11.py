"""C11 — semantic type rules follow the documented implicit-cast table.
Tie: T-types (D: tables/registry/docs dumped by import; X: the four promotion functions evaluated on their whole domain and
proved equal to the Gallina model inside Coq).  K: every generic Binary/Unary operator class driven at scalar, component and
dataset level over the 9x9 (9) grid and compared with the promotion tables."""
from __future__ import annotations

import itertools

from translate import types as T


def py_search(ctx, d):
    """Evaluates each theorem's predicate on the real functions' tables; returns concrete failing tuples."""
    binp = dict(d["binp"]); binc = dict(d["binc"]); unp = dict(d["unp"]); unc = dict(d["unc"])
    doc = {k: set(v) for k, v in d["doc"]["implicit"].items()}
    doc["Null"] = set(T.TY)
    impl = {k: set(v) for k, v in d["impl"].items()}
    out = []
    for t in T.TY:
        if impl[t] != doc[t]:
            out.append(("implicit-table-vs-doc", f"IMPLICIT_TYPE_PROMOTION_MAPPING[{t}] = {sorted(impl[t])} but docs/data_types.rst gives {sorted(doc[t])}",
                        {"type": t}))
    for (l, r, tc, rt), v in binp.items():
        acc = binc[(l, r, tc, rt)]
        if acc != (v != "RAISE"):
            out.append(("check-vs-promotion", f"check_binary_implicit_promotion({l},{r},{tc},{rt})={acc} but binary_implicit_promotion -> {v}",
                        {"l": l, "r": r, "tc": tc, "rt": rt}))
        common = doc[l] & doc[r]
        docacc = (tc in common) if tc else bool(common)
        if acc != docacc:
            out.append(("accept-vs-doc", f"operands ({l},{r}) with type_to_check={tc}: code accepts={acc}, documented table says {docacc}",
                        {"l": l, "r": r, "tc": tc, "rt": rt}))
        if v != "RAISE":
            ok = (v == rt) if rt else (v in common)
            if not ok:
                out.append(("result-vs-doc", f"binary_implicit_promotion({l},{r},{tc},{rt}) = {v}: not the documented result type",
                            {"l": l, "r": r, "tc": tc, "rt": rt}))
    for (o, tc, rt), v in unp.items():
        acc = unc[(o, tc, rt)]
        if acc != (v != "RAISE"):
            out.append(("check-vs-promotion-unary", f"check_unary({o},{tc},{rt})={acc} but unary_implicit_promotion -> {v}", {"o": o, "tc": tc, "rt": rt}))
        docacc = (tc in doc[o]) if tc else True
        if acc != docacc:
            out.append(("accept-vs-doc-unary", f"operand {o} with type_to_check={tc}: code accepts={acc}, doc says {docacc}", {"o": o, "tc": tc, "rt": rt}))
        if v != "RAISE" and not ((v == rt) if rt else (v in doc[o])):
            out.append(("result-vs-doc-unary", f"unary_implicit_promotion({o},{tc},{rt}) = {v}: not the documented result type", {"o": o, "tc": tc, "rt": rt}))
    for op in d["reg"]:
        if op["comm"]:
            for l, r in itertools.product(T.TY, T.TY):
                a, b = binp[(l, r, op["tc"], op["rt"])], binp[(r, l, op["tc"], op["rt"])]
                if a != b:
                    out.append(("commutative-order", f"{op['name']} ('{op['op']}'): result type for ({l},{r}) is {a} but for ({r},{l}) is {b}",
                                {"op": op["name"], "l": l, "r": r}))
    return out


def drive_operators(ctx, d):
    """K: generic operator classes at scalar / component / dataset level vs the function tables."""
    D, TT = T.types()
    from vtlengine.Exceptions import SemanticError
    from vtlengine.Model import Component, DataComponent, Dataset, Role, Scalar, ScalarSet
    import vtlengine.Operators as O
    binp = dict(d["binp"]); unp = dict(d["unp"])
    rev = {v: k for k, v in TT.items()}
    generic_b = ("validate", "scalar_validation", "component_validation", "dataset_validation", "type_validation",
                 "validate_type_compatibility", "apply_return_type_dataset", "component_scalar_validation", "dataset_scalar_validation",
                 "scalar_set_validation", "component_set_validation", "dataset_set_validation")
    generic_u = ("validate", "scalar_validation", "component_validation", "dataset_validation", "type_validation",
                 "validate_type_compatibility", "apply_return_type_dataset", "validate_dataset_type", "validate_scalar_type")

    def inherits(cls, base, names):
        return all(getattr(getattr(cls, n), "__func__", None) is getattr(getattr(base, n), "__func__", None) for n in names)

    def mkds(name, t):
        return Dataset(name=name, components={
            "Id_1": Component(name="Id_1", data_type=D.Integer, role=Role.IDENTIFIER, nullable=False),
            "Me_1": Component(name="Me_1", data_type=TT[t], role=Role.MEASURE, nullable=True)}, data=None)

    def outcome(f):
        try:
            r = f()
        except SemanticError as e:
            return ("RAISE", e.args[1] if len(e.args) > 1 else None)
        if isinstance(r, Dataset):
            ms = r.get_measures()
            return ("OK", rev.get(ms[0].data_type)) if len(ms) == 1 else ("OK?", None)
        return ("OK", rev.get(r.data_type))

    n_cls = n_skipped = disagreements = 0
    hist = {}
    for op in d["reg"]:
        cls = op["cls"]
        if op["arity"] == 2:
            if not inherits(cls, O.Binary, generic_b):
                n_skipped += 1
                continue
            n_cls += 1
            for l, r in itertools.product(T.TY, T.TY):
                want = binp[(l, r, op["tc"], op["rt"])]
                forms = {
                    "scalar": lambda: cls.validate(Scalar(name="a", data_type=TT[l], value=None), Scalar(name="b", data_type=TT[r], value=None)),
                    "component": lambda: cls.validate(DataComponent(name="a", data=None, data_type=TT[l], role=Role.MEASURE, nullable=True),
                                                      DataComponent(name="b", data=None, data_type=TT[r], role=Role.MEASURE, nullable=True)),
                    "dataset": lambda: cls.validate(mkds("DS_1", l), mkds("DS_2", r)),
                    # operand ∘ scalar / set-of-scalars forms (the right operand is a constant or a collection, as in `x in {…}`)
                    "scalar∘set": lambda: cls.validate(Scalar(name="a", data_type=TT[l], value=None), ScalarSet(data_type=TT[r], values=[])),
                    "component∘set": lambda: cls.validate(DataComponent(name="a", data=None, data_type=TT[l], role=Role.MEASURE, nullable=True),
                                                          ScalarSet(data_type=TT[r], values=[])),
                    "dataset∘set": lambda: cls.validate(mkds("DS_1", l), ScalarSet(data_type=TT[r], values=[])),
                    "component∘scalar": lambda: cls.validate(DataComponent(name="a", data=None, data_type=TT[l], role=Role.MEASURE, nullable=True),
                                                             Scalar(name="b", data_type=TT[r], value=None)),
                    "dataset∘scalar": lambda: cls.validate(mkds("DS_1", l), Scalar(name="b", data_type=TT[r], value=None)),
                }
                for lvl, f in forms.items():
                    got = outcome(f)
                    hist[lvl] = hist.get(lvl, 0) + 1
                    ctx.count((op["name"], lvl, l, r))
                    exp = ("RAISE",) if want == "RAISE" else ("OK", want)
                    if got[0] != exp[0] or (got[0] == "OK" and got[1] != exp[1]):
                        if got[0] == "RAISE" and got[1] not in ("1-1-1-1", "1-1-1-2", "1-1-1-3"):
                            continue  # rejected earlier for a reason other than the type pair (structure rule)
                        disagreements += 1
                        ctx.violation(f"k:{op['name']}:{lvl}:{l}:{r}",
                                      f"{op['name']} ('{op['op']}') at {lvl} level on ({l},{r}): engine {got}, promotion rule {exp}",
                                      {"op": op["name"], "level": lvl, "l": l, "r": r, "engine": got, "rule": exp})
        elif op["arity"] == 1:
            if not inherits(cls, O.Unary, generic_u):
                n_skipped += 1
                continue
            n_cls += 1
            for o in T.TY:
                want = unp[(o, op["tc"], op["rt"])]
                forms = {
                    "scalar": lambda: cls.validate(Scalar(name="a", data_type=TT[o], value=None)),
                    "component": lambda: cls.validate(DataComponent(name="a", data=None, data_type=TT[o], role=Role.MEASURE, nullable=True)),
                    "dataset": lambda: cls.validate(mkds("DS_1", o)),
                }
                for lvl, f in forms.items():
                    got = outcome(f)
                    hist[lvl] = hist.get(lvl, 0) + 1
                    ctx.count((op["name"], lvl, o))
                    exp = ("RAISE",) if want == "RAISE" else ("OK", want)
                    if got[0] != exp[0] or (got[0] == "OK" and got[1] != exp[1]):
                        if got[0] == "RAISE" and got[1] not in ("1-1-1-1", "1-1-1-2", "1-1-1-3", "1-1-1-5"):
                            continue
                        disagreements += 1
                        ctx.violation(f"k:{op['name']}:{lvl}:{o}",
                                      f"{op['name']} ('{op['op']}') at {lvl} level on {o}: engine {got}, promotion rule {exp}",
                                      {"op": op["name"], "level": lvl, "o": o, "engine": got, "rule": exp})
    ctx.cov["operator_classes_driven"] = n_cls
    ctx.cov["operator_classes_with_overridden_validation_not_driven"] = n_skipped
    ctx.cov["k_levels"] = hist
    ctx.log(f"K: {n_cls} generic operator classes driven at 3 levels ({sum(hist.values())} validations), "
            f"{n_skipped} classes with their own validation skipped, {disagreements} disagreements")


def run(ctx):
    d = T.emit()
    ctx.cov["rule"] = ("exhaustive: all 9x9x10x10 binary and 9x10x10 unary argument tuples of the four promotion functions (real code, evaluated "
                       "each run) + every generic operator class x level x type pair; distinct = tuple")
    ctx.cov["exhaustive"] = True
    for k, v in d["binp"][:3] + d["binp"][4000:4002]:
        ctx.sample({"binary_implicit_promotion": k, "result": v})
    for k, _ in d["binp"]:
        ctx.count(("binp",) + k)
    for k, _ in d["unp"]:
        ctx.count(("unp",) + k)
    ctx.cov["registry_operators"] = len(d["reg"])
    ok = ctx.prove("C11")
    found = py_search(ctx, d)
    for key, what, rep in found[:25]:
        ctx.violation(f"{key}:{'/'.join(str(x) for x in rep.values())}", what, rep)
    drive_operators(ctx, d)
    ctx.trusted.append("T-types translator (harness/translate/types.py): import of vtlengine.DataTypes/Operators, rst list-table scanner for "
                       "docs/data_types.rst; the set of commutative operator tokens {+,*,and,or,xor,=,<>} is the harness's reading of VTL")
    ctx.assumptions.append("operator classes that override the generic validation (their own structure rules) are outside the K part; "
                           "their use of the promotion functions is still covered by the function-table theorems")


def replay(ctx, obj):
    D, TT = T.types()
    from vtlengine.Exceptions import SemanticError
    def g(k):
        return TT[obj[k]] if obj.get(k) else None
    try:
        if "l" in obj and "tc" in obj:
            print("binary_implicit_promotion ->", D.binary_implicit_promotion(g("l"), g("r"), g("tc"), g("rt")))
            print("check ->", D.check_binary_implicit_promotion(g("l"), g("r"), g("tc"), g("rt")))
    except SemanticError as e:
        print("raises", e)
    print(obj.get("what"))
    return 1
