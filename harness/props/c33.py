"""C33 — results depend only on the set of input datapoints.
Proof: Props/C33.v (order independence of the specification functions).  The predicate itself is evaluated directly on the
engine: every case is re-run with permuted rows and shuffled columns (DataFrame and CSV input forms) and must return the same
datapoints as a set."""
from __future__ import annotations

import csv
import hashlib
import itertools
import json
import tempfile
from pathlib import Path

import pandas as pd

import corpus
import engine
import exprk

NONDET = ("current_date", "random(", "random (")
TIE_SENSITIVE = (" over ", " over(", "rank", "first_value", "last_value", "lag", "lead")


def result_sig(res):
    if not res["ok"]:
        return ("ERR",) + tuple(res["err"])
    out = {}
    for name, d in res["datasets"].items():
        comps = sorted(range(len(d["comps"])), key=lambda i: d["comps"][i][0])
        if all(len(r) == len(d["comps"]) for r in d["rows"]):
            rows = sorted(tuple(repr(r[i]) for i in comps) for r in d["rows"])
        else:
            # returned data without one column per declared component (a structure-conformance defect, C10's business):
            # compare the datapoints as multisets of values so that the signature stays independent of row and column order
            rows = sorted(tuple(sorted(repr(v) for v in r)) for r in d["rows"])
        out[name] = (tuple(d["comps"][i][0] for i in comps), tuple(rows))
    return ("OK", tuple(sorted(out.items())), tuple(sorted((k, repr(v)) for k, v in res["scalars"].items())))


def permute_df(df, rng, rows=True, cols=True):
    d = df
    if rows and len(d) > 1:
        idx = list(range(len(d)))
        rng.shuffle(idx)
        d = d.iloc[idx].reset_index(drop=True)
    if cols and len(d.columns) > 1:
        c = list(d.columns)
        rng.shuffle(c)
        d = d[c]
    return d


def df_to_csv(df, path):
    with open(path, "w", newline="") as f:
        w = csv.writer(f)
        w.writerow(list(df.columns))
        for rec in df.itertuples(index=False, name=None):
            w.writerow(["" if (v is None or (isinstance(v, float) and v != v)) else ("true" if v is True else "false" if v is False else v) for v in rec])


def check_generated(ctx, n, tmp):
    viol = 0
    for i in range(n):
        c = exprk.make_case(ctx.rng, ctx.rng.choice([1, 2, 3]), kinds=None,
                            directed=ctx.rng.choice([None, None, None, None, "setctx", "nest21", "chain"]))
        if c is None:
            continue
        base = exprk.run_engine(c)
        sig0 = result_sig(base)
        variants = []
        small = all(len(d["rows"]) <= 3 for d in c["dss"].values())
        if small:  # exhaustive row permutations of every input (≤ 3 rows each)
            names = list(c["dps"])
            perms = [list(itertools.permutations(range(len(c["dps"][n_])))) for n_ in names]
            for combo in itertools.islice(itertools.product(*perms), 40):
                variants.append(("rows-exhaustive", {n_: c["dps"][n_].iloc[list(p)].reset_index(drop=True) for n_, p in zip(names, combo)}))
        for _ in range(2):
            variants.append(("rows+cols-df", {n_: permute_df(df, ctx.rng) for n_, df in c["dps"].items()}))
        csvv = {}
        for n_, df in c["dps"].items():
            p = Path(tmp) / f"{n_}.csv"
            df_to_csv(permute_df(df, ctx.rng), p)
            csvv[n_] = p
        variants.append(("rows+cols-csv", csvv))
        for kind, dps in variants:
            r = engine.run_case(c["script"], c["structs"], dps)
            ctx.count(hashlib.sha1((c["script"] + kind + repr(sorted((k, str(v)) for k, v in (dps.items() if isinstance(dps, dict) else [])))).encode()).hexdigest())
            if result_sig(r) != sig0:
                # the CSV form may differ from the DataFrame form for reasons belonging to C18 (input-form equivalence):
                # compare CSV-permuted against CSV-unpermuted instead
                if kind == "rows+cols-csv":
                    csv0 = {}
                    for n_, df in c["dps"].items():
                        p = Path(tmp) / f"{n_}_0.csv"
                        df_to_csv(df, p)
                        csv0[n_] = p
                    if result_sig(engine.run_case(c["script"], c["structs"], csv0)) == result_sig(r):
                        continue
                viol += 1
                ctx.violation(f"generated:{kind}:" + "+".join(sorted(k for k in c["hist"] if not k.startswith("c:")))[:60],
                              f"{c['script'].strip()} gives different datapoints after permuting input rows/columns ({kind})",
                              {"case": exprk.case_json(c), "variant": kind, "base": str(sig0)[:800], "permuted": str(result_sig(r))[:800]})
        if len(ctx.cov["samples"]) < 3:
            ctx.sample({"script": c["script"], "variants": len(variants), "rows": {k: len(v) for k, v in c["dps"].items()}})
    return viol


I_, M_ = "Identifier", "Measure"
WIDE = [("Id_1", "Integer", I_, False), ("Id_2", "Integer", I_, False), ("Me_d", "Date", M_, True), ("Me_d2", "Date", M_, True), ("Me_n", "Number", M_, True),
        ("Me_n2", "Number", M_, True), ("Me_i", "Integer", M_, True), ("Me_i2", "Integer", M_, True), ("Me_s", "String", M_, True), ("Me_s2", "String", M_, True),
        ("Me_b", "Boolean", M_, True), ("Me_b2", "Boolean", M_, True), ("Me_t", "Time_Period", M_, True), ("Me_t2", "Time_Period", M_, True)]
WIDE_SCRIPTS = ["DS_r <- DS_L;", "DS_r <- DS_L[calc Me_9 := Me_n * 2 + Me_i][filter Id_1 > 10];", "DS_r <- DS_L[keep Me_s2, Me_i2, Me_d2, Me_b2, Me_t2];",
                "DS_r <- count(DS_L group by Id_2);"]


def wide_frame(n, n_rare):
    """n rows; the last n_rare rows use the rarer (still valid) spelling of each type, so that anything deciding a column's
    reading from a leading sample of rows is sensitive to the row order"""
    rows = []
    for i in range(n):
        rare = i >= n - n_rare
        rows.append({"Id_1": i, "Id_2": i % 5,
                     "Me_d": ("2021-03-%02d 10:30:00" % (i % 28 + 1)) if rare else "2020-01-%02d" % (i % 28 + 1),
                     "Me_d2": "2019-12-%02d" % (i % 28 + 1),
                     "Me_n": (i + 0.5) if rare else float(i % 50), "Me_n2": float(-(i % 13)),
                     "Me_i": None if rare and i % 2 else i % 7, "Me_i2": (i * 3) % 11,
                     "Me_s": ("%03d" % i) if not rare else 'x,y"z', "Me_s2": "s%d" % (i % 17),
                     "Me_b": None if rare else bool(i % 2), "Me_b2": bool(i % 3 == 0),
                     "Me_t": "2020-Q%d" % (i % 4 + 1) if not rare else "2020-M%02d" % (i % 12 + 1), "Me_t2": "20%02d" % (i % 30)})
    return pd.DataFrame(rows).astype(object)


PLAIN = [("Id_1", "Integer", I_, False), ("Me_s", "String", M_, True), ("Me_s2", "String", M_, True), ("Me_i", "Integer", M_, True),
         ("Me_i2", "Integer", M_, True), ("Me_b", "Boolean", M_, True), ("Me_b2", "Boolean", M_, True)]
PLAIN_SCRIPTS = ["DS_r <- DS_P;", "DS_r <- DS_P[calc Me_9 := Me_s || Me_s2, Me_8 := Me_i - Me_i2][filter Me_b or not Me_b2];", "DS_r <- DS_P[keep Me_s2, Me_i2, Me_b2];"]


def check_plain(ctx, n):
    """columns already in their storage types (int64 / str / bool, no nulls, no Number/Date): nothing needs converting on the way in, so
    any positional shortcut of the loader shows as swapped same-typed columns when the frame's column order differs from the structure"""
    st = engine.structures(engine.ds_struct("DS_P", PLAIN))
    df = pd.DataFrame({"Id_1": range(n), "Me_s": ["a%d" % (i % 7) for i in range(n)], "Me_s2": ["zz%d" % (i % 5) for i in range(n)],
                       "Me_i": [i % 11 for i in range(n)], "Me_i2": [100 + i % 3 for i in range(n)],
                       "Me_b": [i % 2 == 0 for i in range(n)], "Me_b2": [i % 3 == 0 for i in range(n)]})
    viol = 0
    for s in PLAIN_SCRIPTS:
        base = result_sig(engine.run_case(s, st, {"DS_P": df}))
        for k in range(4):
            d = permute_df(df, ctx.rng, rows=(k % 2 == 1), cols=True)
            ctx.count(("plain", s, tuple(d.columns), k % 2))
            r = result_sig(engine.run_case(s, st, {"DS_P": d}))
            if r != base:
                viol += 1
                ctx.violation("plain:cols-shuffled", f"{s} over a DataFrame in storage types gives different datapoints when its columns are ordered {list(d.columns)}",
                              {"script": s, "columns": list(d.columns), "rows": n, "base": str(base)[:500], "other": str(r)[:500]})
                break
    return viol


def check_wide(ctx, n, tmp):
    """large inputs with pairs of same-typed columns and late rare spellings: rows/columns permuted, DataFrame and CSV forms"""
    st = engine.structures(engine.ds_struct("DS_L", WIDE))
    df = wide_frame(n, max(10, n // 100))
    viol = 0
    for s in WIDE_SCRIPTS:
        for form in ("df", "csv"):
            sigs = {}
            for kind in ("base", "rows-shuffled", "rare-first", "cols-shuffled", "rows+cols"):
                d = df
                if kind in ("rows-shuffled", "rows+cols"):
                    d = permute_df(d, ctx.rng, rows=True, cols=False)
                if kind == "rare-first":
                    d = d.iloc[::-1].reset_index(drop=True)
                if kind in ("cols-shuffled", "rows+cols"):
                    d = permute_df(d, ctx.rng, rows=False, cols=True)
                if form == "csv":
                    p = Path(tmp) / f"wide_{kind}.csv"
                    df_to_csv(d, p)
                    dp = {"DS_L": p}
                else:
                    dp = {"DS_L": d}
                sigs[kind] = result_sig(engine.run_case(s, st, dp))
                ctx.count(("wide", s, form, kind))
            if len(set(sigs.values())) > 1:
                viol += 1
                bad = [k for k, v in sigs.items() if v != sigs["base"]]
                ctx.violation(f"wide:{form}:" + "+".join(bad), f"{s} over {n} rows ({form} input) gives different datapoints after permuting input rows/columns ({bad})",
                              {"script": s, "rows": n, "form": form, "variants_differing_from_base": bad, "base": str(sigs["base"])[:500],
                               "other": str(sigs[bad[0]])[:500]})
    return viol


def check_zoo(ctx, draws, tmp):
    """operator templates beyond the modelled subset (joins, exists_in, aggregations, validation, time operators…)"""
    import zoo
    viol = 0
    for name, script, st, dps in zoo.cases(ctx.rng, n_draws=draws):
        if any(k in script for k in TIE_SENSITIVE):
            rows = False
        else:
            rows = True
        base = engine.run_case(script, st, dps)
        if not base["ok"]:
            continue
        sig0 = result_sig(base)
        for kind in ("df", "csv"):
            perm = {n_: permute_df(df, ctx.rng, rows=rows) for n_, df in dps.items()}
            if kind == "csv":
                csvp = {}
                for n_, df in perm.items():
                    p = Path(tmp) / f"z_{n_}.csv"
                    df_to_csv(df, p)
                    csvp[n_] = p
                    p0 = Path(tmp) / f"z0_{n_}.csv"
                    df_to_csv(dps[n_], p0)
                r = engine.run_case(script, st, csvp)
                ref = result_sig(engine.run_case(script, st, {n_: Path(tmp) / f"z0_{n_}.csv" for n_ in dps}))
            else:
                r = engine.run_case(script, st, perm)
                ref = sig0
            ctx.count(("zoo", name, kind, repr(sorted((k, v.to_json()) for k, v in perm.items()))))
            if result_sig(r) != ref:
                viol += 1
                ctx.violation(f"zoo:{name}:{kind}", f"{script.strip()[-160:]} gives different datapoints after permuting input rows/columns ({kind})",
                              {"template": name, "script": script, "inputs": {k: v.to_dict(orient="list") for k, v in dps.items()},
                               "permuted": {k: v.to_dict(orient="list") for k, v in perm.items()}, "base": str(ref)[:600], "other": str(result_sig(r))[:600]})
    return viol


def read_csv_raw(path):
    with open(path, newline="", encoding="utf-8-sig") as f:
        rows = list(csv.reader(f))
    return rows[0], [r for r in rows[1:] if r]   # blank lines are not datapoints


def check_corpus(ctx, n, tmp):
    cases = corpus.enumerate_cases(rng=ctx.rng)
    done = viol = skipped = 0
    for c in cases:
        if done >= n:
            break
        low = c.script.lower()
        if any(k in low for k in NONDET):
            skipped += 1
            continue
        base = corpus.run_corpus_case(c)
        if not base["ok"]:
            continue
        done += 1
        sig0 = result_sig(base)
        rows_ok = not any(k in low for k in TIE_SENSITIVE)
        dps = {}
        for name, p in c.datapoints.items():
            try:
                hdr, rows = read_csv_raw(p)
            except Exception:
                dps = None
                break
            if rows_ok:
                ctx.rng.shuffle(rows)
            order = list(range(len(hdr)))
            if not (hdr and hdr[0].strip('"').upper() in ("DATAFLOW", "STRUCTURE")):  # SDMX-CSV: column layout is part of the format
                ctx.rng.shuffle(order)
            q = Path(tmp) / f"c_{name}.csv"
            with open(q, "w", newline="") as f:
                w = csv.writer(f)
                w.writerow([hdr[i] for i in order])
                for r in rows:
                    r = r + [""] * (len(hdr) - len(r))
                    w.writerow([r[i] for i in order])
            dps[name] = q
        if dps is None:
            continue
        c2 = corpus.Case(c.id, c.script, c.structures, dps)
        r = corpus.run_corpus_case(c2)
        ctx.count("corpus:" + c.id)
        if result_sig(r) != sig0:
            viol += 1
            ctx.violation("corpus:" + c.id, f"corpus script {c.id} gives different datapoints after permuting input rows/columns",
                          {"corpus_case": c.id, "rows_permuted": rows_ok, "base": str(sig0)[:600], "permuted": str(result_sig(r))[:600]})
    ctx.cov["corpus_cases"] = done
    ctx.cov["corpus_skipped_nondeterministic"] = skipped
    return viol


def run(ctx):
    ctx.prove("C33")
    engine.install(need_parser=True)
    q = ctx.tier == "quick"
    with tempfile.TemporaryDirectory(prefix="c33_") as tmp:
        v1 = check_generated(ctx, 40 if q else 1500, tmp)
        v2 = check_corpus(ctx, 30 if q else 2300, tmp)
        v3 = check_wide(ctx, 3000 if q else 60000, tmp)
        v5 = check_plain(ctx, 50 if q else 5000)
        v4 = check_zoo(ctx, 1 if q else 25, tmp)
    ctx.cov["rule"] = ("each generated script (exprk generator) is re-run on all row permutations of its inputs when every input has ≤ 3 rows "
                       "(capped at 40 combinations), on random row permutations + shuffled column orders as DataFrames and as CSV files; each "
                       "sampled corpus script on shuffled rows/columns of its CSV inputs (rows are not shuffled for scripts with analytic "
                       "functions, whose ties VTL leaves open; current_date/random scripts skipped); a wide dataset (pairs of same-typed columns of every scalar type, rarer "
                       "valid spellings only in the last 1% of rows) of 3000/60000 rows under 5 row/column orders x DataFrame/CSV; every operator-zoo template "
                       "(joins, exists_in, aggregations, analytic, validation, time operators, conditionals…) on permuted inputs; distinct = (script, variant)")
    ctx.oblige("predicate evaluated on the engine: permuted inputs give the same datapoints", True)
    ctx.trusted.append("canonical comparison of results as sorted tuples of repr'd canonical values (engine.canon_dataset)")


def replay(ctx, obj):
    if "case" in obj:
        c = exprk.case_from_json(obj["case"])
        base = result_sig(exprk.run_engine(c))
        ok = True
        for _ in range(20):
            r = engine.run_case(c["script"], c["structs"], {n: permute_df(df, ctx.rng) for n, df in c["dps"].items()})
            if result_sig(r) != base:
                ok = False
                print("differs:", str(result_sig(r))[:400], "vs", str(base)[:400])
                break
        print("verdict:", "same" if ok else "DIFFERENT")
        return 0 if ok else 1
    print(obj.get("what"))
    return 1
