"""C33 — results depend only on the set of input datapoints.
Proof: Props/C33.v (order independence of the specification functions).  The predicate itself is evaluated directly on the
engine: every case is re-run with permuted rows and shuffled columns (DataFrame and CSV input forms) and must return the same
datapoints as a set."""
from __future__ import annotations

import csv
import hashlib
import itertools
import json
import tempfile
from pathlib import Path

import pandas as pd

import corpus
import engine
import exprk

NONDET = ("current_date", "random(", "random (")
TIE_SENSITIVE = (" over ", " over(", "rank", "first_value", "last_value", "lag", "lead")


def result_sig(res):
    if not res["ok"]:
        return ("ERR",) + tuple(res["err"])
    out = {}
    for name, d in res["datasets"].items():
        comps = sorted(range(len(d["comps"])), key=lambda i: d["comps"][i][0])
        rows = sorted(tuple(repr(r[i]) for i in comps) for r in d["rows"])
        out[name] = (tuple(d["comps"][i][0] for i in comps), tuple(rows))
    return ("OK", tuple(sorted(out.items())), tuple(sorted((k, repr(v)) for k, v in res["scalars"].items())))


def permute_df(df, rng, rows=True, cols=True):
    d = df
    if rows and len(d) > 1:
        idx = list(range(len(d)))
        rng.shuffle(idx)
        d = d.iloc[idx].reset_index(drop=True)
    if cols and len(d.columns) > 1:
        c = list(d.columns)
        rng.shuffle(c)
        d = d[c]
    return d


def df_to_csv(df, path):
    with open(path, "w", newline="") as f:
        w = csv.writer(f)
        w.writerow(list(df.columns))
        for rec in df.itertuples(index=False, name=None):
            w.writerow(["" if (v is None or (isinstance(v, float) and v != v)) else ("true" if v is True else "false" if v is False else v) for v in rec])


def check_generated(ctx, n, tmp):
    viol = 0
    for i in range(n):
        c = exprk.make_case(ctx.rng, ctx.rng.choice([1, 2, 3]), kinds=None)
        if c is None:
            continue
        base = exprk.run_engine(c)
        sig0 = result_sig(base)
        variants = []
        small = all(len(d["rows"]) <= 3 for d in c["dss"].values())
        if small:  # exhaustive row permutations of every input (≤ 3 rows each)
            names = list(c["dps"])
            perms = [list(itertools.permutations(range(len(c["dps"][n_])))) for n_ in names]
            for combo in itertools.islice(itertools.product(*perms), 40):
                variants.append(("rows-exhaustive", {n_: c["dps"][n_].iloc[list(p)].reset_index(drop=True) for n_, p in zip(names, combo)}))
        for _ in range(2):
            variants.append(("rows+cols-df", {n_: permute_df(df, ctx.rng) for n_, df in c["dps"].items()}))
        csvv = {}
        for n_, df in c["dps"].items():
            p = Path(tmp) / f"{n_}.csv"
            df_to_csv(permute_df(df, ctx.rng), p)
            csvv[n_] = p
        variants.append(("rows+cols-csv", csvv))
        for kind, dps in variants:
            r = engine.run_case(c["script"], c["structs"], dps)
            ctx.count(hashlib.sha1((c["script"] + kind + repr(sorted((k, str(v)) for k, v in (dps.items() if isinstance(dps, dict) else [])))).encode()).hexdigest())
            if result_sig(r) != sig0:
                # the CSV form may differ from the DataFrame form for reasons belonging to C18 (input-form equivalence):
                # compare CSV-permuted against CSV-unpermuted instead
                if kind == "rows+cols-csv":
                    csv0 = {}
                    for n_, df in c["dps"].items():
                        p = Path(tmp) / f"{n_}_0.csv"
                        df_to_csv(df, p)
                        csv0[n_] = p
                    if result_sig(engine.run_case(c["script"], c["structs"], csv0)) == result_sig(r):
                        continue
                viol += 1
                ctx.violation(f"generated:{kind}:" + "+".join(sorted(k for k in c["hist"] if not k.startswith("c:")))[:60],
                              f"{c['script'].strip()} gives different datapoints after permuting input rows/columns ({kind})",
                              {"case": exprk.case_json(c), "variant": kind, "base": str(sig0)[:800], "permuted": str(result_sig(r))[:800]})
        if len(ctx.cov["samples"]) < 3:
            ctx.sample({"script": c["script"], "variants": len(variants), "rows": {k: len(v) for k, v in c["dps"].items()}})
    return viol


def read_csv_raw(path):
    with open(path, newline="", encoding="utf-8-sig") as f:
        rows = list(csv.reader(f))
    return rows[0], [r for r in rows[1:] if r]   # blank lines are not datapoints


def check_corpus(ctx, n, tmp):
    cases = corpus.enumerate_cases(rng=ctx.rng)
    done = viol = skipped = 0
    for c in cases:
        if done >= n:
            break
        low = c.script.lower()
        if any(k in low for k in NONDET):
            skipped += 1
            continue
        base = corpus.run_corpus_case(c)
        if not base["ok"]:
            continue
        done += 1
        sig0 = result_sig(base)
        rows_ok = not any(k in low for k in TIE_SENSITIVE)
        dps = {}
        for name, p in c.datapoints.items():
            try:
                hdr, rows = read_csv_raw(p)
            except Exception:
                dps = None
                break
            if rows_ok:
                ctx.rng.shuffle(rows)
            order = list(range(len(hdr)))
            if not (hdr and hdr[0].strip('"').upper() in ("DATAFLOW", "STRUCTURE")):  # SDMX-CSV: column layout is part of the format
                ctx.rng.shuffle(order)
            q = Path(tmp) / f"c_{name}.csv"
            with open(q, "w", newline="") as f:
                w = csv.writer(f)
                w.writerow([hdr[i] for i in order])
                for r in rows:
                    r = r + [""] * (len(hdr) - len(r))
                    w.writerow([r[i] for i in order])
            dps[name] = q
        if dps is None:
            continue
        c2 = corpus.Case(c.id, c.script, c.structures, dps)
        r = corpus.run_corpus_case(c2)
        ctx.count("corpus:" + c.id)
        if result_sig(r) != sig0:
            viol += 1
            ctx.violation("corpus:" + c.id, f"corpus script {c.id} gives different datapoints after permuting input rows/columns",
                          {"corpus_case": c.id, "rows_permuted": rows_ok, "base": str(sig0)[:600], "permuted": str(result_sig(r))[:600]})
    ctx.cov["corpus_cases"] = done
    ctx.cov["corpus_skipped_nondeterministic"] = skipped
    return viol


def run(ctx):
    ctx.prove("C33")
    engine.install(need_parser=True)
    q = ctx.tier == "quick"
    with tempfile.TemporaryDirectory(prefix="c33_") as tmp:
        v1 = check_generated(ctx, 40 if q else 1500, tmp)
        v2 = check_corpus(ctx, 30 if q else 2300, tmp)
    ctx.cov["rule"] = ("each generated script (exprk generator) is re-run on all row permutations of its inputs when every input has ≤ 3 rows "
                       "(capped at 40 combinations), on random row permutations + shuffled column orders as DataFrames and as CSV files; each "
                       "sampled corpus script on shuffled rows/columns of its CSV inputs (rows are not shuffled for scripts with analytic "
                       "functions, whose ties VTL leaves open; current_date/random scripts skipped); distinct = (script, variant)")
    ctx.oblige("predicate evaluated on the engine: permuted inputs give the same datapoints", True)
    ctx.trusted.append("canonical comparison of results as sorted tuples of repr'd canonical values (engine.canon_dataset)")


def replay(ctx, obj):
    if "case" in obj:
        c = exprk.case_from_json(obj["case"])
        base = result_sig(exprk.run_engine(c))
        ok = True
        for _ in range(20):
            r = engine.run_case(c["script"], c["structs"], {n: permute_df(df, ctx.rng) for n, df in c["dps"].items()})
            if result_sig(r) != base:
                ok = False
                print("differs:", str(result_sig(r))[:400], "vs", str(base)[:400])
                break
        print("verdict:", "same" if ok else "DIFFERENT")
        return 0 if ok else 1
    print(obj.get("what"))
    return 1
